"""Deterministic virtual-time event loop for gevent (pure Python, no real I/O).

Selected with GEVENT_LOOP=harness.simgevent.vloop.VirtualLoop *before* the hub is
created.  The hub greenlet runs `VirtualLoop.run()`, which never returns: whenever it
has used up its step budget or has nothing to do at the current instant it switches
back to the *driver* greenlet (the greenlet that called `step()` / `run_until_idle()`),
which resumes it with `hub.switch()`.

Quantum = one callback from the FIFO run queue, or one timer expiry.  Like a libev
iteration the default policy is: run callbacks until none are left, then fire due
timers (earliest deadline first, ties in start order unless a tie-break hook says
otherwise).  Virtual time only moves when the driver asks for it.
"""
import heapq
import itertools
import sys
import traceback

import greenlet

EPOCH = 1000000.0


class _Callback(object):
  __slots__ = ('func', 'args', 'stopped', 'ran')

  def __init__(self, func, args):
    self.func = func
    self.args = args
    self.stopped = False
    self.ran = False

  def stop(self):
    self.stopped = True
    self.func = None
    self.args = None

  close = stop

  @property
  def pending(self):
    return not self.stopped and not self.ran

  def __bool__(self):
    return self.pending

  __nonzero__ = __bool__


class _NoopWatcher(object):
  """async/idle/prepare/check/fork/signal/io/child: never fire."""
  active = False
  pending = False
  ref = True
  priority = 0

  def __init__(self, loop, *a, **kw):
    self.loop = loop
    self.callback = None
    self.args = None

  def start(self, callback, *args, **kw):
    self.callback = callback
    self.args = args
    self.active = True

  def stop(self):
    self.active = False
    self.callback = None
    self.args = None

  def close(self):
    self.stop()

  def send(self):
    pass

  def send_ignoring_arg(self, _ignored):
    pass

  def __enter__(self):
    return self

  def __exit__(self, *a):
    self.close()


class _Timer(object):
  def __init__(self, loop, after, repeat=0.0, ref=True, priority=None):
    self.loop = loop
    self.after = max(0.0, float(after or 0.0))
    self.repeat = repeat
    self.ref = ref
    self.priority = priority
    self.callback = None
    self.args = None
    self.at = None
    self._entry = None
    self.active = False
    self.pending = False

  def start(self, callback, *args, **kw):
    # gevent passes update=True by default: `after` is relative to the real now.
    self.callback = callback
    self.args = args
    self.active = True
    self.at = self.loop._now + self.after
    self._entry = self.loop._push_timer(self)

  def again(self, callback, *args, **kw):
    self.stop()
    self.start(callback, *args, **kw)

  def stop(self):
    self.active = False
    self.callback = None
    self.args = None
    if self._entry is not None:
      self._entry[3] = None  # tombstone
      self._entry = None

  def close(self):
    self.stop()

  def __enter__(self):
    return self

  def __exit__(self, *a):
    self.close()


class VirtualLoop(object):
  default = True
  approx_timer_resolution = 0.0000001
  MAXPRI = 2
  MINPRI = -2
  WatcherType = _NoopWatcher
  instance = None

  def __init__(self, flags=None, default=None):
    self._now = EPOCH
    self._callbacks = []          # FIFO of _Callback
    self._cb_head = 0
    self._timers = []             # heap of [at, tiebreak, seq, timer]
    self._seq = itertools.count()
    self.error_handler = None
    self._driver = None
    self._budget = 0
    self.errors = []              # (context, type, value) of unhandled errors
    self.quanta = 0
    self.on_quantum = None        # optional hook(kind) after every quantum
    self.timer_tiebreak = None    # optional fn(list of due timers) -> index to fire
    self.timer_batch = False      # True: all timers due in one instant fire before any queued callback runs (as libev does)
    self._batching = False
    VirtualLoop.instance = self

  # -- ILoop -----------------------------------------------------------------------
  def now(self):
    return self._now

  def update_now(self):
    pass

  update = update_now

  def run_callback(self, func, *args):
    cb = _Callback(func, args)
    self._callbacks.append(cb)
    return cb

  run_callback_threadsafe = run_callback

  def timer(self, after, repeat=0.0, ref=True, priority=None):
    return _Timer(self, after, repeat, ref, priority)

  def async_(self, ref=True, priority=None):
    return _NoopWatcher(self)

  def idle(self, ref=True, priority=None):
    return _NoopWatcher(self)

  def prepare(self, ref=True, priority=None):
    return _NoopWatcher(self)

  def check(self, ref=True, priority=None):
    return _NoopWatcher(self)

  def fork(self, ref=True, priority=None):
    return _NoopWatcher(self)

  def signal(self, signum, ref=True, priority=None):
    return _NoopWatcher(self)

  def child(self, pid, trace=0, ref=True):
    return _NoopWatcher(self)

  def io(self, fd, events, ref=True, priority=None):
    raise RuntimeError('VirtualLoop: real I/O is not available (fd=%r)' % (fd,))

  def install_sigchld(self):
    pass

  def reinit(self):
    pass

  def destroy(self):
    pass

  def ref(self):
    pass

  def unref(self):
    pass

  def break_(self, how=None):
    pass

  def verify(self):
    pass

  def debug(self):
    return []

  def _format(self):
    return 'VirtualLoop(now=%r)' % (self._now,)

  @property
  def pendingcnt(self):
    return len(self._callbacks) - self._cb_head

  @property
  def activecnt(self):
    return len(self._timers)

  def handle_error(self, context, type, value, tb):
    handler = self.error_handler
    if handler is not None:
      handler.handle_error(context, type, value, tb)
    else:
      self.errors.append((context, type, value))

  # -- internals -------------------------------------------------------------------
  def _push_timer(self, t):
    entry = [t.at, 0, next(self._seq), t]
    heapq.heappush(self._timers, entry)
    return entry

  def _prune(self):
    tm = self._timers
    while tm and tm[0][3] is None:
      heapq.heappop(tm)

  def has_callbacks(self):
    cbs = self._callbacks
    while self._cb_head < len(cbs) and cbs[self._cb_head].stopped:
      self._cb_head += 1
    if self._cb_head >= len(cbs):
      if cbs:
        del cbs[:]
      self._cb_head = 0
      return False
    return True

  def next_timer_at(self):
    self._prune()
    return self._timers[0][0] if self._timers else None

  def _run_one_callback(self):
    cb = self._callbacks[self._cb_head]
    self._cb_head += 1
    func, args = cb.func, cb.args
    cb.ran = True
    cb.func = cb.args = None
    self.quanta += 1
    try:
      func(*args)
    except:  # noqa
      self.handle_error(func, *sys.exc_info())
    if self.on_quantum:
      self.on_quantum('cb')

  def _fire_one_timer(self):
    """Fire one timer due at self._now. Returns False if none is due."""
    self._prune()
    tm = self._timers
    if not tm or tm[0][0] > self._now + (1e-6 if (self.timer_batch and self._batching) else 0.0):
      return False
    if tm[0][0] > self._now:
      self._now = tm[0][0]
    if self.timer_tiebreak is not None:
      # timers within a microsecond of the current instant count as simultaneous (float noise of
      # deadline arithmetic; a loaded process sees them become due in one loop iteration)
      due = sorted(e for e in tm if e[3] is not None and e[0] <= self._now + 1e-6)
      if len(due) > 1:
        k = self.timer_tiebreak([e[3] for e in due])
        entry = due[k]
        t = entry[3]
        entry[3] = None
        self._prune()
      else:
        entry = heapq.heappop(tm)
        t = entry[3]
    else:
      entry = heapq.heappop(tm)
      t = entry[3]
    t._entry = None
    cb, args = t.callback, t.args
    t.active = False
    self.quanta += 1
    if cb is not None:
      try:
        cb(*args)
      except:  # noqa
        self.handle_error(cb, *sys.exc_info())
    if self.on_quantum:
      self.on_quantum('timer')
    return True

  def run(self, nowait=False, once=False):
    # Runs in the hub greenlet; never returns.
    while True:
      if self._budget == 0:
        self._yield_to_driver('budget')
        continue
      mode = self._mode
      if self._batching and mode != 'cb':
        # libev discipline (timer_batch): every timer due in this iteration fires before the run queue is served
        if self._fire_one_timer():
          self._budget -= 1
          continue
        self._batching = False
      if mode != 'timer' and self.has_callbacks():
        self._budget -= 1
        self._run_one_callback()
        continue
      if mode != 'cb' and self._fire_one_timer():
        self._budget -= 1
        self._batching = bool(self.timer_batch)
        continue
      self._yield_to_driver('idle')

  _mode = 'any'

  def _yield_to_driver(self, why):
    drv = self._driver
    if drv is None:
      raise RuntimeError('VirtualLoop has no driver (blocking call from the driver greenlet?)')
    self._driver = None
    drv.switch(why)

  # -- driver API (called from the driver greenlet, never from the hub) --------------
  def _enter(self, budget, mode='any'):
    import gevent
    hub = gevent.get_hub()
    cur = greenlet.getcurrent()
    assert cur is not hub, 'driver API called from the hub'
    self._driver = cur
    self._budget = budget
    self._mode = mode
    return hub.switch()

  def step(self, n=1):
    """Run at most n quanta at the current instant. Returns 'budget' or 'idle'."""
    return self._enter(n)

  def step_callback(self):
    """Run exactly one callback from the run queue (even if timers are due)."""
    return self._enter(1, 'cb')

  def step_timer(self):
    """Fire exactly one timer due now (even if callbacks are queued)."""
    return self._enter(1, 'timer')

  def settle(self, eps=1e-6, max_quanta=1000000):
    """Quiesce at the current instant, treating timers due within eps as due now
    (float noise of `now + (at - now)`); the clock creeps by at most eps."""
    self.run_until_idle(max_quanta)
    while True:
      nxt = self.next_timer_at()
      if nxt is None or nxt > self._now + eps:
        return
      if nxt > self._now:
        self._now = nxt
      self.run_until_idle(max_quanta)

  def run_until_idle(self, max_quanta=1000000):
    """Quiesce at the current instant (callbacks and timers due now)."""
    r = self._enter(max_quanta)
    if r == 'budget':
      raise RuntimeError('VirtualLoop: no quiescence after %d quanta' % max_quanta)
    return r

  def advance_to(self, t):
    """Move the clock to t (not past the next timer) without running anything."""
    nxt = self.next_timer_at()
    if nxt is not None and t > nxt:
      t = nxt
    if t > self._now:
      self._now = t
    return self._now

  def run_until(self, t, max_quanta=10000000):
    """Run everything up to and including virtual time t, then quiesce."""
    self.run_until_idle(max_quanta)
    while True:
      nxt = self.next_timer_at()
      if nxt is None or nxt > t:
        break
      if nxt > self._now:
        self._now = nxt
      self.run_until_idle(max_quanta)
    if t > self._now:
      self._now = t
    return self._now

  def run_for(self, dt, **kw):
    return self.run_until(self._now + dt, **kw)

  def idle_now(self):
    """True when nothing can run at the current instant."""
    if self.has_callbacks():
      return False
    nxt = self.next_timer_at()
    return nxt is None or nxt > self._now


def install():
  """Select the virtual loop and patch time.time.  Call before importing scales/gevent hub use."""
  import os
  import time
  os.environ['GEVENT_LOOP'] = 'harness.simgevent.vloop.VirtualLoop'
  os.environ.setdefault('GEVENT_MONITOR_THREAD_ENABLE', '0')
  import gevent
  hub = gevent.get_hub()
  loop = hub.loop
  if not isinstance(loop, VirtualLoop):
    raise RuntimeError('gevent hub already created with %r' % (loop,))
  time.time = loop.now
  # Unhandled greenlet errors: record, do not print.
  hub.handle_error = _make_error_recorder(hub, loop)
  return loop


def _make_error_recorder(hub, loop):
  import gevent

  def handle_error(context, type, value, tb):
    if isinstance(value, str):
      value = type(value)
    if issubclass(type, (gevent.GreenletExit,)):
      return
    if issubclass(type, (KeyboardInterrupt, SystemExit, SystemError)):
      hub.handle_system_error(type, value, tb)
      return
    loop.errors.append((repr(context), type.__name__, repr(value),
                        ''.join(traceback.format_tb(tb)[-3:]) if tb else ''))
  return handle_error
