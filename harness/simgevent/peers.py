"""In-process servers for the simulated network, with their *own* codecs (written from the
protocol descriptions, independent of the code under test).

 * tbin_*: strict TBinaryProtocol for the test interface Hello.hi(string) -> string
 * ThriftPeer: framed Thrift server (one request at a time per connection, as TFramedTransport)
 * MuxPeer: Finagle Mux server: Tping/Rping, Tdispatch/Rdispatch, Tdiscarded
Every received request is logged (`net.events` kind 'srv_recv') with the decoded method and
argument; replies are a function of the decoded request (echo) so that C02 can compare.
Replies are held until the driver releases them (manual) or sent after `auto_delay`.
"""
import struct

from harness.simgevent.simnet import Peer

VERSION_1 = 0x80010000
T_CALL, T_REPLY, T_EXCEPTION, T_ONEWAY = 1, 2, 3, 4


def tbin_encode_call(method, arg, seqid=0, mtype=T_CALL):
  m = method.encode('utf8')
  a = arg.encode('utf8')
  return (struct.pack('!I', VERSION_1 | mtype) + struct.pack('!i', len(m)) + m + struct.pack('!i', seqid) +
          b'\x0b' + struct.pack('!h', 1) + struct.pack('!i', len(a)) + a + b'\x00')


def tbin_decode_call(payload):
  """Returns dict(method, mtype, seqid, arg, ok) for a strict-binary call with one string arg
  (field 1).  ok=False if the bytes are not exactly such a message."""
  try:
    ver, = struct.unpack('!I', payload[:4])
    if ver & 0xffff0000 != VERSION_1:
      return {'ok': False}
    mtype = ver & 0xff
    n, = struct.unpack('!i', payload[4:8])
    method = payload[8:8 + n].decode('utf8')
    p = 8 + n
    seqid, = struct.unpack('!i', payload[p:p + 4])
    p += 4
    arg = None
    while True:
      ft = payload[p]
      p += 1
      if ft == 0:
        break
      fid, = struct.unpack('!h', payload[p:p + 2])
      p += 2
      if ft != 11:
        return {'ok': False}
      ln, = struct.unpack('!i', payload[p:p + 4])
      p += 4
      s = payload[p:p + ln]
      if len(s) != ln:
        return {'ok': False}
      p += ln
      if fid == 1:
        arg = s.decode('utf8')
    return {'ok': p == len(payload), 'method': method, 'mtype': mtype, 'seqid': seqid, 'arg': arg}
  except Exception:
    return {'ok': False}


def tbin_encode_reply(method, value, seqid=0):
  m = method.encode('utf8')
  v = value.encode('utf8')
  return (struct.pack('!I', VERSION_1 | T_REPLY) + struct.pack('!i', len(m)) + m + struct.pack('!i', seqid) +
          b'\x0b' + struct.pack('!h', 0) + struct.pack('!i', len(v)) + v + b'\x00')


def tbin_encode_void_reply(method, seqid=0):
  """Reply of a two-way void method: a result struct with no field set."""
  m = method.encode('utf8')
  return struct.pack('!I', VERSION_1 | T_REPLY) + struct.pack('!i', len(m)) + m + struct.pack('!i', seqid) + b'\x00'


def tbin_encode_appexc(method, text, seqid=0, etype=6):
  m = method.encode('utf8')
  t = text.encode('utf8')
  return (struct.pack('!I', VERSION_1 | T_EXCEPTION) + struct.pack('!i', len(m)) + m + struct.pack('!i', seqid) +
          b'\x0b' + struct.pack('!h', 1) + struct.pack('!i', len(t)) + t +
          b'\x08' + struct.pack('!h', 2) + struct.pack('!i', etype) + b'\x00')


def echo(arg):
  return 'echo:' + arg


class Pending(object):
  __slots__ = ('conn', 'tag', 'call', 'reply', 'seq', 'answered', 'discarded', 'n')

  def __init__(self, conn, tag, call, reply, seq, n):
    self.conn = conn
    self.tag = tag
    self.call = call
    self.reply = reply
    self.seq = seq
    self.answered = False
    self.discarded = False
    self.n = n


class _ServerBase(Peer):
  def __init__(self, net, auto_delay=None):
    Peer.__init__(self, net)
    self.auto_delay = auto_delay     # None = manual release
    self.requests = []               # Pending, in arrival order
    self.reachable = True
    self.void_methods = ()           # two-way void methods without arguments: answered at once, not tracked as requests

  def _record(self, conn, tag, call):
    if call.get('ok') and call.get('arg') is None and call.get('method') in self.void_methods and call.get('mtype') == T_CALL:
      self.net._log('srv_void', conn, tag=tag, method=call.get('method'))
      self._answer_void(conn, tag, tbin_encode_void_reply(call['method'], call.get('seqid', 0)))
      return None
    reply = None
    if call.get('ok') and call.get('arg') is not None:
      reply = tbin_encode_reply(call['method'], echo(call['arg']), call.get('seqid', 0))
    p = Pending(conn, tag, call, reply, self.net.seq, len(self.requests))
    self.requests.append(p)
    self.net._log('srv_recv', conn, req=p.n, tag=tag, method=call.get('method'), arg=call.get('arg'),
                  ok=bool(call.get('ok')), mtype=call.get('mtype'))
    if self.auto_delay is not None and reply is not None:
      conn._later(self.auto_delay, self.release, p)
    return p

  def unanswered(self, conn=None):
    return [p for p in self.requests if not p.answered and (conn is None or p.conn is conn)]


class ThriftPeer(_ServerBase):
  """Framed Thrift server."""

  def on_frame(self, conn, frame):
    self._record(conn, None, tbin_decode_call(frame))

  def _answer_void(self, conn, tag, body):
    conn.feed(struct.pack('!i', len(body)) + body)

  def release(self, p, payload=None):
    if p.answered or p.conn.closed:
      return False
    p.answered = True
    body = payload if payload is not None else p.reply
    p.conn.feed(struct.pack('!i', len(body)) + body)
    self.net._log('srv_reply', p.conn, req=p.n)
    return True


# ---- mux
TDISPATCH, RDISPATCH, TPING, RPING, TDISCARDED, RERR = 2, -2, 65, -65, 66, -128


def mux_frame(mtype, tag, body=b''):
  return struct.pack('!i', 4 + len(body)) + struct.pack('!b', mtype) + bytes([(tag >> 16) & 255, (tag >> 8) & 255, tag & 255]) + body


def mux_parse_tdispatch(body):
  """Returns (contexts list of (key bytes, value bytes), dst bytes, dtab list, payload) or None."""
  try:
    p = 0
    n, = struct.unpack('!h', body[p:p + 2])
    p += 2
    ctx = []
    for _ in range(n):
      kl, = struct.unpack('!h', body[p:p + 2])
      p += 2
      k = body[p:p + kl]
      p += kl
      vl, = struct.unpack('!h', body[p:p + 2])
      p += 2
      v = body[p:p + vl]
      p += vl
      if len(k) != kl or len(v) != vl:
        return None
      ctx.append((k, v))
    dl, = struct.unpack('!h', body[p:p + 2])
    p += 2
    dst = body[p:p + dl]
    p += dl
    nd, = struct.unpack('!h', body[p:p + 2])
    p += 2
    dtab = []
    for _ in range(nd):
      sl, = struct.unpack('!h', body[p:p + 2])
      p += 2
      s = body[p:p + sl]
      p += sl
      tl, = struct.unpack('!h', body[p:p + 2])
      p += 2
      t = body[p:p + tl]
      p += tl
      dtab.append((s, t))
    return ctx, dst, dtab, body[p:]
  except Exception:
    return None


class MuxPeer(_ServerBase):
  """Finagle Mux server.  ping_mode: 'answer' | 'silent'."""

  def __init__(self, net, auto_delay=None, ping_mode='answer', ping_delay=0.0):
    _ServerBase.__init__(self, net, auto_delay)
    self.ping_mode = ping_mode
    self.ping_delay = ping_delay
    self.frames = []         # (seq, conn idx, type, tag)
    self.discards = []       # (seq, conn idx, discarded tag)

  def on_frame(self, conn, frame):
    if len(frame) < 4:
      self.net._log('srv_badframe', conn)
      return
    mtype, = struct.unpack('!b', frame[:1])
    tag = (frame[1] << 16) | (frame[2] << 8) | frame[3]
    body = frame[4:]
    self.frames.append((self.net.seq, conn.idx, mtype, tag))
    self.net._log('srv_frame', conn, mtype=mtype, tag=tag, n=len(body))
    if mtype == TPING:
      if self.ping_mode == 'answer':
        conn._later(self.ping_delay, self._send, conn, mux_frame(RPING, tag))
    elif mtype == TDISPATCH:
      parsed = mux_parse_tdispatch(body)
      call = tbin_decode_call(parsed[3]) if parsed else {'ok': False}
      if parsed:
        call['ctx'] = parsed[0]
        call['dst_empty'] = (parsed[1] == b'' and parsed[2] == [])
      self._record(conn, tag, call)
    elif mtype == TDISCARDED:
      which = (body[0] << 16) | (body[1] << 8) | body[2] if len(body) >= 3 else -1
      self.discards.append((self.net.seq, conn.idx, which))
      self.net._log('srv_discard', conn, which=which, hdr_tag=tag)
      for p in self.requests:
        if p.conn is conn and p.tag == which and not p.answered:
          p.discarded = True

  def _send(self, conn, data):
    if not conn.closed:
      conn.feed(data)

  def release(self, p, payload=None, status=0):
    if p.answered or p.conn.closed:
      return False
    p.answered = True
    body = struct.pack('!bh', status, 0) + (payload if payload is not None else p.reply)
    p.conn.feed(mux_frame(RDISPATCH, p.tag, body), mark={'mtype': RDISPATCH, 'tag': p.tag})
    self.net._log('srv_reply', p.conn, req=p.n, tag=p.tag)
    return True

  def _answer_void(self, conn, tag, body):
    conn.feed(mux_frame(RDISPATCH, tag, struct.pack('!bh', 0, 0) + body), mark={'mtype': RDISPATCH, 'tag': tag})

  def send_frame(self, conn, mtype, tag, body=b''):
    """Adversarial / arbitrary frame from the peer."""
    conn.feed(mux_frame(mtype, tag, body), mark={'mtype': mtype, 'tag': tag})
    self.net._log('srv_rawframe', conn, mtype=mtype, tag=tag)


class KafkaPeer(_ServerBase):
  """Kafka broker side of the framing only: [size][api key:2][version:2][correlation id:4][client id len:2]
  [client id][payload]; replies are [size][correlation id:4][payload].  The payload of a test request is
  its unique ASCII argument; the reply echoes it."""

  def on_frame(self, conn, frame):
    try:
      api, ver, corr, cl = struct.unpack('!hhih', frame[:10])
      client = frame[10:10 + cl]
      payload = frame[10 + cl:]
      ok = len(client) == cl
    except Exception:
      api, ver, corr, payload, ok = -1, -1, -1, b'', False
    self.net._log('srv_frame', conn, mtype=2, tag=corr, n=len(payload))
    arg = None
    try:
      arg = payload.decode('ascii')
    except Exception:
      ok = False
    call = {'ok': ok, 'method': 'kafka', 'mtype': 1, 'arg': arg, 'seqid': corr}
    p = self._record(conn, corr, call)
    p.reply = ('echo:' + (arg or '')).encode('ascii')

  def release(self, p, payload=None):
    if p.answered or p.conn.closed:
      return False
    p.answered = True
    body = struct.pack('!i', p.tag) + (payload if payload is not None else p.reply)
    p.conn.feed(struct.pack('!i', len(body)) + body, mark={'mtype': -2, 'tag': p.tag})
    self.net._log('srv_reply', p.conn, req=p.n, tag=p.tag)
    return True

  def send_frame(self, conn, mtype, tag, body=b''):
    b = struct.pack('!i', tag) + body
    conn.feed(struct.pack('!i', len(b)) + b, mark={'mtype': mtype, 'tag': tag})
    self.net._log('srv_rawframe', conn, mtype=mtype, tag=tag)
