"""In-memory fake ZooKeeper behind a `KazooClient` subclass (engine `zk`, C19).

The code under test requires `isinstance(zk, KazooClient)`, so `FakeZK` subclasses it
WITHOUT calling the base `__init__` (no sockets, no threads).  On top of it run the REAL
`kazoo.recipe.watchers.DataWatch / ChildrenWatch` recipes and the REAL
`kazoo.handlers.gevent.SequentialGeventHandler` (its single callback-worker greenlet
serialises watch callbacks exactly as in production).

ZooKeeper semantics implemented (the documented ones the recipes rely on):
  * znode tree with stat (czxid, mzxid, version, cversion, numChildren), one global zxid;
    a node can only be created under an existing parent and only deleted when childless;
  * one-shot watches: `get`/`exists` arm a data watch on the path (`exists` also on a
    missing node, `get` on a missing node raises NoNodeError and arms nothing),
    `get_children` arms a child watch; data watches fire on create / delete / change of
    that node, child watches fire on create / delete of a child (CHILD) and on deletion
    of the node itself (DELETED); a fired watch is removed; watchers are kept as a set per
    path (re-arming the same callable twice is one watch), dispatched in arming order,
    data watchers before child watchers for a DELETED event (kazoo connection.py);
  * per-session FIFO: requests are served in the order they were issued; a watch event
    reaches the client before any later response.

Two ways to run it:
  * `manual=False`: every call is answered at once (linearised at the call).
  * `manual=True` (used by the engine): a call made by any greenlet other than the driver
    parks that greenlet on a pending request; the harness answers requests one at a time
    with `serve()` (always the oldest: per-session order) and mutates the tree in
    between with `srv_create / srv_delete / srv_set`.  A call is linearised when it is
    served.  Watch events are handed to the handler's callback queue when they fire:
    delaying an event on the wire is indistinguishable, for a client that only acts when
    it reads from the connection, from the tree operation happening later, so no separate
    in-flight event buffer is needed (the serial callback worker is the per-client FIFO).
"""
import collections
import logging
import posixpath

import gevent
import greenlet
from gevent.event import AsyncResult
from kazoo.client import KazooClient
from kazoo.exceptions import NoNodeError, NodeExistsError, NotEmptyError
from kazoo.handlers.gevent import SequentialGeventHandler
from kazoo.protocol.states import (Callback, EventType, KazooState, KeeperState, WatchedEvent,
                                   ZnodeStat)


class _Node(object):
  __slots__ = ('data', 'czxid', 'mzxid', 'version', 'cversion', 'pzxid', 'children')

  def __init__(self, data, zxid):
    self.data = data
    self.czxid = zxid
    self.mzxid = zxid
    self.version = 0
    self.cversion = 0
    self.pzxid = zxid
    self.children = set()


class _Req(object):
  __slots__ = ('op', 'path', 'watch', 'ar', 'greenlet', 'seq')


class FakeZK(KazooClient):
  """`KazooClient` look-alike over an in-memory tree.  See module docstring."""

  def __init__(self, manual=True):   # pylint: disable=super-init-not-called
    self.handler = SequentialGeventHandler()
    self.logger = logging.getLogger('fakezk')
    self.state = KazooState.CONNECTED
    self._state = KeeperState.CONNECTED
    self.state_listeners = set()
    self.manual = manual
    self.driver = greenlet.getcurrent()
    self.zxid = 0
    self.nodes = {'/': _Node(b'', 0)}
    self.data_watchers = {}     # path -> list of callables (a set, in arming order)
    self.child_watchers = {}
    self.reqs = collections.deque()
    self.seq = 0
    self.served = 0
    self.fired = 0              # watch callbacks handed to the callback queue
    self.on_event = None        # optional hook(kind, dict) for the harness log

  # ------------------------------------------------------------ client surface
  @property
  def connected(self):
    return True

  @property
  def client_state(self):
    return self._state

  def start(self, timeout=15):
    self.handler.start()

  def stop(self):
    pass

  def close(self):
    pass

  def restart(self):
    pass

  def add_listener(self, listener):
    self.state_listeners.add(listener)

  def remove_listener(self, listener):
    self.state_listeners.discard(listener)

  def retry(self, func, *args, **kwargs):
    return func(*args, **kwargs)

  def exists(self, path, watch=None):
    return self._fz_call('exists', path, watch)

  def get(self, path, watch=None):
    return self._fz_call('get', path, watch)

  def get_children(self, path, watch=None, include_data=False):
    return self._fz_call('get_children', path, watch)

  # ------------------------------------------------------------ request plumbing
  def _fz_call(self, op, path, watch):
    if not self.manual or greenlet.getcurrent() is self.driver:
      return self._apply(op, path, watch)
    r = _Req()
    r.op, r.path, r.watch = op, path, watch
    r.ar = AsyncResult()
    r.greenlet = greenlet.getcurrent()
    self.seq += 1
    r.seq = self.seq
    self.reqs.append(r)
    return r.ar.get()

  def pending(self):
    return len(self.reqs)

  def head(self):
    """(op, path, watched?) of the oldest pending request, or None."""
    if not self.reqs:
      return None
    r = self.reqs[0]
    return (r.op, r.path, r.watch is not None)

  def serve(self):
    """Answer the oldest pending request against the current tree (its linearisation
    point).  The caller resumes in a later loop quantum.  Returns (op, path, outcome)."""
    r = self.reqs.popleft()
    self.served += 1
    try:
      val = self._apply(r.op, r.path, r.watch)
    except NoNodeError as ex:
      r.ar.set_exception(ex)
      return (r.op, r.path, 'nonode')
    r.ar.set(val)
    return (r.op, r.path, 'ok')

  def _stat(self, n):
    return ZnodeStat(n.czxid, n.mzxid, 0, 0, n.version, n.cversion, 0, 0, len(n.data),
                     len(n.children), n.pzxid)

  @staticmethod
  def _arm(table, path, watch):
    if watch is None:
      return
    lst = table.setdefault(path, [])
    if watch not in lst:      # bound methods of the same object compare equal: one watch
      lst.append(watch)

  def _apply(self, op, path, watch):
    n = self.nodes.get(path)
    if op == 'exists':
      self._arm(self.data_watchers, path, watch)
      return self._stat(n) if n is not None else None
    if n is None:
      raise NoNodeError()
    if op == 'get':
      self._arm(self.data_watchers, path, watch)
      return (n.data, self._stat(n))
    if op == 'get_children':
      self._arm(self.child_watchers, path, watch)
      return sorted(n.children)
    raise ValueError(op)

  # ------------------------------------------------------------ server side (harness API)
  def _fire(self, table, path, etype):
    for w in table.pop(path, []):
      ev = WatchedEvent(etype, self._state, path)
      self.fired += 1
      self.handler.dispatch_callback(Callback('watch', w, (ev,)))

  def srv_exists(self, path):
    return path in self.nodes

  def srv_children(self, path):
    n = self.nodes.get(path)
    return sorted(n.children) if n is not None else None

  def srv_ensure_path(self, path):
    parts = [p for p in path.split('/') if p]
    cur = ''
    for p in parts:
      cur = cur + '/' + p
      if cur not in self.nodes:
        self.srv_create(cur, b'')

  def srv_create(self, path, data=b''):
    if path in self.nodes:
      raise NodeExistsError()
    parent = posixpath.dirname(path)
    pn = self.nodes.get(parent)
    if pn is None:
      raise NoNodeError()
    self.zxid += 1
    self.nodes[path] = _Node(data, self.zxid)
    pn.children.add(posixpath.basename(path))
    pn.cversion += 1
    pn.pzxid = self.zxid
    self._fire(self.data_watchers, path, EventType.CREATED)
    self._fire(self.child_watchers, parent, EventType.CHILD)

  def srv_delete(self, path):
    n = self.nodes.get(path)
    if n is None:
      raise NoNodeError()
    if n.children:
      raise NotEmptyError()
    self.zxid += 1
    del self.nodes[path]
    parent = posixpath.dirname(path)
    pn = self.nodes[parent]
    pn.children.discard(posixpath.basename(path))
    pn.cversion += 1
    pn.pzxid = self.zxid
    # one DELETED event: kazoo hands it to the data watchers, then to the child watchers
    self._fire(self.data_watchers, path, EventType.DELETED)
    self._fire(self.child_watchers, path, EventType.DELETED)
    self._fire(self.child_watchers, parent, EventType.CHILD)

  def srv_set(self, path, data):
    n = self.nodes.get(path)
    if n is None:
      raise NoNodeError()
    self.zxid += 1
    n.data = data
    n.mzxid = self.zxid
    n.version += 1
    self._fire(self.data_watchers, path, EventType.CHANGED)

  # ------------------------------------------------------------ introspection
  def callbacks_queued(self):
    return self.handler.callback_queue.qsize()

  def armed(self, path):
    """(data watch armed?, number of child watchers armed) on `path`."""
    return (bool(self.data_watchers.get(path)), len(self.child_watchers.get(path, ())))


def member_blob(host, port, endpoints=None, shard=None, status='ALIVE'):
  """Serverset member JSON as written by Twitter/Aurora announcers and parsed by
  scales.loadbalancer.zookeeper.Member.from_node."""
  import json
  blob = {
    'serviceEndpoint': {'host': host, 'port': port},
    'additionalEndpoints': dict((k, {'host': h, 'port': p}) for k, (h, p) in (endpoints or {}).items()),
    'status': status,
  }
  if shard is not None:
    blob['shard'] = shard
  return json.dumps(blob).encode('utf8')
