"""Simulated network under the virtual gevent loop.

`SimNet.install()` replaces `scales.scales_socket.gsocket` by `SimConn` objects and
`ScalesSocket._resolveAddr` by a stub, so the real ScalesSocket / VarzSocketWrapper and all
transports run unmodified.  Every operation (connect, send/sendall, recv/recv_into, close) is
logged with a global sequence number and the virtual time, and can be completed, failed, ended
(EOF) or left hanging, either by a per-connection plan fixed up front or interactively by the
driver (`conn.resolve_connect`, `conn.feed`, `conn.feed_eof`, `conn.feed_error`).

Blocking operations park the calling greenlet on a gevent Waiter; completions are delivered as
loop callbacks (like an io watcher firing) or virtual-time timers, never synchronously.
"""
import errno
import socket as _socket

import gevent
from gevent.hub import Waiter


class SimConn(object):
  """One simulated TCP connection (client side socket object)."""

  def __init__(self, net, family=None, type_=None):
    self.net = net
    self.idx = len(net.conns)           # global ordinal of creation
    net.conns.append(self)
    self.addr = None
    self.ep_ordinal = None              # ordinal among connections to the same address
    self.opn = 0                        # number of I/O operations started (connect counts)
    self.connected = False
    self.closed = False
    self.inbox = bytearray()
    self.rx_eof = False
    self.rx_err = None
    self.tx_err = None
    self.chunk = None                   # max bytes returned per recv (None = unlimited)
    self.fault_at = {}                  # opn -> 'exc' | 'eof' | 'hang'
    self.connect_plan = ('ok', 0.0)     # ('ok'|'refuse', delay) | ('hang',) | ('manual',)
    self.sent = bytearray()             # everything the client wrote
    self.send_max = None                # max bytes one send() call accepts (None = all); sendall() is unaffected
    self.stall_until = 0.0              # sends block until this virtual time (peer not reading: backpressure)
    self.fed_total = 0                  # bytes fed by the peer so far
    self.consumed_total = 0             # bytes the client has read so far
    self.marks = []                     # [(end offset in the fed stream, mark)] -> 'consumed' events
    self._waiters = {'r': None, 'w': None}
    self.peer = None
    self.user = {}
    net._new_conn(self)

  # ------------------------------------------------------------ parking
  # One waiter per direction: a reader parked in recv() and a writer blocked in sendall() (different
  # greenlets, as in the mux transports) do not disturb each other.  connect shares the read slot.
  @staticmethod
  def _slot(kind):
    return 'w' if kind == 'send' else 'r'

  def _park(self, kind):
    slot = self._slot(kind)
    if self._waiters.get(slot) is not None:
      # gevent: a second greenlet waiting on the same socket for the same direction
      from gevent.exceptions import ConcurrentObjectUseError
      raise ConcurrentObjectUseError('This socket is already used by another greenlet: %r' % (self._waiters[slot][1],))
    w = Waiter()
    self._waiters[slot] = (w, kind)
    try:
      return w.get()
    finally:
      cur = self._waiters.get(slot)
      if cur is not None and cur[0] is w:
        self._waiters[slot] = None

  def _wake(self, kind, value=None):
    slot = self._slot(kind)
    cur = self._waiters.get(slot)
    if cur is not None and cur[1] == kind:
      self._waiters[slot] = None
      cur[0].switch(value)

  def _wake_exc_all(self, exc):
    for slot in ('r', 'w'):
      cur = self._waiters.get(slot)
      if cur is not None:
        self._waiters[slot] = None
        cur[0].throw(exc)

  def _is_waiting(self, kind):
    cur = self._waiters.get(self._slot(kind))
    return cur is not None and cur[1] == kind

  def _later(self, delay, fn, *args):
    loop = self.net.loop
    if delay and delay > 0:
      t = loop.timer(delay)
      t.start(fn, *args)
    else:
      loop.run_callback(fn, *args)

  # ------------------------------------------------------------ socket API
  def setsockopt(self, *a):
    pass

  def settimeout(self, *a):
    pass

  def fileno(self):
    return 1000 + self.idx

  def connect(self, addr):
    self.addr = (addr[0], addr[1])
    self.ep_ordinal = self.net._ordinal(self.addr)
    self.opn += 1
    self.net._log('connect', self)
    self.net._on_connect_start(self)
    if self.closed:
      raise OSError(errno.EBADF, 'closed')
    plan = self.connect_plan
    scripted = self.fault_at.get(self.opn)
    if scripted == 'exc':
      plan = ('refuse', 0.0)
    elif scripted == 'hang':
      plan = ('hang',)
    kind = plan[0]
    if kind == 'ok':
      self._later(plan[1], self._connect_done, True)
    elif kind == 'refuse':
      self._later(plan[1], self._connect_done, False)
    # 'hang' / 'manual': nothing scheduled; the driver may resolve it later
    ok = self._park('connect')
    if ok is True:
      self.connected = True
      self.net._log('connected', self)
      if self.peer is not None:
        self.peer.on_connect(self)
      return
    self.net._log('connect_failed', self)
    raise ConnectionRefusedError(errno.ECONNREFUSED, 'Connection refused (simulated)')

  def _connect_done(self, ok):
    if self._is_waiting('connect'):
      self._wake('connect', ok)

  def resolve_connect(self, ok=True):
    """Driver: complete a hanging/manual connect."""
    self.net.loop.run_callback(self._connect_done, ok)

  def _check_open(self):
    if self.closed:
      raise OSError(errno.EBADF, 'Bad file descriptor (simulated: socket closed)')

  def sendall(self, data):
    self._check_open()
    if not self.connected:
      # using a socket whose connect never succeeded: not a new environment fault
      self.net._log('send_unusable', self)
      raise OSError(errno.ENOTCONN, 'Transport endpoint is not connected (simulated)')
    self.opn += 1
    f = self.fault_at.get(self.opn)
    if f in ('exc', 'eof') or self.tx_err is not None:
      self.net._log('send_failed', self)
      raise (self.tx_err or BrokenPipeError(errno.EPIPE, 'Broken pipe (simulated)'))
    data = bytes(data)
    self.sent += data
    # 'send' is logged when the write call starts (that is when its bytes count as written by the client)
    self.net._log('send', self, n=len(data), data=data)
    if self.stall_until > self.net.loop.now() + 1e-9:
      # Back-pressure: the peer is not reading.  Part of the buffer is accepted now, the call blocks, the
      # rest follows when the socket has drained (a second writer on the same socket would interleave).
      k = len(data) // 2
      if k:
        self.net._on_send(self, data[:k])
      while self.stall_until > self.net.loop.now() + 1e-9:
        self.net._log('send_stalled', self)
        t = self.net.loop.timer(self.stall_until - self.net.loop.now())
        t.start(self._send_ready)
        try:
          self._park('send')
        finally:
          t.stop()
        self._check_open()
      self.net._on_send(self, data[k:])
    else:
      self.net._on_send(self, data)
    return None

  def _send_ready(self):
    if self._is_waiting('send'):
      self._wake('send', None)

  def send(self, data):
    # a single send() may accept only part of the buffer (send_max: socket buffer space per call)
    data = bytes(data)
    if self.send_max is not None and len(data) > self.send_max:
      data = data[:self.send_max]
    self.sendall(data)
    return len(data)

  def _recv(self, n):
    self._check_open()
    if not self.connected:
      self.net._log('recv_unusable', self)
      raise OSError(errno.ENOTCONN, 'Transport endpoint is not connected (simulated)')
    self.opn += 1
    f = self.fault_at.get(self.opn)
    if f == 'exc':
      self.net._log('recv_failed', self)
      raise ConnectionResetError(errno.ECONNRESET, 'Connection reset (simulated)')
    if f == 'eof':
      self.net._log('recv_eof', self)
      return b''
    hang = (f == 'hang')
    if hang:
      self.net._log('recv_hang', self)
    while True:
      if self.closed:
        raise OSError(errno.EBADF, 'Bad file descriptor (simulated: socket closed)')
      if not hang:
        if self.inbox:
          k = min(n, len(self.inbox))
          if self.chunk:
            k = min(k, self.chunk)
          out = bytes(self.inbox[:k])
          del self.inbox[:k]
          self.consumed_total += k
          while self.marks and self.marks[0][0] <= self.consumed_total:
            self.net._log('consumed', self, mark=self.marks.pop(0)[1])
          return out
        if self.rx_err is not None:
          self.net._log('recv_failed', self)
          raise self.rx_err
        if self.rx_eof:
          self.net._log('recv_eof', self)
          return b''
      self._park('recv')

  def recv(self, n, *flags):
    return self._recv(n)

  def recv_into(self, buf, n=0, *flags):
    if not n:
      n = len(buf)
    data = self._recv(n)
    buf[:len(data)] = data
    return len(data)

  def close(self):
    if self.closed:
      return
    self.closed = True
    self.net._log('close', self)
    if self.peer is not None:
      self.peer.on_close(self)
    if self._waiters['r'] is not None or self._waiters['w'] is not None:
      # gevent cancels pending waits on close: the blocked greenlets get EBADF
      self.net.loop.run_callback(self._wake_exc_all,
                                 OSError(errno.EBADF, 'Bad file descriptor (simulated: closed during wait)'))

  # ------------------------------------------------------------ driver / peer side
  def feed(self, data, mark=None):
    """Bytes from the peer arrive (become readable at the next loop callback).  If `mark`
    is given, a 'consumed' event carrying it is logged when the client has read them all."""
    if self.closed:
      return
    self.inbox += data
    self.fed_total += len(data)
    if mark is not None:
      self.marks.append((self.fed_total, mark))
    self.net._log('feed', self, n=len(data))
    if self._is_waiting('recv'):
      if self.net.direct_wake and self.net._in_hub():
        # as an I/O watcher does: the parked reader runs inside the event that made the socket readable
        self._recv_ready()
      else:
        self.net.loop.run_callback(self._recv_ready)

  def _recv_ready(self):
    if self._is_waiting('recv'):
      self._wake('recv', None)

  def feed_eof(self):
    self.rx_eof = True
    self.net._log('peer_eof', self)
    if self._is_waiting('recv'):
      self.net.loop.run_callback(self._recv_ready)

  def feed_error(self, exc=None):
    self.rx_err = exc or ConnectionResetError(errno.ECONNRESET, 'Connection reset (simulated)')
    self.tx_err = BrokenPipeError(errno.EPIPE, 'Broken pipe (simulated)')
    self.net._log('peer_reset', self)
    if self._is_waiting('recv'):
      self.net.loop.run_callback(self._recv_ready)

  @property
  def waiting(self):
    """'connect' | 'recv' | 'send' | None (the read side is reported when both directions are parked)."""
    for slot in ('r', 'w'):
      cur = self._waiters.get(slot)
      if cur is not None:
        return cur[1]
    return None


class SimNet(object):
  direct_wake = False   # True: bytes arriving from a timer (peer delay) wake the parked reader at once, not via the run queue

  def _in_hub(self):
    import gevent
    import greenlet
    return greenlet.getcurrent() is gevent.get_hub()

  def __init__(self, loop):
    self.loop = loop
    self.conns = []
    self.events = []          # global log: dict(seq, t, kind, conn, ...)
    self.seq = 0
    self._ordinals = {}
    self.on_new = None        # hook(conn) at socket creation
    self.on_connect_start = None   # hook(conn) when connect() is called (addr known)
    self.peer_factory = None  # fn(conn) -> peer, called at connect start
    self.listeners = []       # fn(event dict)
    self.installed = False

  def install(self):
    import scales.scales_socket as ss
    net = self

    def make_socket(family=None, type_=None, *a, **kw):
      return SimConn(net, family, type_)
    ss.gsocket = make_socket

    def _resolve(self_):
      return [(_socket.AF_INET, _socket.SOCK_STREAM, 6, '', (self_.host, self_.port))]
    ss.ScalesSocket._resolveAddr = _resolve
    self.installed = True
    return self

  def _new_conn(self, conn):
    if self.on_new:
      self.on_new(conn)

  def _ordinal(self, addr):
    k = self._ordinals.get(addr, 0)
    self._ordinals[addr] = k + 1
    return k

  def _on_connect_start(self, conn):
    if self.peer_factory is not None and conn.peer is None:
      conn.peer = self.peer_factory(conn)
    if self.on_connect_start:
      self.on_connect_start(conn)

  def _on_send(self, conn, data):
    if conn.peer is not None:
      conn.peer.on_data(conn, data)

  def next_seq(self):
    self.seq += 1
    return self.seq

  def _log(self, kind, conn, **kw):
    ev = {'seq': self.next_seq(), 't': self.loop.now(), 'kind': kind, 'conn': conn.idx}
    ev.update(kw)
    self.events.append(ev)
    for l in self.listeners:
      l(ev)

  def conns_to(self, addr):
    return [c for c in self.conns if c.addr == addr]


class Peer(object):
  """Base class of in-process servers: accumulates bytes per connection, splits 4-byte
  length-prefixed frames."""

  def __init__(self, net):
    self.net = net
    self.buf = {}

  def on_connect(self, conn):
    self.buf[conn.idx] = bytearray()

  def on_close(self, conn):
    pass

  def on_data(self, conn, data):
    b = self.buf.setdefault(conn.idx, bytearray())
    b += data
    while len(b) >= 4:
      n = int.from_bytes(b[:4], 'big', signed=True)
      if n < 0 or len(b) < 4 + n:
        break
      frame = bytes(b[4:4 + n])
      del b[:4 + n]
      self.on_frame(conn, frame)

  def partial(self, conn):
    """Bytes of an incomplete frame currently buffered for conn."""
    return bytes(self.buf.get(conn.idx, b''))

  def on_frame(self, conn, frame):
    raise NotImplementedError()
