"""TLC runner: model checking runs, batched trace validation, output parsing."""
import json
import os
import re
import shutil
import subprocess
import tempfile
import time

VERIF = os.path.dirname(os.path.dirname(os.path.abspath(__file__)))
SPECS = os.path.join(VERIF, 'specs')
JAR = '/opt/veriftools/tla/tla2tools.jar'
CP = JAR + ':/opt/veriftools/tla/CommunityModules-deps.jar'


class TLCError(Exception):
  """Machinery failure (not a property verdict)."""


class TLCResult(object):
  def __init__(self):
    self.stdout = ''
    self.rc = None
    self.generated = 0
    self.distinct = 0
    self.depth = 0
    self.wall_s = 0.0
    self.violated = None      # name of violated invariant/property, or None
    self.error = None         # other error text
    self.coverage = {}        # action name -> (distinct, total)
    self.printed = []         # parsed PrintT values that are tuples
    self.cmd = ''

  @property
  def ok(self):
    return self.violated is None and self.error is None and self.rc == 0


_RE_STATES = re.compile(r'(\d+) states generated, (\d+) distinct states found')
_RE_DEPTH = re.compile(r'The depth of the complete state graph search is (\d+)')
_RE_INV = re.compile(r'Error: Invariant (\S+) is violated')
_RE_ACTPROP = re.compile(r'Error: Action property (\S+) is violated')
_RE_COV = re.compile(r'^<(\w+) line \d+, col \d+ to line \d+, col \d+ of module (\w+)>: (\d+):(\d+)', re.M)


def run_tlc(module, cfg, workers=16, timeout=600, java_opts=None, env=None, extra=None,
            coverage=False, heap='8g', cwd=SPECS, depth_first=False, keep=False):
  """Run TLC on specs/<module>.tla with specs/<cfg>. Returns TLCResult."""
  meta = tempfile.mkdtemp(prefix='tlcmeta_')
  cmd = ['java', '-XX:+UseParallelGC', '-Xmx' + heap, '-Xss64m']
  if depth_first:
    cmd.append('-Dtlc2.tool.queue.IStateQueue=StateDeque')
  cmd += list(java_opts or [])
  cmd += ['-cp', CP, 'tlc2.TLC', '-workers', str(workers), '-metadir', meta,
          '-noGenerateSpecTE', '-config', cfg]
  if coverage:
    cmd += ['-coverage', '1']
  cmd += list(extra or [])
  cmd.append(module)
  e = dict(os.environ)
  e.update(env or {})
  r = TLCResult()
  r.cmd = ' '.join(cmd)
  t0 = time.time()
  try:
    p = subprocess.run(cmd, cwd=cwd, env=e, stdout=subprocess.PIPE, stderr=subprocess.STDOUT,
                       timeout=timeout, universal_newlines=True)
    r.stdout = p.stdout
    r.rc = p.returncode
  except subprocess.TimeoutExpired as ex:
    r.stdout = (ex.stdout or b'').decode('utf8', 'replace') if isinstance(ex.stdout, bytes) else (ex.stdout or '')
    r.rc = -9
    r.error = 'timeout after %ss' % timeout
  finally:
    if not keep:
      shutil.rmtree(meta, ignore_errors=True)
  r.wall_s = time.time() - t0
  out = r.stdout
  m = None
  for m in _RE_STATES.finditer(out):
    pass
  if m:
    r.generated, r.distinct = int(m.group(1)), int(m.group(2))
  m = _RE_DEPTH.search(out)
  if m:
    r.depth = int(m.group(1))
  m = _RE_INV.search(out) or _RE_ACTPROP.search(out)
  if m:
    r.violated = m.group(1)
  elif 'Temporal properties were violated' in out:
    r.violated = 'temporal'
  elif 'Deadlock reached' in out:
    r.violated = 'deadlock'
  elif r.error is None and ('Error:' in out or r.rc not in (0,)):
    em = re.search(r'Error: (.*(?:\n.*){0,6})', out)
    r.error = em.group(1) if em else 'tlc exit %s' % r.rc
  for m in _RE_COV.finditer(out):
    r.coverage[m.group(1)] = (int(m.group(3)), int(m.group(4)))
  r.printed = parse_printed(out)
  return r


def parse_printed(out):
  """Extract PrintT'd tuples `<<...>>` (possibly spanning lines) from TLC output."""
  vals = []
  i = 0
  n = len(out)
  while True:
    j = out.find('<<"', i)
    if j < 0:
      break
    # must start a line
    if j > 0 and out[j - 1] != '\n':
      i = j + 3
      continue
    depth = 0
    k = j
    instr = False
    while k < n:
      c = out[k]
      if instr:
        if c == '\\':
          k += 1
        elif c == '"':
          instr = False
      elif c == '"':
        instr = True
      elif out.startswith('<<', k):
        depth += 1
        k += 1
      elif out.startswith('>>', k):
        depth -= 1
        k += 1
        if depth == 0:
          break
      k += 1
    txt = out[j:k + 1]
    try:
      vals.append(parse_tla(txt))
    except Exception:
      pass
    i = k + 1
  return vals


# ---------------------------------------------------------------- TLA+ value parser
class _P(object):
  def __init__(self, s):
    self.s = s
    self.i = 0

  def ws(self):
    s = self.s
    while self.i < len(s) and s[self.i] in ' \t\r\n':
      self.i += 1

  def peek(self, t):
    self.ws()
    return self.s.startswith(t, self.i)

  def eat(self, t):
    self.ws()
    if not self.s.startswith(t, self.i):
      raise ValueError('expected %r at %d: %r' % (t, self.i, self.s[self.i:self.i + 30]))
    self.i += len(t)

  def value(self):
    self.ws()
    s = self.s
    c = s[self.i]
    if s.startswith('<<', self.i):
      self.i += 2
      out = []
      if self.peek('>>'):
        self.eat('>>')
        return out
      while True:
        out.append(self.value())
        if self.peek(','):
          self.eat(',')
        else:
          self.eat('>>')
          return out
    if c == '{':
      self.i += 1
      out = []
      if self.peek('}'):
        self.eat('}')
        return []
      while True:
        out.append(self.value())
        if self.peek(','):
          self.eat(',')
        else:
          self.eat('}')
          return sorted(out, key=lambda x: json.dumps(x, sort_keys=True, default=str))
    if c == '[':
      self.i += 1
      d = {}
      if self.peek(']'):
        self.eat(']')
        return d
      while True:
        self.ws()
        m = re.compile(r'[A-Za-z_][A-Za-z0-9_]*').match(s, self.i)
        if m and s[m.end():].lstrip().startswith('|->'):
          key = m.group(0)
          self.i = m.end()
        else:
          key = None
        if key is None:
          raise ValueError('function literal not supported at %d' % self.i)
        self.eat('|->')
        d[key] = self.value()
        if self.peek(','):
          self.eat(',')
        else:
          self.eat(']')
          return d
    if c == '(':
      # function display (a :> b @@ c :> d)
      self.i += 1
      d = {}
      while True:
        k = self.value()
        self.eat(':>')
        v = self.value()
        d[_freeze(k)] = v
        if self.peek('@@'):
          self.eat('@@')
        else:
          self.eat(')')
          return d
    if c == '"':
      j = self.i + 1
      buf = []
      while s[j] != '"':
        if s[j] == '\\':
          j += 1
        buf.append(s[j])
        j += 1
      self.i = j + 1
      return ''.join(buf)
    m = re.compile(r'-?\d+').match(s, self.i)
    if m:
      self.i = m.end()
      return int(m.group(0))
    m = re.compile(r'[A-Za-z_][A-Za-z0-9_]*').match(s, self.i)
    if m:
      self.i = m.end()
      w = m.group(0)
      if w == 'TRUE':
        return True
      if w == 'FALSE':
        return False
      return w
    raise ValueError('cannot parse at %d: %r' % (self.i, s[self.i:self.i + 30]))


def _freeze(x):
  if isinstance(x, list):
    return tuple(_freeze(y) for y in x)
  if isinstance(x, dict):
    return tuple(sorted((k, _freeze(v)) for k, v in x.items()))
  return x


def parse_tla(txt):
  p = _P(txt)
  v = p.value()
  return v


# ---------------------------------------------------------------- behaviours from TLC
_RE_STATE_HDR = re.compile(r'^\\\* <(\w+)[^>]*>\s*$|^STATE_(\d+) ==\s*$', re.M)


def simulate_behaviours(module, cfg, num, depth, seed=0, timeout=600, workers=1, env=None):
  """`tlc -simulate file=...`: returns a list of behaviours; each a list of
  (action_name, state_dict)."""
  d = tempfile.mkdtemp(prefix='tlcsim_')
  try:
    r = run_tlc(module, cfg, workers=workers, timeout=timeout, env=env,
                extra=['-simulate', 'file=%s/tr,num=%d' % (d, num), '-depth', str(depth),
                       '-seed', str(seed)])
    behs = []
    for fn in sorted(os.listdir(d)):
      behs.append(parse_behaviour_file(open(os.path.join(d, fn)).read()))
    return r, behs
  finally:
    shutil.rmtree(d, ignore_errors=True)


def parse_behaviour_file(txt):
  """Parse one `-simulate file=` module: list of (action, {var: value})."""
  out = []
  parts = re.split(r'^(\\\* <[^\n]*>|STATE_\d+ ==)\s*$', txt, flags=re.M)
  action = None
  i = 1
  while i < len(parts):
    hdr = parts[i]
    body = parts[i + 1] if i + 1 < len(parts) else ''
    if hdr.startswith('\\*'):
      m = re.match(r'\\\* <(\w+)(?:\(([^)]*)\))?', hdr)
      action = None
      if m:
        params = []
        if m.group(2):
          try:
            params = parse_tla('<<' + m.group(2) + '>>')
          except Exception:
            params = [m.group(2)]
        action = (m.group(1), params)
    else:
      st = {}
      # body: conjunct list "/\ var = value" (first may lack /\)
      body = body.split('====')[0]
      for m in re.finditer(r'(?:^|\n)\s*(?:/\\ )?(\w+) = ((?:.|\n)*?)(?=\n\s*/\\ \w+ = |\n\s*\n|\Z)', body):
        try:
          st[m.group(1)] = parse_tla(m.group(2).strip())
        except Exception:
          st[m.group(1)] = m.group(2).strip()
      out.append((action, st))
      action = None
    i += 2
  return out


# ---------------------------------------------------------------- batched trace validation
def validate_traces(trace_module, cfg, traces, timeout=900, heap='8g', keep_file=None, extra_env=None):
  """Validate a list of traces (dicts with 'ev' list etc.) in one TLC run.

  The trace spec reads ndJsonDeserialize(IOEnv.TRACE_FILE), handles every trace to a
  terminal state and PrintT's <<"V", tid, consumed, verdict>> once per trace, where
  verdict = "ok" or the name of the failing clause.  Returns (TLCResult, {tid: (consumed, verdict)}).
  """
  d = tempfile.mkdtemp(prefix='tlctr_')
  fn = os.path.join(d, 'traces.ndjson')
  try:
    with open(fn, 'w') as f:
      for i, t in enumerate(traces):
        t = dict(t)
        t['tid'] = i + 1
        f.write(json.dumps(t, separators=(',', ':')) + '\n')
    if keep_file:
      shutil.copy(fn, keep_file)
    env = {'TRACE_FILE': fn, 'TRACE_N': str(len(traces))}
    env.update(extra_env or {})
    r = run_tlc(trace_module, cfg, workers=1, timeout=timeout, env=env, heap=heap)
    verdicts = {}
    for v in r.printed:
      if isinstance(v, list) and len(v) >= 4 and v[0] == 'V':
        verdicts[v[1]] = (v[2], v[3])
    if r.error is not None or r.violated is not None:
      raise TLCError('trace validation run failed: %s %s\n%s' % (r.violated, r.error, r.stdout[-3000:]))
    if len(verdicts) != len(traces):
      raise TLCError('trace validation: %d verdicts for %d traces\n%s' % (len(verdicts), len(traces), r.stdout[-3000:]))
    return r, verdicts
  finally:
    shutil.rmtree(d, ignore_errors=True)


def sany(module, cwd=SPECS):
  p = subprocess.run(['java', '-cp', CP, 'tla2sany.SANY', module + '.tla'], cwd=cwd,
                     stdout=subprocess.PIPE, stderr=subprocess.STDOUT, universal_newlines=True)
  ok = p.returncode == 0 and 'error' not in p.stdout.lower().replace('errors: 0', '')
  return ok, p.stdout


# ---------------------------------------------------------------- transition cover from the complete state graph
def graph_behaviours(module, cfg, budget=100000, seed=0, timeout=1800, env=None, workers=8):
  """Dump the complete state graph of a small configuration (`tlc -dump dot,actionlabels`) and return
  behaviours that together take every transition (up to `budget` behaviours): each uncovered transition
  (deepest first) is reached by a shortest path and the walk is then extended along uncovered transitions.
  Behaviours have the format of simulate_behaviours: [(('Init', []), state), ((action, params), state), ...].
  Also returns statistics {graph_states, graph_transitions, graph_transitions_covered}."""
  import collections
  import random as _random
  d = tempfile.mkdtemp(prefix='tlcgraph_')
  try:
    dot = os.path.join(d, 'g.dot')
    r = run_tlc(module, cfg, workers=workers, timeout=timeout, env=env, extra=['-dump', 'dot,actionlabels', dot])
    if not r.ok:
      raise TLCError('state graph dump failed: %r %r\n%s' % (r.violated, r.error, r.stdout[-2000:]))
    txt = open(dot).read()
  finally:
    shutil.rmtree(d, ignore_errors=True)
  labels = {}
  init = []
  for m in re.finditer(r'^(-?\d+) \[label="((?:[^"\\]|\\.)*)"(,style = filled)?', txt, re.M):
    labels[m.group(1)] = m.group(2)
    if m.group(3):
      init.append(m.group(1))
  edges = collections.defaultdict(list)
  for m in re.finditer(r'^(-?\d+) -> (-?\d+) \[label="([^"]*)"', txt, re.M):
    if m.group(1) != m.group(2) or True:
      edges[m.group(1)].append((m.group(3), m.group(2)))
  par, depth = {}, {}
  dq = collections.deque()
  for i in sorted(init):
    depth[i] = 0
    par[i] = None
    dq.append(i)
  while dq:
    u = dq.popleft()
    for (a, v) in edges[u]:
      if v not in depth:
        depth[v] = depth[u] + 1
        par[v] = (u, a)
        dq.append(v)
  all_e = [(u, a, v) for u in sorted(edges) if u in depth for (a, v) in edges[u]]
  unc = set(all_e)
  rng = _random.Random(seed)
  rng.shuffle(all_e)
  all_e.sort(key=lambda e: -depth[e[0]])
  paths = []
  for e in all_e:
    if e not in unc:
      continue
    if len(paths) >= budget:
      break
    pre = []
    x = e[0]
    while par[x] is not None:
      pu, pa = par[x]
      pre.append((pu, pa, x))
      x = pu
    pre.reverse()
    path = pre + [e]
    cur = e[2]
    while True:
      outs = [(cur, a2, v2) for (a2, v2) in edges[cur] if (cur, a2, v2) in unc and (cur, a2, v2) != e]
      if not outs:
        break
      nxt = rng.choice(outs)
      path.append(nxt)
      unc.discard(nxt)
      cur = nxt[2]
    for pe in path:
      unc.discard(pe)
    paths.append(path)
  cache = {}

  def state(nid):
    if nid not in cache:
      s = labels[nid].replace('\\n', '\n').replace('\\"', '"').replace('\\\\', '\\')
      st = {}
      for m in re.finditer(r'(?:^|\n)/\\ (\w+) = ((?:.|\n)*?)(?=\n/\\ \w+ = |\Z)', s):
        try:
          st[m.group(1)] = parse_tla(m.group(2).strip())
        except Exception:
          st[m.group(1)] = m.group(2).strip()
      cache[nid] = st
    return cache[nid]

  behs = []
  for path in paths:
    b = [(('Init', []), state(path[0][0]))]
    for (u, a, v) in path:
      m = re.match(r'(\w+)(?:\((.*)\))?$', a)
      params = parse_tla('<<' + m.group(2) + '>>') if m and m.group(2) else []
      b.append(((m.group(1) if m else a, params), state(v)))
    behs.append(b)
  return behs, {'graph_states': len(labels), 'graph_transitions': len(all_e),
                'graph_transitions_covered': len(all_e) - len(unc)}
