// Third test interface of the C14 engine: its methods are NAMED like methods of hello.thrift /
// base.thrift / derived.thrift but have different argument and result types, so that any state
// keyed by bare generated names ('hi_args', 'twice_result', ...) and shared between clients of
// different interfaces in one process is exposed.
service Other {
  i64 hi(1: i32 n),
  i64 echo(1: i64 v, 2: string tag),
  string add(1: string a, 2: string b),
  string ping(1: string token),
  list<string> count(1: i32 upto),
  bool reset(1: string name, 2: bool hard),
  i64 twice(1: i64 x),
  void drop(1: i32 key, 2: i32 count)
}
