__all__ = ['ttypes', 'constants', 'Other']
