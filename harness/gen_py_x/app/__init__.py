__all__ = ['DerivedApi']
