"""An application-side interface: a plain Python subclass of the generated interface of a service that itself
extends another service (Derived extends Base).  Handing it to the client builder is what an application does
when it adds helpers / documentation to the generated Iface; its MRO is DerivedApi.Iface -> Derived.Iface ->
Base.Iface, and the args/result classes live in the modules of the last two.  The server side is the plain
Derived processor."""
from harness.gen_py_x.derived import Derived


class Iface(Derived.Iface):
  """The application's view of service Derived (no new methods)."""


Processor = Derived.Processor
