// Fourth test interface: a THIRD level of service inheritance across modules
// (Deep extends Derived extends Base): the args/result classes of the inherited methods live two
// modules away from the interface handed to the client builder.
include "derived.thrift"

service Deep extends derived.Derived {
  string label(1: string s),
  list<string> names(1: i32 n, 2: string prefix)
}
