__all__ = ['ttypes', 'constants', 'Deep']
