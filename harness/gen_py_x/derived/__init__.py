__all__ = ['ttypes', 'constants', 'Derived']
