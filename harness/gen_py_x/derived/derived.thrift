// Second test interface: service inheritance across modules.
include "base.thrift"

service Derived extends base.Base {
  i32 twice(1: i32 x),
  void drop(1: string key) throws (1: base.Boom err)
}
