// Test interface of the C14 engine (hand-translated to Python in this directory).
struct Item {
  1: i32 id,
  2: string name,
  3: optional i64 big,
  4: list<string> tags,
  5: bool flag
}

exception Boom {
  1: string why,
  2: i32 code
}

exception Bust {
  1: Item item
}

service Base {
  string echo(1: string s),
  i64 add(1: i32 a, 2: i64 b),
  void ping(),
  Item put(1: Item item, 2: string note) throws (1: Boom err, 2: Bust bust),
  void reset(1: i32 level) throws (1: Boom err),
  oneway void fire(1: string s),
  i32 count(1: list<string> names),
  bool check(1: bool b, 3: Item item)
}
