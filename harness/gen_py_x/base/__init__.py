__all__ = ['ttypes', 'constants', 'Base']
