"""bin/check entry point."""
import argparse
import importlib
import os
import sys
import traceback

ENGINES = {
  'C10': 'timer',
  'C01': 'stack', 'C02': 'stack', 'C12': 'stack',
  'C08': 'transport', 'C11': 'transport', 'C09': 'resurrect',
  'C13': 'muxwire', 'C15': 'kafkawire',
  'C14': 'thriftwire', 'C20': 'proxy',
  'C07': 'pool', 'C18': 'varz', 'C19': 'zk', 'C06': 'aperture', 'C16': 'share', 'C17': 'async_', 'C03': 'balancer', 'C04': 'balancer', 'C05': 'balancer',
}


def main(argv=None):
  ap = argparse.ArgumentParser()
  ap.add_argument('prop', nargs='?')
  ap.add_argument('--tier', default=os.environ.get('VERIF_TIER') or 'quick', choices=['quick', 'thorough'])
  ap.add_argument('--replay')
  ap.add_argument('--selftest', action='store_true')
  a = ap.parse_args(argv)
  seed = int(os.environ.get('VERIF_SEED') or 0)
  from harness import runner
  try:
    if a.selftest:
      from harness import selftest
      return selftest.main()
    if a.prop not in ENGINES:
      print('unknown property %r' % a.prop)
      return 2
    engine = importlib.import_module('harness.engines.' + ENGINES[a.prop])
    if a.replay:
      return runner.run_replay(engine, a.prop, a.replay)
    return runner.run_check(engine, a.prop, a.tier, seed)
  except runner.MachineryError as e:
    print('MACHINERY-FAILURE: %s' % e)
    return 2
  except Exception:
    traceback.print_exc()
    print('MACHINERY-FAILURE: unexpected exception')
    return 2


if __name__ == '__main__':
  sys.exit(main())
