"""Evaluate one seeded change: usage  python -m harness.seedtest <seed_dir> <prop> [<prop> ...] [--tier quick]

<seed_dir> holds patch.diff and demo.py (and notes.md).  Steps, all on a scratch copy of /repo (never /repo itself):
  1. the patch applies; the repository's 52 tests still pass with it;
  2. demo.py passes without the patch and fails with it;
  3. each listed property's check is run against the patched copy (VERIF_REPO) and its verdict recorded.
Writes <seed_dir>/meta.json.  The scratch copy is removed at the end.
"""
import json
import os
import re
import shutil
import subprocess
import sys
import tempfile
import time

VERIF = os.path.dirname(os.path.dirname(os.path.abspath(__file__)))
PYTEST = ['/venv/bin/python', '-m', 'pytest', '-q', '-p', 'no:cacheprovider', '--timeout=900', '--continue-on-collection-errors']


def sh(cmd, cwd=None, env=None, timeout=3600):
  e = dict(os.environ)
  e.update(env or {})
  p = subprocess.run(cmd, cwd=cwd, env=e, stdout=subprocess.PIPE, stderr=subprocess.STDOUT, universal_newlines=True, timeout=timeout)
  return p.returncode, p.stdout


def main(argv):
  tier = 'quick'
  if '--tier' in argv:
    i = argv.index('--tier')
    tier = argv[i + 1]
    del argv[i:i + 2]
  seed_dir = os.path.abspath(argv[0])
  props = argv[1:]
  patch = os.path.join(seed_dir, 'patch.diff')
  demo = os.path.join(seed_dir, 'demo.py')
  scratch = tempfile.mkdtemp(prefix='seedrun_')
  meta = {'seed_dir': os.path.relpath(seed_dir, VERIF), 'properties_checked': props, 'tier': tier}
  try:
    for name in os.listdir('/repo'):
      if name in ('.git', '_out', '__pycache__', '.pytest_cache'):
        continue
      src = os.path.join('/repo', name)
      dst = os.path.join(scratch, name)
      if os.path.isdir(src):
        shutil.copytree(src, dst, ignore=shutil.ignore_patterns('__pycache__', '*.pyc'))
      else:
        shutil.copy2(src, dst)
    os.makedirs(os.path.join(scratch, '_out', 'X'), exist_ok=True)
    demo_rel = None
    if os.path.exists(demo):
      shutil.copy(demo, os.path.join(scratch, '_out', 'X', 'demo.py'))
      for extra in os.listdir(seed_dir):     # helper modules a demo imports from its _out directory
        if extra.endswith('.py') and extra != 'demo.py':
          shutil.copy(os.path.join(seed_dir, extra), os.path.join(scratch, '_out', extra))
          shutil.copy(os.path.join(seed_dir, extra), os.path.join(scratch, '_out', 'X', extra))
      demo_rel = '_out/X/demo.py'
      rc, out = sh(['/venv/bin/python', demo_rel], cwd=scratch, timeout=300)
      meta['demo_unpatched_rc'] = rc
    rc, out = sh(['git', 'apply', '--whitespace=nowarn', patch], cwd=scratch)
    meta['patch_applies'] = rc == 0
    if rc != 0:
      meta['patch_error'] = out[-500:]
      return finish(seed_dir, meta)
    rc, out = sh(PYTEST, cwd=scratch, timeout=1200)
    m = re.search(r'(\d+) passed', out)
    meta['tests_passed'] = int(m.group(1)) if m else 0
    mf = re.search(r'(\d+) failed', out)
    meta['tests_failed'] = int(mf.group(1)) if mf else 0
    if demo_rel:
      rc, out = sh(['/venv/bin/python', demo_rel], cwd=scratch, timeout=300)
      meta['demo_patched_rc'] = rc
      meta['demo_patched_tail'] = out[-300:]
    meta['checks'] = {}
    for p in props:
      t0 = time.time()
      rc, out = sh([os.path.join(VERIF, 'bin', 'check'), p, '--tier', tier], cwd=VERIF,
                   env={'VERIF_REPO': scratch, 'VERIF_EVIDENCE_DIR': os.path.join(scratch, '_evidence')}, timeout=7200)
      viol = [l for l in out.splitlines() if l.startswith('VIOLATION')]
      clauses = sorted(set(re.findall(r'clause (C\d+\.\w+) failed', out)))
      meta['checks'][p] = {'rc': rc, 'violation_lines': len(viol), 'clauses': clauses, 'wall_s': round(time.time() - t0, 1),
                           'drift_lines': len([l for l in out.splitlines() if l.startswith('DRIFT')]),
                           'tail': out[-400:] if rc not in (0, 1) else ''}
    meta['caught_by'] = [p for p, r in meta['checks'].items() if r['rc'] == 1]
    return finish(seed_dir, meta)
  finally:
    shutil.rmtree(scratch, ignore_errors=True)


def finish(seed_dir, meta):
  old = {}
  mp = os.path.join(seed_dir, 'meta.json')
  if os.path.exists(mp):
    try:
      old = json.load(open(mp))
    except Exception:
      old = {}
  checks = dict(old.get('checks', {}))
  checks.update(meta.get('checks', {}))
  old.update(meta)
  if checks:
    old['checks'] = checks
    old['caught_by'] = sorted(p for p, r in checks.items() if r.get('rc') == 1)
    old['properties_checked'] = sorted(checks)
  with open(mp, 'w') as f:
    json.dump(old, f, indent=1, sort_keys=True)
  print(json.dumps({k: v for k, v in meta.items() if k != 'checks'}, sort_keys=True))
  for p, r in meta.get('checks', {}).items():
    print(p, r['rc'], r['clauses'], r['wall_s'])
  return 0


if __name__ == '__main__':
  sys.exit(main(sys.argv[1:]))
