"""Generic check flow shared by all engines.

  1. TLC model-checks the engine's code-shaped spec(s) (design-level, exhaustive in bounds).
  2. Direction A (optional per engine): TLC-generated behaviours replayed on the real code.
  3. Direction B: drivers run the real code, recorded traces are validated by TLC against
     the property-level spec (XAbsTrace); every clause evaluated at every step.
  4. Verdict policy: VIOLATION only for a real-code trace rejected by a clause tagged with
     the property; known findings are reported as KNOWN-FINDING; machinery failures exit 2.
"""
import concurrent.futures
import json
import os
import sys
import time

from harness import common, tlc


class MachineryError(Exception):
  pass


def _validate_batches(engine, prop, traces, tier):
  """Validate traces in chunks, several JVMs in parallel. Returns {index: (consumed, verdict)}."""
  chunk = getattr(engine, 'TRACE_CHUNK', 1500)
  jobs = []
  for i in range(0, len(traces), chunk):
    jobs.append((i, traces[i:i + chunk]))
  out = {}
  tlc_wall = [0.0]

  def work(job):
    off, trs = job
    slim = [engine.trace_for_tlc(t) if hasattr(engine, 'trace_for_tlc') else
            {'cfg': t['cfg'], 'ev': t['ev']} for t in trs]
    r, verdicts = tlc.validate_traces(engine.TRACE_MODULE, engine.TRACE_CFG, slim,
                                      timeout=getattr(engine, 'TRACE_TIMEOUT', 1800),
                                      extra_env={'PROP': prop})
    tlc_wall[0] += r.wall_s
    return off, verdicts

  with concurrent.futures.ThreadPoolExecutor(max_workers=min(8, max(1, len(jobs)))) as ex:
    for off, verdicts in ex.map(work, jobs):
      for tid, v in verdicts.items():
        out[off + tid - 1] = v
  return out, tlc_wall[0]


def run_check(engine, prop, tier, seed):
  t0 = time.time()
  level = engine.LEVEL[prop]
  findings = common.load_known_findings()
  cov = {'states': 0, 'transitions': 0, 'models': [], 'traces_validated_against_impl': 0,
         'samples': []}
  assumptions = list(getattr(engine, 'ASSUMPTIONS', []))

  # ---- 1. model checking of the code-shaped / abstract specs
  for m in engine.models(prop, tier):
    r = tlc.run_tlc(m['module'], m['cfg'], workers=m.get('workers', 16),
                    timeout=m.get('timeout', 1200), coverage=m.get('coverage', False),
                    heap=m.get('heap', '12g'), extra=m.get('extra'), env=m.get('env'))
    entry = {'module': m['module'], 'cfg': m['cfg'], 'distinct': r.distinct,
             'generated': r.generated, 'depth': r.depth, 'wall_s': round(r.wall_s, 1),
             'what': m.get('what', '')}
    if m.get('expect_violation'):
      # A model of a *repaired/unrepaired variant* documented as counterexample generator.
      entry['violated'] = r.violated
      if r.violated != m['expect_violation']:
        raise MachineryError('model %s/%s: expected counterexample to %s, got %r %r\n%s' % (
          m['module'], m['cfg'], m['expect_violation'], r.violated, r.error, r.stdout[-2000:]))
    elif not r.ok:
      raise MachineryError('model %s/%s failed: violated=%r error=%r\n%s' % (
        m['module'], m['cfg'], r.violated, r.error, r.stdout[-4000:]))
    if m.get('coverage'):
      zero = [a for a, (d, t) in r.coverage.items() if t == 0 and a not in m.get('may_be_unused', ())]
      entry['actions_covered'] = len(r.coverage) - len(zero)
      if zero:
        raise MachineryError('model %s/%s vacuous: actions never taken: %s' % (m['module'], m['cfg'], zero))
    cov['states'] += r.distinct
    cov['transitions'] += r.generated
    cov['models'].append(entry)
    print('[%s] model %s/%s: %d distinct, %d generated, depth %d, %.1fs' % (
      prop, m['module'], m['cfg'], r.distinct, r.generated, r.depth, r.wall_s))
    sys.stdout.flush()

  # ---- 2. direction A: spec behaviours replayed on the real code
  viol_lines = []
  known_lines = {}
  nviol = 0
  traces = []
  if hasattr(engine, 'replay_behaviours'):
    ra = engine.replay_behaviours(prop, tier, seed)
    cov['replay'] = ra.get('summary', {})
    traces.extend(ra.get('traces', []))
    for d in ra.get('drift', [])[:5]:
      print('DRIFT property=%s %s' % (prop, d))
    print('[%s] direction A: %s' % (prop, json.dumps(ra.get('summary', {}))))
    sys.stdout.flush()

  # ---- 3. direction B: real-code traces
  scripts = engine.cases(prop, tier, seed)
  res = common.run_forked(engine.run_case, scripts, timeout_s=getattr(engine, 'CASE_TIMEOUT', 120))
  errs = [(i, r['err']) for i, r in enumerate(res) if 'err' in r]
  if errs:
    raise MachineryError('driver failed on %d/%d cases; first: script=%s\n%s' % (
      len(errs), len(res), json.dumps(scripts[errs[0][0]])[:500], errs[0][1]))
  for s, r in zip(scripts, res):
    t = r['ok']
    t['script'] = s
    traces.append(t)
  print('[%s] %d traces recorded from the real code (%.1fs)' % (prop, len(traces), time.time() - t0))
  sys.stdout.flush()

  verdicts, tlc_wall = _validate_batches(engine, prop, traces, tier)
  cov['traces_validated_against_impl'] = len(traces)
  cov['trace_events'] = sum(len(t['ev']) for t in traces)

  # ---- 4. verdicts
  distinct = set()
  for i, t in enumerate(traces):
    consumed, verdict = verdicts[i]
    key = engine.nontrivial(prop, t) if hasattr(engine, 'nontrivial') else common.canon(t['ev'])
    if key is not None:
      distinct.add(key)
    if verdict == 'ok':
      continue
    if verdict.startswith('harness.'):
      raise MachineryError('trace %d rejected by harness sanity clause %s at event %d: %s' % (
        i, verdict, consumed, json.dumps(t['ev'][max(0, consumed - 3):consumed + 1])))
    vprop = verdict.split('.')[0]
    if vprop != prop:
      continue
    witness = engine.witness(prop, t, consumed, verdict) if hasattr(engine, 'witness') else {}
    k = common.match_known(findings, prop, verdict, witness)
    if k is not None:
      kid = k.get('id', k.get('what'))
      if kid not in known_lines:
        known_lines[kid] = 'KNOWN-FINDING: property=%s %s [clause %s, witness %s]' % (
          prop, k.get('what', ''), verdict, json.dumps(k.get('witness', {}), sort_keys=True))
      continue
    nviol += 1
    if len(viol_lines) < 5:
      path = common.write_replay(prop, {
        'engine': engine.NAME, 'property': prop, 'clause': verdict, 'failing_event_index': consumed,
        'failing_event': t['ev'][consumed] if consumed < len(t['ev']) else None,
        'witness': witness, 'script': t.get('script'), 'cfg': t['cfg'], 'trace': t['ev'],
        'seed': seed, 'tier': tier})
      viol_lines.append('VIOLATION property=%s replay=%s' % (prop, path))
      print('[%s] clause %s failed at event %d of trace %d: %s' % (
        prop, verdict, consumed, i, json.dumps(t['ev'][consumed] if consumed < len(t['ev']) else None)))

  for ln in known_lines.values():
    print(ln)
  for ln in viol_lines:
    print(ln)

  # ---- 5. evidence
  samples = []
  for t in traces[:2]:
    samples.append({'cfg': t['cfg'], 'ev': t['ev'][:40]})
  cov['samples'] = samples
  cov['evaluations'] = len(traces)
  cov['distinct_nontrivial'] = len(distinct)
  cov['rule'] = getattr(engine, 'RULE', {}).get(prop, getattr(engine, 'RULE_DEFAULT',
                'a trace is non-trivial if the engine marks it so; distinct by canonical event list'))
  cov['exhaustive'] = bool(getattr(engine, 'EXHAUSTIVE', {}).get((prop, tier), False))
  cov['known_findings_reported'] = len(known_lines)
  cov['tlc_trace_validation_wall_s'] = round(tlc_wall, 1)
  if hasattr(engine, 'extra_coverage'):
    cov.update(engine.extra_coverage(prop, tier, traces))
  common.write_evidence(prop, tier, seed, level, cov, assumptions, time.time() - t0, nviol)
  print('[%s] tier=%s seed=%s traces=%d distinct_nontrivial=%d violations=%d known=%d wall=%.1fs' % (
    prop, tier, seed, len(traces), len(distinct), nviol, len(known_lines), time.time() - t0))
  return 1 if nviol else 0


def run_replay(engine, prop, path):
  with open(path) as f:
    payload = json.load(f)
  res = common.run_forked(engine.run_case, [payload['script']])
  if 'err' in res[0]:
    raise MachineryError('replay driver failed:\n' + res[0]['err'])
  t = res[0]['ok']
  verdicts, _ = _validate_batches(engine, prop, [t], 'quick')
  consumed, verdict = verdicts[0]
  print('replay verdict: %s at event %d' % (verdict, consumed))
  if verdict != 'ok' and verdict.split('.')[0] == prop:
    print('VIOLATION property=%s replay=%s' % (prop, path))
    return 1
  return 0
