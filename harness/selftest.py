"""setup_cmd: offline self-test of the machinery (no property verdicts)."""
import glob
import os
import sys

from harness import common, tlc


def main():
  ok = True
  # 1. every spec module parses
  mods = sorted(os.path.basename(p)[:-4] for p in glob.glob(os.path.join(tlc.SPECS, '*.tla')))
  import concurrent.futures
  with concurrent.futures.ThreadPoolExecutor(max_workers=8) as ex:
    for m, (good, out) in zip(mods, ex.map(tlc.sany, mods)):
      if not good:
        ok = False
        print('SANY FAILED: %s\n%s' % (m, out[-1500:]))
  print('selftest: %d TLA+ modules parsed' % len(mods))
  # 2. virtual loop differential scenario (order of events is what gevent would produce)
  res = common.run_forked(_vloop_scenario, [0])
  if 'err' in res[0] or res[0]['ok'] != _EXPECTED:
    ok = False
    print('selftest: virtual loop scenario mismatch: %r' % (res[0],))
  else:
    print('selftest: virtual loop scenario ok')
  os.makedirs(common.EVIDENCE_DIR, exist_ok=True)
  return 0 if ok else 2


_EXPECTED = [['w1', True, 0], ['w2', True, 0], ['late', False, 500], ['timeout', 750], ['sleep', 1000]]


def _vloop_scenario(_):
  loop = common.boot()
  import gevent
  from gevent.event import Event
  from harness.simgevent.vloop import EPOCH
  log = []
  e = Event()

  def ms():
    return int(round((loop.now() - EPOCH) * 1000))

  def w(name):
    log.append([name, e.wait(), ms()])

  def late():
    e2 = Event()
    log.append(['late', e2.wait(0.5), ms()])

  def to():
    try:
      with gevent.Timeout(0.75):
        gevent.sleep(10)
    except gevent.Timeout:
      log.append(['timeout', ms()])

  def sl():
    gevent.sleep(1.0)
    log.append(['sleep', ms()])
  gevent.spawn(w, 'w1')
  gevent.spawn(w, 'w2')
  gevent.spawn(late)
  gevent.spawn(to)
  gevent.spawn(sl)
  loop.run_until_idle()
  e.set()
  loop.run_for(2.0)
  return log
