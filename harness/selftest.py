"""setup_cmd: offline self-test of the machinery (no property verdicts)."""
import glob
import os
import sys

from harness import common, tlc


def main():
  ok = True
  # 1. every spec module parses
  mods = sorted(os.path.basename(p)[:-4] for p in glob.glob(os.path.join(tlc.SPECS, '*.tla')))
  import concurrent.futures
  with concurrent.futures.ThreadPoolExecutor(max_workers=8) as ex:
    for m, (good, out) in zip(mods, ex.map(tlc.sany, mods)):
      if not good:
        ok = False
        print('SANY FAILED: %s\n%s' % (m, out[-1500:]))
  print('selftest: %d TLA+ modules parsed' % len(mods))
  # 2. virtual loop differential scenario (order of events is what gevent would produce)
  res = common.run_forked(_vloop_scenario, [0])
  if 'err' in res[0] or res[0]['ok'] != _EXPECTED:
    ok = False
    print('selftest: virtual loop scenario mismatch: %r' % (res[0],))
  else:
    print('selftest: virtual loop scenario ok')
  # 3. differential: the same timing-insensitive scenario under real gevent (libev/libuv, real clock,
  #    times scaled to 20 ms) must produce the same order of events as under the virtual loop
  import subprocess
  p = subprocess.run([sys.executable, '-c', _REAL_LOOP_PROG], stdout=subprocess.PIPE, stderr=subprocess.STDOUT,
                     universal_newlines=True, timeout=60, env={k: v for k, v in os.environ.items() if k != 'GEVENT_LOOP'})
  real = p.stdout.strip().splitlines()[-1] if p.stdout.strip() else ''
  virt = common.run_forked(_order_scenario, [0])[0]
  if 'err' in virt:
    ok = False
    print('selftest: virtual-loop scenario failed: %r' % (virt,))
  elif real != ' '.join(virt['ok']):
    # real time is subject to machine load: reported, not fatal
    print('selftest: WARNING real-loop vs virtual-loop order differs (machine load?):\n real: %s\n virt: %s' % (real, ' '.join(virt['ok'])))
  else:
    print('selftest: virtual loop agrees with the real gevent loop on the differential scenario (%d events)' % len(virt['ok']))
  os.makedirs(common.EVIDENCE_DIR, exist_ok=True)
  return 0 if ok else 2


_SCENARIO_SRC = '''
def scenario(gevent, U):
  from gevent.event import Event, AsyncResult
  from gevent.queue import Queue
  log = []
  e = Event(); ar = AsyncResult(); q = Queue()
  def waiter(n):
    log.append('w%d:%s' % (n, e.wait(10 * U)))
  def setter():
    gevent.sleep(2 * U); log.append('set'); e.set()
  def timed():
    log.append('tw:%s' % Event().wait(3 * U))
  def linker():
    ar.rawlink(lambda a: log.append('link:%s' % a.value))
    gevent.sleep(4 * U); ar.set(7); log.append('arset')
  def consumer():
    for _ in range(3):
      log.append('got:%s' % q.get())
  def producer():
    for i in range(3):
      q.put(i); gevent.sleep(0)
    log.append('produced')
  def tmo():
    try:
      with gevent.Timeout(5 * U):
        gevent.sleep(50 * U)
    except gevent.Timeout:
      log.append('timeout')
  def killer():
    g = gevent.spawn(lambda: (gevent.sleep(50 * U), log.append('never')))
    gevent.sleep(6 * U); g.kill(block=False); gevent.sleep(0); log.append('killed:%s' % g.dead)
  gs = [gevent.spawn(waiter, 1), gevent.spawn(waiter, 2), gevent.spawn(setter), gevent.spawn(timed),
        gevent.spawn(linker), gevent.spawn(consumer), gevent.spawn(producer), gevent.spawn(tmo), gevent.spawn(killer)]
  return log, gs
'''

_REAL_LOOP_PROG = _SCENARIO_SRC + '''
import gevent
log, gs = scenario(gevent, 0.05)
gevent.joinall(gs, timeout=10)
print(' '.join(log))
'''


def _order_scenario(_):
  loop = common.boot()
  import gevent
  ns = {}
  exec(_SCENARIO_SRC, ns)
  log, gs = ns['scenario'](gevent, 0.02)
  loop.run_for(5.0)
  return log


_EXPECTED = [['w1', True, 0], ['w2', True, 0], ['late', False, 500], ['timeout', 750], ['sleep', 1000]]


def _vloop_scenario(_):
  loop = common.boot()
  import gevent
  from gevent.event import Event
  from harness.simgevent.vloop import EPOCH
  log = []
  e = Event()

  def ms():
    return int(round((loop.now() - EPOCH) * 1000))

  def w(name):
    log.append([name, e.wait(), ms()])

  def late():
    e2 = Event()
    log.append(['late', e2.wait(0.5), ms()])

  def to():
    try:
      with gevent.Timeout(0.75):
        gevent.sleep(10)
    except gevent.Timeout:
      log.append(['timeout', ms()])

  def sl():
    gevent.sleep(1.0)
    log.append(['sleep', ms()])
  gevent.spawn(w, 'w1')
  gevent.spawn(w, 'w2')
  gevent.spawn(late)
  gevent.spawn(to)
  gevent.spawn(sl)
  loop.run_until_idle()
  e.set()
  loop.run_for(2.0)
  return log
