"""Engine `timer` (C10): scales.timer_queue.TimerQueue.

Specs: TimerAbs (oracle), TimerAbsTrace (batched validation), TimerQueue (code-shaped).
Direction A: TLC -simulate behaviours of TimerQueue single-stepped on the real object
(one loop quantum per RunTask/TimerFire), projection compared after every step.
Direction B: random API/clock histories with Schedule/Cancel landing between worker quanta.
"""
import random

from harness import common, tlc

NAME = 'timer'
PROPS = ['C10']
LEVEL = {'C10': 'model_checking'}
TRACE_MODULE = 'TimerAbsTrace'
TRACE_CFG = 'TimerAbsTrace.cfg'
ASSUMPTIONS = [
  'virtual-time gevent loop preserves gevent callback FIFO order and timer semantics (selftest)',
  'time source of the queue is the scheduler clock (GLOBAL_TIMER_QUEUE configuration)',
  'resolution 0.01 is exercised with raw deadlines that are not multiples of 10 ms (float ceil of an inexact decimal multiple may add one tick; not asserted either way)',
  'TLC exhaustive only within the stated constants (ids, MaxT, Res)',
]
RULE = {'C10': 'random Schedule/Cancel/clock/step histories (seeded) plus TLC-simulated behaviours; '
               'non-trivial = at least 2 timers scheduled and at least one of: cancel, schedule while the worker '
               'sleeps, overdue deadline, equal rounded deadlines; distinct by canonical event list'}

T0 = 1000  # ms after EPOCH at which traces start


def models(prop, tier):
  if tier == 'quick':
    return [
      dict(module='TimerQueue', cfg='TimerQueue_a.cfg', what='3 timers, clock 0..3 half-ticks, Res=2', coverage=False),
      dict(module='TimerQueue', cfg='TimerQueue_b.cfg', what='2 timers, clock 0..5 half-ticks, Res=2', coverage=True),
    ]
  return [
    dict(module='TimerQueue', cfg='TimerQueue_b.cfg', what='2 timers, clock 0..5, Res=2', coverage=True),
    dict(module='TimerQueue', cfg='TimerQueue_r0.cfg', what='3 timers, clock 0..3, no rounding'),
    dict(module='TimerQueue', cfg='TimerQueue_q.cfg', what='3 timers, clock 0..5 half-ticks, Res=2', timeout=3000, heap='24g'),
  ]


# ------------------------------------------------------------------ direction B
def _gen_script(rng, res):
  ops = []
  t = T0
  nid = 0
  live = []
  n = rng.randint(3, 14)
  deltas = [-30, -1, 0, 1, 3, 7, 13, 13, 21, 21, 37, 55, 120]
  if res >= 250:
    deltas = [-300, -1, 0, 1, 100, 250, 250, 251, 499, 500, 750, 1000, 1001, 1500, 2000]
  for _ in range(n):
    k = rng.random()
    if k < 0.45 or not live:
      nid += 1
      d = rng.choice(deltas)
      T = t + d
      if res == 10 and T % 10 == 0:
        T += rng.choice([1, 3, 7])
      if rng.random() < 0.12:
        T = t - rng.choice([1100, 2500, 60000])          # long overdue when it is scheduled
      if rng.random() < 0.2:
        ops.append(['S', nid, T, rng.choice(['partial', 'obj']), 0])
      else:
        ops.append(['S', nid, T])
      live.append(nid)
    elif k < 0.6:
      ops.append(['C', rng.choice(live)])
    elif k < 0.75:
      ops.append(['step', rng.randint(1, 3)])
    elif k < 0.85:
      dt = rng.choice([1, 3, 5, 10, 13, 20, 21, 50]) * (25 if res >= 250 else 1)
      t += dt
      ops.append(['clk', t])
    elif k < 0.95:
      dt = rng.choice([1, 4, 10, 17, 20, 30, 60, 200]) * (25 if res >= 250 else 1)
      t += dt
      ops.append(['adv', t])
    else:
      ops.append(['q'])
  t += 5000
  ops.append(['adv', t])
  return {'res': res, 'ops': ops}


def _gen_pattern(rng, res):
  """Hand-shaped skeletons around the worker's parked states, filled with random values:
  new head while parked then everything cancelled, far deadlines (minutes), re-scheduling after a drain."""
  unit = 250 if res >= 250 else 10
  ops = []
  t = T0
  nid = [0]

  def S(d):
    nid[0] += 1
    T = t + d
    if res == 10 and T % 10 == 0:
      T += rng.choice([1, 3, 7])
    ops.append(['S', nid[0], T])
    return nid[0]
  kind = rng.choice(['storm', 'storm', 'far', 'far', 'drain', 'coincide', 'coincide', 'jump', 'sametick'])
  if kind == 'jump':
    # the clock is found far ahead (the process was stalled, or the time source stepped): several distinct
    # deadlines are overdue at once; all of them run at that instant, nothing else needs to happen
    n = rng.randint(2, 5)
    for _ in range(n):
      S(unit * rng.randint(2, 30))
      if rng.random() < 0.4:
        ops[-1] += [rng.choice(['partial', 'obj']), 0]
    if rng.random() < 0.5:
      ops.append(['adv', t + unit])
      t += unit
    else:
      ops.append(rng.choice([['q'], ['step', 3], ['step', 1]]))      # the worker parks on the first deadline (or not yet)
    t += unit * rng.choice([31, 40, 100])
    ops.append(['jclk', t])
    ops.append(['q'])
    if rng.random() < 0.5:
      S(unit * rng.randint(1, 5))
      S(unit * rng.randint(6, 9))
      ops.append(['q'])
      t += unit * 12
      ops.append(['jclk', t])
      ops.append(['q'])
    t += unit * 50
    ops.append(['adv', t])
    t += 4000000
    ops.append(['adv', t])
    return {'res': res, 'ops': ops}
  if kind == 'sametick':
    # several actions in one tick, the earlier ones do not return at once (they sleep, or end in an exception,
    # incl. a BaseException): the later ones still start when the clock reaches the tick
    d = unit * rng.randint(3, 8)
    m = rng.randint(2, 4)
    for j in range(m):
      nid[0] += 1
      T = t + d + (rng.randint(1, unit - 1) if res else 0)
      how = rng.choice(['sleep', 'sleep', 'raise', 'raiseb', None]) if j < m - 1 else None
      ops.append(['S', nid[0], T] + ([how, unit * rng.choice([3, 50, 400])] if how else []))
      if not res:
        d += 0
    if rng.random() < 0.4:
      S(d + unit * 2)
    t += d + unit * 2
    ops.append(['adv', t])
    t += unit * 500
    ops.append(['adv', t])
    t += 4000000
    ops.append(['adv', t])
    return {'res': res, 'ops': ops}
  if kind == 'coincide':
    # The clock reaches the head's deadline and, inside the very loop iteration in which the worker's
    # timer comes due, other timer-driven code schedules / cancels first (Schedule of an earlier, by then
    # overdue deadline; cancel of the head; schedule of an equal deadline): the worker's wait then
    # reports "timed out" although the head has changed.
    for _ in range(rng.randint(0, 2)):
      S(unit * rng.randint(8, 30))
    h = S(unit * rng.randint(3, 6))
    T_h = ops[-1][2]
    ops.append(['adv', t + unit])
    t += unit
    due = T_h if not res else -(-T_h // res) * res
    t = due + rng.choice([0, 0, 1, unit // 2])
    ops.append(['clk', t])
    for _ in range(rng.randint(1, 3)):
      k = rng.random()
      if k < 0.6:
        nid[0] += 1
        ops.append(['S', nid[0], rng.choice([T_h - unit, T_h - 1, due - unit - 1, t - 1, t - 3 * unit, T_h, T_h + 1])])
      elif k < 0.8:
        ops.append(['C', h])
      else:
        ops.append(['C', rng.randint(1, nid[0])])
    ops.append(['stept'])
    if rng.random() < 0.5:
      ops.append(['step', rng.randint(1, 3)])
      nid[0] += 1
      ops.append(['S', nid[0], t + rng.choice([-1, 1, unit])])
    ops.append(['q'])
    for _ in range(2):
      t += unit * rng.randint(5, 40)
      ops.append(['adv', t])
  elif kind == 'storm':
    a = S(unit * rng.randint(6, 30))
    ops.append(rng.choice([['adv', t + unit], ['step', rng.randint(2, 5)], ['q']]))
    if ops[-1][0] == 'adv':
      t += unit
    bs = [S(unit * rng.randint(1, 4)) for _ in range(rng.randint(1, 3))]
    if rng.random() < 0.5:
      ops.append(['step', rng.randint(1, 3)])
    victims = bs + [a]
    rng.shuffle(victims)
    for v in victims[:rng.choice([len(victims), len(victims), len(victims) - 1])]:
      ops.append(['C', v])
    if rng.random() < 0.5:
      ops.append(['step', rng.randint(1, 4)])
    for _ in range(rng.randint(1, 3)):
      S(unit * rng.randint(0, 40) + 1)
      if rng.random() < 0.3:
        ops.append(['step', rng.randint(1, 3)])
    for _ in range(3):
      t += unit * rng.randint(5, 20)
      ops.append(['adv', t])
  elif kind == 'far':
    for _ in range(rng.randint(1, 3)):
      S(rng.choice([61000, 70000, 150000, 600000, 3600000]) + rng.randint(0, 900))
    if rng.random() < 0.5:
      S(unit * rng.randint(1, 10))
    for _ in range(rng.randint(2, 6)):
      t += rng.choice([1000, 30000, 59000, 60000, 61000, 100000])
      ops.append(['adv', t])
      if rng.random() < 0.3:
        S(rng.choice([unit, 65000, 130000]))
  else:
    for _ in range(rng.randint(1, 3)):
      S(unit * rng.randint(1, 5))
    t += unit * 10
    ops.append(['adv', t])
    for _ in range(rng.randint(1, 3)):
      v = S(unit * rng.randint(1, 5))
      if rng.random() < 0.4:
        ops.append(['C', v])
    t += unit * 10
    ops.append(['adv', t])
    S(unit * 3)
  t += 4000000
  ops.append(['adv', t])
  return {'res': res, 'ops': ops}


def _gen_bulk(rng, res):
  """Many timers, most of them cancelled (incl. the head the worker is sleeping on), the rest
  must still run once, on time and in order (thresholds / compaction / long queues)."""
  ops = []
  t = T0
  n = rng.choice([70, 130, 200])
  step = 250 if res >= 250 else 7
  ids = list(range(1, n + 1))
  for i in ids:
    T = t + step * rng.randint(1, 40) + (0 if res != 10 else rng.choice([1, 3]))
    if res == 10 and T % 10 == 0:
      T += 1
    ops.append(['S', i, T])
    if rng.random() < 0.1:
      ops.append(['step', rng.randint(1, 3)])
  ops.append(['q'])
  victims = rng.sample(ids, int(n * rng.choice([0.55, 0.8, 0.97])))
  rng.shuffle(victims)
  for k, i in enumerate(victims):
    ops.append(['C', i])
    if rng.random() < 0.05:
      ops.append(['step', rng.randint(1, 2)])
    if rng.random() < 0.03:
      t += step
      ops.append(['adv', t])
  nid = n
  for _ in range(rng.randint(0, 4)):
    nid += 1
    ops.append(['S', nid, t + step * rng.randint(0, 6) + 1])
  for _ in range(rng.randint(2, 6)):
    t += step * rng.randint(1, 12)
    ops.append(['adv', t])
  t += step * 50 + 5000
  ops.append(['adv', t])
  return {'res': res, 'ops': ops}


def cases(prop, tier, seed):
  rng = random.Random(1000003 * int(seed) + 10)
  n = 1500 if tier == 'quick' else 30000
  out = []
  for i in range(40 if tier == 'quick' else 600):
    out.append(_gen_bulk(rng, [10, 0, 250][i % 3]))
  for i in range(400 if tier == 'quick' else 8000):
    out.append(_gen_pattern(rng, [10, 0, 250, 1000][i % 4]))
  for i in range(150 if tier == 'quick' else 3000):
    sc = _gen_pattern(rng, 1000) if i % 2 else _gen_script(rng, 1000)
    while any(o[0] == 'jclk' for o in sc['ops']):
      # forced clock jumps are not combined with the low-resolution clock (it re-synchronises over several of its
      # own ticks after a jump; the pairing is exercised with clocks that advance through the timers)
      sc = _gen_pattern(rng, 1000)
    sc['lowres'] = 1
    sc['phase'] = rng.choice([0, 100, 370, 500, 900, 990])
    out.append(sc)
  for i in range(n):
    res = [10, 10, 0, 250, 1000][i % 5]
    out.append(_gen_script(rng, res))
  return out


def run_case(script):
  if 'behaviour' in script:
    o = _replay_one(script['behaviour'])
    return {'cfg': o['cfg'], 'ev': o['ev']}
  loop = common.boot()
  from harness.simgevent.vloop import EPOCH
  from scales.timer_queue import TimerQueue
  loop.run_until(EPOCH + T0 / 1000.0)
  loop.settle()
  res = script['res']
  slack_ms = 0
  if script.get('lowres'):
    # the LOW_RESOLUTION_TIMER_QUEUE pairing: the queue's clock is a LowResolutionTime that only ticks once
    # per second (driven by the global timer queue); events are stamped with the QUEUE's clock and timing
    # clauses hold up to one tick (+ the 10 ms resolution of the queue that drives the ticks)
    from scales.timer_queue import LowResolutionTime
    loop.run_for(script.get('phase', 0) / 1000.0)
    lr = LowResolutionTime(resolution=1)
    tq = TimerQueue(time_source=lr.Get, resolution=1)
    res = 1000
    slack_ms = 1020
    clock = lr.Get
  else:
    tq = TimerQueue(time_source=loop.now, resolution=res / 1000.0)
    clock = loop.now
  ev = []
  cancels = {}

  def now_ms():
    return int(round((clock() - EPOCH) * 1000))

  def action(i, how=None, arg=0):
    def run():
      # the action has started: that is the "run" the property speaks of; what it does next is its own business
      ev.append({'e': 'R', 'id': i, 't': now_ms()})
      if how == 'sleep':
        import gevent
        gevent.sleep(arg / 1000.0)
      elif how == 'raise':
        raise ValueError('scripted failure of action %d' % i)
      elif how == 'raiseb':
        import gevent
        raise gevent.Timeout(0.001)        # a BaseException
    if how == 'partial':
      import functools
      return functools.partial(run)          # a callable without __name__
    if how == 'obj':
      class _Callable(object):
        def __call__(self_):
          run()
      return _Callable()
    return run

  for op in script['ops']:
    k = op[0]
    if k == 'S':
      cancels[op[1]] = tq.Schedule(EPOCH + op[2] / 1000.0, action(op[1], *op[3:5]))
      ev.append({'e': 'S', 'id': op[1], 'T': op[2], 't': now_ms()})
    elif k == 'C':
      cancels[op[1]]()
      ev.append({'e': 'C', 'id': op[1], 't': now_ms()})
    elif k == 'step':
      loop.step(op[1])
    elif k == 'stept':
      loop.step_timer()      # a timer that is due fires before the queued callbacks (same loop iteration)
    elif k == 'jclk':
      # the clock is found ahead of timers that are still pending (the process was stalled): they fire late
      loop._now = max(loop._now, EPOCH + op[1] / 1000.0)
    elif k == 'clk':
      loop.advance_to(EPOCH + op[1] / 1000.0)
    elif k == 'adv':
      loop.run_until(EPOCH + op[1] / 1000.0)
      loop.settle()
      ev.append({'e': 'Q', 't': now_ms()})
    elif k == 'q':
      loop.settle()
      ev.append({'e': 'Q', 't': now_ms()})
  return {'cfg': {'res': res, 't0': T0, 'slack': slack_ms}, 'ev': ev,
          'meta': {'worker_dead': bool(tq._worker.dead) if hasattr(tq, '_worker') else None,
                   'errors': [e[1:3] for e in loop.errors][:3]}}


def nontrivial(prop, t):
  ev = t['ev']
  ns = sum(1 for e in ev if e['e'] == 'S')
  if ns < 2:
    return None
  interesting = any(e['e'] == 'C' for e in ev) or any(e['e'] == 'S' and e['T'] <= e['t'] for e in ev)
  if not interesting:
    res = t['cfg']['res'] or 1
    rds = [-(-e['T'] // res) for e in ev if e['e'] == 'S']
    interesting = len(set(rds)) < len(rds)
  return common.canon(ev) if interesting else None


def witness(prop, t, consumed, clause):
  return {'res': t['cfg']['res']}


# ------------------------------------------------------------------ direction A
UNIT = 0.125   # seconds per model time unit; Res = 2 units = 0.25 s (binary exact)


def _replay_one(beh):
  """Step the real TimerQueue through one TLC behaviour. Returns dict(trace, steps, drift)."""
  loop = common.boot()
  from harness.simgevent.vloop import EPOCH
  from scales.timer_queue import TimerQueue
  loop.settle()
  base = loop.now()
  res_units = beh[0][1]['ares']
  tq = TimerQueue(time_source=loop.now, resolution=res_units * UNIT)
  ev = []
  cancels = {}
  ran = []
  drift = None

  def units():
    return int(round((loop.now() - base) / UNIT))

  def action(i):
    def run():
      ran.append(i)
      ev.append({'e': 'R', 'id': i, 't': units()})
    return run

  steps = 0
  for (act, st) in beh[1:]:
    name, params = act
    if name == 'Schedule':
      i, T = params
      cancels[i] = tq.Schedule(base + T * UNIT, action(i))
      ev.append({'e': 'S', 'id': i, 'T': T, 't': units()})
    elif name == 'CancelT':
      cancels[params[0]]()
      ev.append({'e': 'C', 'id': params[0], 't': units()})
    elif name == 'RunTask':
      loop.step_callback()
    elif name == 'TimerFire':
      loop.step_timer()
    elif name == 'Tick':
      ev.append({'e': 'Q', 't': units()})
      loop.advance_to(loop.now() + UNIT)
    steps += 1
    # projection
    try:
      real_q = sorted((int(round((e[0] - base) / UNIT)), e[1], bool(e[2])) for e in tq._queue)
      real = {'q': real_q, 'flag': bool(tq._event.is_set()), 'ran': list(ran), 'now': units(),
              'dead': bool(tq._worker.dead)}
    except Exception as ex:  # projection attribute missing: degrade
      real = None
    if real is not None and drift is None:
      spec_q = sorted((e['dl'], e['seq'], e['canc']) for e in st['q'])
      spec = {'q': [tuple(x) for x in spec_q], 'flag': st['flag'], 'ran': list(st['ran']), 'now': st['now'],
              'dead': st['wpc'] == 'DEAD'}
      real['q'] = [tuple(x) for x in real['q']]
      if spec != real:
        drift = {'step': steps, 'action': [name, params], 'spec': spec, 'real': real}
  loop.run_until(loop.now() + 10 * UNIT)
  loop.settle()
  ev.append({'e': 'Q', 't': units()})
  return {'cfg': {'res': res_units, 't0': 0, 'slack': 0}, 'ev': ev, 'steps': steps, 'drift': drift}


def _replay_case(beh_json):
  return _replay_one(beh_json)


def replay_behaviours(prop, tier, seed):
  num = 400 if tier == 'quick' else 4000
  r, behs = tlc.simulate_behaviours('TimerQueue', 'TimerQueue_sim.cfg', num=num, depth=30,
                                    seed=int(seed) + 1, timeout=600)
  if not behs:
    raise RuntimeError('no behaviours from TLC simulate:\n' + r.stdout[-2000:])
  res = common.run_forked(_replay_case, behs)
  errs = [x['err'] for x in res if 'err' in x]
  if errs:
    raise RuntimeError('replay failed: ' + errs[0])
  traces = []
  drift = []
  steps = 0
  for b, x in zip(behs, res):
    o = x['ok']
    steps += o['steps']
    if o['drift']:
      drift.append(o['drift'])
    traces.append({'cfg': o['cfg'], 'ev': o['ev'], 'script': {'behaviour': [[a, s] for a, s in b]}})
  return {'summary': {'behaviours_replayed': len(behs), 'steps_compared': steps, 'drift': len(drift)},
          'traces': traces, 'drift': drift}
