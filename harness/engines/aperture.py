"""Engine `aperture` (C06): scales.loadbalancer.aperture.ApertureBalancerSink.

Specs
  ApertureAbs       property-level oracle: clauses C06.partition / floor / ceiling / grow / shrink / smoothed /
                    settles over observables (server set, mock channels, requests, virtual time, the published
                    gauges scales.loadbalancer.Aperture.{active,idle,load_average}).  The smoothed load is not taken
                    on trust: the oracle recomputes the 5 s exponential average of the outstanding count from the
                    recorded get/put events and their microsecond times (integer enclosure of exp, directed
                    rounding) and C06.smoothed compares the code's average with it on every sample.
  ApertureAbsTrace  batched validation of real-code traces against ApertureAbs (every verdict comes from here).
  Aperture          code-shaped model (heap abstracted to "a least-loaded open active member"; idle / pending /
                    total / abstract EMA / jitter / open-completion callbacks as in the code), ApertureAbs in
                    lock-step; safety invariants and, for steady traffic under weak fairness, eventually-always (InBand or Pinned).
  ApertureTrace     binding of Aperture.tla to the code: the projection of the real object after every driver
                    operation must be a successor of the model operation (existential over the abstracted heap
                    order); a mismatch is DRIFT, never a violation.  (Run by replay_behaviours: the heap order is
                    abstract in the model, so TLC behaviours cannot be forced onto the real heap; the code is made
                    to follow the model instead.)
Direction B: traffic-level histories over long virtual time on the real balancer with mock channel sinks and a mock
server set; every get/put is an adjust sample observed at the publication point VarzReceiver.VARZ_DATA.
Time granularity is a scenario dimension: op `dense` spaces consecutive balancer events by 50 us .. 1 ms, exactly
1 ms, and mixed fine/coarse patterns; op `approach` steers the published load next to a band edge in coarse steps so
that the dense phase crosses it.
random in scales.loadbalancer.{base,heap,aperture} is scripted (seeded, logged); time is the virtual loop clock.
"""
import os
import random

from harness import common, tlc

NAME = 'aperture'
PROPS = ['C06']
LEVEL = {'C06': 'model_checking'}
TRACE_MODULE = 'ApertureAbsTrace'
TRACE_CFG = 'ApertureAbsTrace.cfg'
TRACE_CHUNK = 60
CASE_TIMEOUT = 300
ASSUMPTIONS = [
  'virtual-time gevent loop preserves gevent callback FIFO order and timer semantics (selftest)',
  'mock channel sinks below the balancer: state, Open() completion and request completion are driver-controlled; '
  'every Open() result is eventually completed by the driver',
  'the EMA is abstracted in Aperture.tla (update yields a value between previous value and sample); the assumption is '
  'checked on every recorded sample of the real scales.varz.Ema by clause C06.smoothed, not by TLC',
  'the active set identity / healthy count at a sample is read from the heap (internal projection); if unreadable the '
  'shrink and low-side settles clauses are skipped (hB = -1)',
  'get/put instants lie on the microsecond grid of the virtual clock (the driver advances to absolute targets); the '
  'reference smoothing is an enclosure computed by TLC in 32-bit integers (width < 0.01 request), compared with the '
  'code\'s average rounded to 1/1000 request with a slack of 1/1000 (rounding of the record + float arithmetic)',
  'at most 30 requests outstanding (drivers refuse further dispatches; ApertureAbs.MaxTot)',
  'settles is evaluated with a tolerance of 0.02 on the band edges (residual of the EMA after 10 windows) and only for '
  'max_load > 2*min_load',
  'TLC exhaustive only within the stated constants (members, sizes, outstanding requests, scaled averages)',
]
RULE = {'C06': 'seeded traffic-level histories (steady phases of k outstanding requests with churn for >= 12 EMA windows, '
               'level changes, member failures, joins/leaves, jitter rounds, delayed/failed opens, fine-grained steps; every 6th script a rolling restart: leaves of the '
               'active member and of its still-connecting replacement with opens held pending, then demand; every 6th a jitter '
               'round overlapping membership changes; after every 12th script one at fine time granularity: phases of '
               '1500-3000 balancer events spaced 50/200/400/900 us, exactly 1 ms, mixed fine/coarse or random patterns, '
               'completion+dispatch pairs or single events, levels 0..30, busy from the first request / opened by slower '
               'traffic then short calls back to back / light turning heavy, the published load steered next to a band edge '
               'first so that it crosses it inside the dense phase) over '
               'configurations min_size 1..3, max_size 1..5, members 1..6, bands (0.5,2) (1,4) (1,3); non-trivial = the '
               'active size changed at least once at an adjust sample or a steady phase of >= 10 windows was evaluated; '
               'distinct by (configuration, sequence of size changes with their causes)'}

SC = 1000
WIN = 5000
MAX_OUT = 30      # the drivers keep at most this many requests outstanding (ApertureAbs.MaxTot = 31)
BANDS = [(0.5, 2.0), (1.0, 4.0), (1.0, 3.0)]


# ------------------------------------------------------------------ script generation
def _gen_jitter_overlap(rng, idx):
  """A jitter round (expand, wait for the open, forced contract) overlapping membership changes and
  channel failures: the forced contraction must still respect the floor."""
  min_size = rng.choice([1, 2, 2, 3])
  members = min_size + rng.choice([1, 1, 2])
  jitter = rng.choice([7, 9])
  ops = [['opendone', 0, 1] for _ in range(min_size)]
  ops.append(['auto', 0])
  live = list(range(1, members + 1))
  ops.append(['adv', rng.choice([jitter * 1000, jitter * 2000, jitter * 2000 + 1000])])   # the jitter timer fires, an open is pending
  for _ in range(rng.randint(1, 3)):
    q = rng.random()
    if q < 0.6 and live:
      m = rng.choice(live)
      live.remove(m)
      ops.append(['leave', m])
    elif q < 0.8:
      ops.append(['chan', rng.randint(1, members), 4])
    else:
      ops.append(['disp'])
  ops.append(['opendone', 0, rng.choice([1, 1, 0])])     # the jitter's open completes: forced contraction
  ops.append(['opendone', 0, 1])
  ops.append(['adv', 1000])
  ops.append(['auto', 1])
  ops.append(['steady', 1, 8, 1000, 0])
  ops.append(['adv', rng.choice([1000, jitter * 2000])])
  return {'min_size': min_size, 'max_size': rng.choice([min_size, min_size + 1, 5]), 'band': list(BANDS[0]), 'members': members,
          'jitter': jitter, 'rseed': rng.randint(0, 1 << 30), 'ops': ops}


def _gen_rolling(rng, idx):
  """Rolling restart: active members leave, and the replacement that is still connecting (open in flight,
  auto-open off) leaves / fails / goes down as well, with and without further idle members; then demand."""
  min_size = rng.choice([1, 1, 1, 2])
  members = min_size + rng.choice([1, 2, 2, 3, 4])
  members = min(members, 6)
  ops = [['opendone', 0, 1] for _ in range(min_size)]
  if rng.random() < 0.5:
    ops += [['disp']] * rng.randint(1, 3)
  ops.append(['auto', 0])
  for _ in range(rng.randint(2, 5)):
    q = rng.random()
    if q < 0.35:
      ops.append(['leave_active', rng.randint(0, 3)])
    elif q < 0.65:
      ops.append(['leave_pending', rng.randint(0, 3)])
    elif q < 0.75:
      ops.append(['opendone', rng.randint(0, 3), 0])
    elif q < 0.85:
      ops.append(['opendone', rng.randint(0, 3), 1])
      ops.append(['chan_active', rng.randint(0, 3), 4])
    elif q < 0.93:
      ops.append(['disp'])
    else:
      ops.append(['adv', rng.choice([250, 1000])])
  if rng.random() < 0.5:
    ops += [['disp'], ['comp', 0], ['disp']]
  ops.append(['steady', rng.choice([1, 2, 3]), rng.choice([6, 20, 65]), 1000, rng.randint(0, 1)])
  ops.append(['drain'])
  return {'min_size': min_size, 'max_size': rng.choice([min_size, min_size + 1, 5]), 'band': list(BANDS[idx % 3]),
          'members': members, 'jitter': 0, 'rseed': rng.randint(0, 1 << 30), 'ops': ops}


def _gen_script(rng, idx):
  if idx % 6 == 5:
    return _gen_jitter_overlap(rng, idx)
  if idx % 6 == 2:
    return _gen_rolling(rng, idx)
  band = BANDS[idx % 3] if rng.random() < 0.8 else BANDS[0]
  min_size = rng.choice([1, 1, 2, 2, 3])
  max_size = rng.choice([1, 2, 3, 3, 4, 5, 5])
  members = rng.choice([0, 1, 2, 2, 3, 3, 4, 4, 5, 5, 6, 6])
  kind = rng.random()
  jitter = 0
  if kind < 0.3:
    jitter = rng.choice([7, 15, 30])
  ops = []
  live = list(range(1, members + 1))
  gone = [m for m in range(1, 7) if m not in live]
  # initial opens
  nin = min(min_size, members)
  for _ in range(nin):
    r = rng.random()
    if r < 0.8:
      ops.append(['opendone', 0, 1])
    elif r < 0.9:
      ops.append(['opendone', 0, 0])
  auto = rng.random() < 0.7
  ops.append(['auto', 1 if auto else 0])
  nphase = rng.randint(2, 5)
  for _ in range(nphase):
    p = rng.random()
    if p < 0.55:
      k = rng.choice([1, 1, 2, 2, 3, 3, 4, 5, 6, 8, 10, 12])
      tick = rng.choice([1000, 1000, 2000, 2500, 5000])
      ticks = (12 * WIN) // tick + rng.randint(0, 6)
      if rng.random() < 0.1:
        ticks *= 4
      ops.append(['steady', k, ticks, tick, rng.randint(0, 2)])
      if rng.random() < 0.35:
        # coarse ticks: the float EMA reaches its fixpoint exactly (band-edge equality is exercised)
        ops.append(['steady', rng.choice([k, max(1, k - 1), 2, 3, 5]), rng.randint(12, 20),
                    rng.choice([20000, 25000, 40000]), rng.randint(0, 1)])
    elif p < 0.85:
      for _ in range(rng.randint(3, 14)):
        q = rng.random()
        if q < 0.3:
          ops.append(['disp'])
        elif q < 0.5:
          ops.append(['comp', rng.randint(0, 5)])
        elif q < 0.62:
          ops.append(['adv', rng.choice([1, 250, 1000, 1000, 3000, 7000, 20000])])
        elif q < 0.70 and gone:
          m = rng.choice(gone)
          gone.remove(m)
          live.append(m)
          ops.append(['join', m])
        elif q < 0.78 and live:
          m = rng.choice(live)
          live.remove(m)
          gone.append(m)
          ops.append(['leave', m])
        elif q < 0.88:
          ops.append(['chan', rng.randint(1, 6), rng.choice([4, 4, 2, 2, 3, 1])])
        elif q < 0.94:
          ops.append(['opendone', rng.randint(0, 3), rng.choice([1, 1, 0])])
        elif q < 0.96:
          ops.append(['nq', rng.randint(0, 3)])
        elif q < 0.98:
          ops.append(['failnext', rng.randint(1, 2)])
        else:
          ops.append(['auto', rng.choice([0, 1])])
    else:
      # drain everything, long idle gap
      ops.append(['drain'])
      ops.append(['adv', rng.choice([10000, 60000])])
  ops.append(['auto', 1])
  ops.append(['adv', 1000])
  return {'min_size': min_size, 'max_size': max_size, 'band': list(band), 'members': members,
          'jitter': jitter, 'rseed': rng.randint(0, 1 << 30), 'ops': ops}


# time granularity: microseconds between consecutive balancer events
GAPS_FINE = [[50], [200], [400], [900]]
GAPS_MIXED = [[1000], [400, 400, 400, 1000], [50, 900, 2000], [200, 5000], [900, 1100], [50, 50, 50, 50, 100000],
              [400, 1000, 250], [999, 1001], [400, 20000]]
GAP_POOL = [50, 100, 200, 400, 900, 999, 1000, 1001, 1500, 3000]
DENSE_EVENTS = 3000      # balancer events per dense phase


def _gen_dense(rng, idx):
  """Traffic at sub-millisecond to millisecond granularity (op `dense`): a client busy from its first request, a
  client whose aperture was opened by slower traffic and that then issues short calls back to back, light traffic
  turning heavy, and sequences of phases with different levels and spacings; constant, mixed fine/coarse and random
  spacings; levels high enough for the smoothed load to cross a band edge within the phase."""
  band = BANDS[idx % 3] if rng.random() < 0.5 else BANDS[0]
  min_size = rng.choice([1, 1, 1, 2])
  max_size = rng.choice([2, 3, 4, 5, 5, 6])
  members = rng.choice([3, 4, 5, 6, 6])
  q = rng.random()
  if q < 0.45:
    gaps = rng.choice(GAPS_FINE)
  elif q < 0.8:
    gaps = rng.choice(GAPS_MIXED)
  else:
    gaps = [rng.choice(GAP_POOL) for _ in range(rng.randint(1, 4))]

  def dense(lvl, gp=None, scale=1.0):
    mode = rng.choice([0, 0, 1, 2, 2])
    n = int(DENSE_EVENTS * scale) // (1 if mode == 2 else 2)
    return ['dense', lvl, n, list(gp or gaps), mode]

  def heavy():
    # the finer the spacing, the higher the level (the phase is short in time)
    g = sum(gaps) / float(len(gaps))
    return rng.choice([20, 25, 30]) if g < 150 else rng.choice([9, 12, 20, 30]) if g < 600 else rng.choice([6, 9, 12, 20])

  def margin():
    # distance (permille of the edge) from which a dense phase of DENSE_EVENTS events reaches the edge
    g = sum(gaps) / float(len(gaps))
    return 15 if g < 150 else 40 if g < 600 else 80

  ops = [['opendone', 0, 1] for _ in range(min_size)]
  ops.append(['auto', 1])
  kind = idx % 4
  long_ = 3.0 if rng.random() < 0.1 else 1.0
  if kind == 0:
    ops.append(dense(heavy(), scale=long_))
    ops.append(dense(rng.choice([0, 1, 1, 2])))
  elif kind == 1:
    # opened by slower traffic, brought close to min_load in coarse steps, then short calls back to back
    ops.append(['steady', rng.choice([6, 8, 10, 12]), rng.randint(20, 60), 1000, rng.randint(0, 2)])
    lvl = rng.choice([0, 1, 1])
    if rng.random() < 0.8:
      ops.append(['approach', lvl, 100, 'lo', margin(), 400, 0])
    else:
      ops.append(['drain'])
      ops.append(['adv', rng.choice([1000, 2000, 3000, 5000, 8000])])
    ops.append(dense(lvl, scale=long_))
    if rng.random() < 0.5:
      ops.append(dense(heavy()))
  elif kind == 2:
    # light traffic turning heavy, brought close to max_load in coarse steps, then dense
    ops.append(['steady', rng.choice([1, 1, 2]), rng.randint(5, 20), 1000, rng.randint(0, 2)])
    lvl = heavy()
    if rng.random() < 0.7:
      ops.append(['approach', lvl, 20, 'hi', margin(), 400, 1])
    ops.append(dense(lvl, scale=long_))
    ops.append(['steady', rng.choice([1, 2, 3]), rng.randint(5, 30), 1000, rng.randint(0, 2)])
  else:
    for _ in range(rng.randint(2, 4)):
      r = rng.random()
      if r < 0.7:
        gp = rng.choice(GAPS_FINE + GAPS_MIXED) if rng.random() < 0.5 else None
        ops.append(dense(rng.choice([0, 1, 2, 3, 5, 9, 15, 30]), gp, 0.5))
      elif r < 0.85:
        ops.append(['steady', rng.choice([1, 3, 6, 10]), rng.randint(5, 30), rng.choice([1000, 2000]), rng.randint(0, 2)])
      elif r < 0.93:
        ops.append(['adv', rng.choice([1, 250, 1000, 7000])])
      else:
        ops.append(['chan', rng.randint(1, members), rng.choice([4, 2, 3])])
  ops.append(['drain'])
  ops.append(['adv', 1000])
  return {'min_size': min_size, 'max_size': max_size, 'band': list(band), 'members': members,
          'jitter': 0, 'rseed': rng.randint(0, 1 << 30), 'ops': ops}


DENSE_EVERY = 12


def cases(prop, tier, seed):
  global TRACE_CHUNK
  # traces per TLC validation run (the runner validates up to 8 chunks in parallel JVMs)
  TRACE_CHUNK = 60 if tier == 'quick' else 240
  rng = random.Random(7919 * int(seed) + 6)
  n = 300 if tier == 'quick' else 2500
  base = [_gen_script(rng, i) for i in range(n)]
  # the fine-granularity scripts come from their own stream and are spread over the list (even load per TLC chunk)
  rng2 = random.Random(15485863 * int(seed) + 606)
  out = []
  nd = 0
  for i, sc in enumerate(base):
    out.append(sc)
    if i % DENSE_EVERY == DENSE_EVERY - 1:
      out.append(_gen_dense(rng2, nd))
      nd += 1
  return out


# ------------------------------------------------------------------ driver
def run_case(script):
  loop = common.boot()
  import collections
  import fractions
  import math
  from scales import varz
  from scales.loadbalancer import aperture as apmod, heap as heapmod, base as basemod
  from scales.loadbalancer.aperture import ApertureBalancerSink
  from scales.loadbalancer.serverset import ServerSetProvider
  from scales.sink import ClientMessageSink, ClientMessageSinkStack, SinkProviderBase
  from scales.constants import ChannelState, SinkProperties
  from scales.asynchronous import AsyncResult
  from scales.message import MethodCallMessage, MethodReturnMessage

  loop.settle()
  Ep = collections.namedtuple('Ep', 'host port')

  class Server(object):
    def __init__(self, m):
      self.service_endpoint = Ep('h', m)
      self.additional_endpoints = {}

  servers = {m: Server(m) for m in range(1, 7)}
  ev = []
  gauges = {'active': 0, 'idle': 0}
  sample = [None]
  st = {'t0': loop.now(), 'sink': None, 'proj': 1, 'load': None}
  rlog = []

  def now_us():
    return int(round((loop.now() - st['t0']) * 1000000))

  def now_ms():
    return now_us() // 1000

  def goto_us(us):
    """run the loop up to `us` microseconds after the start of the trace (absolute target: instants stay on the
    microsecond grid, no accumulation of float error)"""
    loop.run_until(st['t0'] + us / 1000000.0)
    loop.run_until_idle()

  def emit(name, **kw):
    d = {'e': name, 't': now_ms(), 'a': int(gauges['active']), 'i': int(gauges['idle'])}
    d.update(kw)
    ev.append(d)
    return d

  # ---- gauges: observe the publication point VarzReceiver.VARZ_DATA
  PFX = 'scales.loadbalancer.Aperture.'

  class Series(dict):
    def __init__(self, metric):
      dict.__init__(self)
      self.metric = metric

    def __missing__(self, k):
      return 0

    def __setitem__(self, k, v):
      dict.__setitem__(self, k, v)
      if self.metric.startswith(PFX):
        g = self.metric[len(PFX):]
        if g == 'load_average':
          on_sample(v)
        else:
          gauges[g] = v

  class Data(dict):
    def __missing__(self, metric):
      s = Series(metric)
      dict.__setitem__(self, metric, s)
      return s

  varz.VarzReceiver.VARZ_DATA = Data()

  def on_sample(load):
    sink = st['sink']
    st['load'] = load
    fr = fractions.Fraction(load) * SC
    lo = math.floor(fr)
    hi = math.ceil(fr)
    sB = int(gauges['active'])
    hB = -1
    avg = None
    try:
      hB = sum(1 for n in sink._heap[1:] if n.channel.state <= ChannelState.Busy)
    except Exception:
      st['proj'] = 0
    try:
      avg = int(round(sink._ema.value * SC))
    except Exception:
      avg = None
    if avg is None:
      avg = int(round(load * sB * SC))
    slot = {'e': 'pending-sample'}
    ev.append(slot)
    sample[0] = {'s': 1, 'lo': int(lo), 'hi': int(hi), 'sB': sB, 'iB': int(gauges['idle']), 'hB': hB, 'avg': avg,
                 '_slot': slot}

  # ---- mock channel sinks
  chans = []

  class Chan(ClientMessageSink):
    def __init__(self, props):
      super(Chan, self).__init__()
      self._state = ChannelState.Idle
      self.m = props[SinkProperties.Endpoint].port
      self.cid = len(chans)
      self.open_ar = None
      self.closed_seen = False
      chans.append(self)
      emit('Create', c=self.cid, m=self.m)

    @property
    def state(self):
      return self._state

    def Open(self):
      if self.open_ar is None:
        self.open_ar = AsyncResult()
        emit('OpenCall', c=self.cid)
      return self.open_ar

    def Close(self):
      self._state = ChannelState.Closed
      self.closed_seen = True
      emit('CloseSeen', c=self.cid)

    def AsyncProcessRequest(self, sink_stack, msg, stream, headers):
      sink_stack.target = self.cid

    def AsyncProcessResponse(self, sink_stack, context, stream, msg):
      pass

  class Provider(SinkProviderBase):
    def CreateSink(self, properties):
      return Chan(properties)

    @property
    def sink_class(self):
      return Chan

  class ServerSet(ServerSetProvider):
    def __init__(self, initial):
      self.initial = initial
      self.on_join = self.on_leave = None

    def Initialize(self, on_join, on_leave):
      self.on_join, self.on_leave = on_join, on_leave

    def Close(self):
      pass

    def GetServers(self):
      return [servers[m] for m in self.initial]

  class Stack(ClientMessageSinkStack):
    target = -1
    done = False

    def AsyncProcessResponse(self, stream, msg):
      if not self.Any():
        self.done = True
        return
      super(Stack, self).AsyncProcessResponse(stream, msg)

  # ---- scripted randomness
  rng = random.Random(script['rseed'])

  class Rnd(object):
    def choice(self, seq):
      seq = sorted(seq, key=lambda e: e.port)
      v = seq[rng.randrange(len(seq))]
      rlog.append(['choice', v.port])
      return v

    def randint(self, a, b):
      v = rng.randint(a, b)
      rlog.append(['randint', a, b, v])
      return v

    def shuffle(self, seq):
      seq.sort(key=lambda s: s.service_endpoint.port)
      rng.shuffle(seq)

    def random(self):
      return rng.random()

  rnd = Rnd()
  apmod.random = rnd
  heapmod.random = rnd
  basemod.random = rnd

  # ---- build the balancer
  props = ApertureBalancerSink.Builder._defaults.copy()
  ss = ServerSet(list(range(1, script['members'] + 1)))
  props.update(server_set_provider=ss, min_size=script['min_size'], max_size=script['max_size'],
               min_load=script['band'][0], max_load=script['band'][1],
               jitter_min_sec=script['jitter'], jitter_max_sec=script['jitter'] * 2)
  sink = ApertureBalancerSink(Provider(), ApertureBalancerSink.Builder.PARAMS_CLASS(**props),
                              {SinkProperties.Label: 'svc'})
  st['sink'] = sink
  open_ar = sink.Open()
  loop.run_until_idle()
  # the trace starts here: initial members, the channels created so far and their pending opens
  pre = [e for e in ev if e['e'] in ('Create', 'OpenCall')]
  del ev[:]
  st['t0'] = loop.now()
  S = set(range(1, script['members'] + 1))
  cfg = {'minS': script['min_size'], 'maxS': script['max_size'],
         'minL': int(round(script['band'][0] * SC)), 'maxL': int(round(script['band'][1] * SC)),
         'sc': SC, 'win': WIN, 'tol': 20, 'btol': 2, 'ref': 1, 'rtol': 1,
         'S0': sorted(S), 'a0': int(gauges['active']), 'i0': int(gauges['idle']), 't0': 0}
  for e in pre:
    e2 = dict(e)
    e2.update(t=0, a=cfg['a0'], i=cfg['i0'])
    ev.append(e2)

  impl = bool(script.get('impl'))
  iev = []

  def proj():
    """projection of the real object for the code-shaped model (internal; None if unreadable)"""
    try:
      heap = sink._heap[1:]
      lds = [n.load if n.load >= 0 else n.load - sink.Idle for n in heap]
      fr = fractions.Fraction(sink._ema.value) * SC
      po = [c for c in chans if c.open_ar is not None and not c.open_ar.ready()]
      return {'S': sorted(e.port for e in sink._servers), 'act': [n.endpoint.port for n in heap],
              'idle': sorted(e.port for e in sink._idle_endpoints),
              'pend': sorted(e.port for e in sink._pending_endpoints),
              'ch': [int(n.channel.state) for n in heap], 'dn': [1 if n.load >= 0 else 0 for n in heap],
              'ld': [int(x) for x in lds], 'total': int(sink._total), 'drain': int(sink._total - sum(lds)),
              'avgLo': int(math.floor(fr)), 'avgHi': int(math.ceil(fr)), 'einit': 0 if sink._ema._time == -1 else 1,
              'opEp': [c.m for c in po], 'opLive': [1 if any(n.channel is c for n in heap) else 0 for c in po]}
    except Exception:
      return None

  def live_of(c):
    try:
      return 1 if any(n.channel is c for n in sink._heap[1:]) else 0
    except Exception:
      return 0

  def istep(op, **kw):
    if impl:
      loop.run_until_idle()
      d = {'op': op, 'P': proj()}
      d.update(kw)
      iev.append(d)

  P0 = proj() if impl else None
  reqs = []          # outstanding [rid, stack]
  nreq = [0]
  auto = [0]
  steady_evals = [0]

  def quiet():
    loop.run_until_idle()
    act, idl, proj = [], [], st['proj']
    try:
      act = [n.endpoint.port for n in sink._heap[1:]]
      idl = sorted(e.port for e in sink._idle_endpoints)
    except Exception:
      act, idl, proj = [], [], 0
    emit('Q', proj=proj, act=act, idl=idl)

  raised = []

  def guarded(fn, *a):
    """call into the balancer; an exception escaping it is recorded (diagnostic), the history goes on"""
    try:
      fn(*a)
    except Exception as ex:  # noqa
      raised.append([len(ev), type(ex).__name__])

  def pending_opens():
    return [c for c in chans if c.open_ar is not None and not c.open_ar.ready()]

  def open_done(c, ok):
    lv = live_of(c) if impl else 0
    if not c.closed_seen:
      c._state = ChannelState.Open if ok else ChannelState.Closed
    emit('OpenDone', c=c.cid, ok=1 if ok else 0)
    if ok:
      c.open_ar.set(True)
    else:
      c.open_ar.set_exception(Exception('open failed'))
    istep('OpenDone', m=c.m, live=lv, ok=1 if ok else 0)

  def do_auto():
    n = 0
    while auto[0] and n < 20:
      po = pending_opens()
      if not po:
        break
      for c in po:
        # a channel the balancer already closed fails its open
        ok = not c.closed_seen
        if ok and failq[0] > 0:
          failq[0] -= 1
          ok = False
        open_done(c, ok)
      loop.run_until_idle()
      n += 1

  def finish(name, d):
    """The Disp/Comp event sits at the instant of its adjust sample (the load_average publication): channel
    events caused by the resize that follows come after it and carry the gauges of the returned call."""
    sm = sample[0]
    sample[0] = None
    d['u'] = now_us() % 1000
    if sm:
      slot = sm.pop('_slot')
      d.update(sm)
      k = ev.index(slot)
      slot.update({'e': name, 't': now_ms(), 'a': int(gauges['active']), 'i': int(gauges['idle'])})
      slot.update(d)
      for e2 in ev[k + 1:]:
        e2['a'], e2['i'] = slot['a'], slot['i']
    else:
      d['s'] = 0
      emit(name, **d)

  def disp():
    if not open_ar.ready() or len(reqs) >= MAX_OUT:
      return
    nreq[0] += 1
    rid = nreq[0]
    stack = Stack()
    msg = MethodCallMessage(None, 'm', (), {})
    sample[0] = None
    guarded(sink.AsyncProcessRequest, stack, msg, None, {})
    if stack.target >= 0:
      reqs.append([rid, stack])
    finish('Disp', {'r': rid, 'c': stack.target})
    istep('Disp')

  def comp(idx):
    if not reqs:
      return
    rid, stack = reqs.pop(idx % len(reqs))
    tc = chans[stack.target]
    tlive = live_of(tc) if impl else 0
    sample[0] = None
    guarded(stack.AsyncProcessResponseMessage, MethodReturnMessage(return_value=rid))
    finish('Comp', {'r': rid})
    istep('Put', m=tc.m, live=tlive)

  def adv(ms):
    goto_us(now_us() + ms * 1000)
    emit('Tick')
    istep('Tick')

  nq = [None]
  failq = [0]

  def after():
    """after an op: quiesce (unless fine-grained stepping asked for n quanta only)"""
    if nq[0] is not None:
      if nq[0] > 0:
        loop.step(nq[0])
      nq[0] = None
      emit('Tick')
      return
    do_auto()
    quiet()

  quiet()
  for op in script['ops']:
    k = op[0]
    if k == 'disp':
      disp()
    elif k == 'comp':
      comp(op[1])
    elif k == 'adv':
      adv(op[1])
    elif k == 'join':
      if op[1] in S:
        continue
      S.add(op[1])
      guarded(ss.on_join, servers[op[1]])
      emit('Join', m=op[1])
      istep('Join', m=op[1])
    elif k == 'leave':
      if op[1] not in S:
        continue
      S.discard(op[1])
      guarded(ss.on_leave, servers[op[1]])
      emit('Leave', m=op[1])
      istep('Leave', m=op[1])
    elif k in ('leave_active', 'leave_pending', 'chan_active'):
      # members chosen by role: active = has a live (created, not closed by the balancer) channel and is a member;
      # pending = its channel's Open() is still in flight
      if k == 'leave_pending':
        ms = sorted(set(c.m for c in pending_opens() if c.m in S and not c.closed_seen))
      else:
        ms = sorted(set(c.m for c in chans if c.m in S and not c.closed_seen))
        if k == 'leave_active':
          # prefer members whose open already completed (the established ones)
          est = [m for m in ms if any(c.m == m and not c.closed_seen and c.open_ar is not None and c.open_ar.ready()
                                      for c in chans)]
          ms = est or ms
      if not ms:
        continue
      m = ms[op[1] % len(ms)]
      if k == 'chan_active':
        c = [c for c in chans if c.m == m and not c.closed_seen][-1]
        if c.open_ar is not None and not c.open_ar.ready():
          continue
        lv = live_of(c) if impl else 0
        c._state = op[2]
        emit('Chan', c=c.cid, st=op[2])
        istep('Flip', m=c.m, st=op[2], live=lv)
      else:
        S.discard(m)
        guarded(ss.on_leave, servers[m])
        emit('Leave', m=m)
        istep('Leave', m=m)
    elif k == 'chan':
      cs = [c for c in chans if c.m == op[1]]
      if not cs:
        continue
      c = cs[-1]
      if c.open_ar is not None and not c.open_ar.ready():
        continue
      lv = live_of(c) if impl else 0
      c._state = op[2]
      emit('Chan', c=c.cid, st=op[2])
      istep('Flip', m=c.m, st=op[2], live=lv)
    elif k == 'opendone':
      po = pending_opens()
      if not po:
        continue
      open_done(po[op[1] % len(po)], op[2])
    elif k == 'auto':
      auto[0] = op[1]
      continue
    elif k == 'nq':
      nq[0] = op[1]
      continue
    elif k == 'failnext':
      failq[0] = op[1]
      continue
    elif k == 'drain':
      while reqs:
        comp(0)
    elif k == 'steady':
      _, lvl, ticks, tick, order = op
      save = auto[0]
      auto[0] = 1
      do_auto()
      quiet()
      if not open_ar.ready():
        auto[0] = save
        continue
      while len(reqs) > lvl:
        comp(0)
      while len(reqs) < lvl:
        n0 = len(reqs)
        disp()
        if len(reqs) == n0:
          break
      do_auto()
      quiet()
      for _ in range(ticks):
        adv(tick)
        if order == 0 or (order == 2 and _ % 2 == 0):
          comp(0)
          disp()
        else:
          disp()
          comp(0)
        do_auto()
        quiet()
      steady_evals[0] += 1
      auto[0] = save
      continue
    elif k == 'approach':
      # input steering on an observable: churn at level `lvl` in coarse ticks until the *published* load_average is
      # within `pm`/1000 of a band edge ('lo': from above towards min_load, 'hi': from below towards max_load), at
      # most `maxticks` ticks; the phase that follows (usually a dense one) then crosses the edge.
      _, lvl, tick, edge, pm, maxticks, order = op
      save = auto[0]
      auto[0] = 1
      do_auto()
      quiet()
      if not open_ar.ready():
        auto[0] = save
        continue
      while len(reqs) > lvl:
        comp(0)
      while len(reqs) < lvl:
        n0 = len(reqs)
        disp()
        if len(reqs) == n0:
          break
      do_auto()
      quiet()
      for _ in range(maxticks):
        ld = st['load']
        if ld is not None:
          if edge == 'lo' and script['band'][0] < ld <= script['band'][0] * (1 + pm / 1000.0):
            break
          if edge == 'hi' and script['band'][1] > ld >= script['band'][1] * (1 - pm / 1000.0):
            break
        adv(tick)
        if order == 0:
          comp(0)
          disp()
        else:
          disp()
          comp(0)
        do_auto()
        quiet()
      auto[0] = save
      continue
    elif k == 'dense':
      # traffic at microsecond granularity: `n` steps, step j advancing the clock by gaps[j % len(gaps)] us and then
      # mode 0: one completion then one dispatch at that instant; mode 1: dispatch then completion;
      # mode 2: a single event (completion while `lvl` are outstanding, else dispatch), so that consecutive
      # balancer events are exactly one gap apart.  Opens complete at once; a quiescent point after every open
      # and every 50 steps.
      _, lvl, n, gaps, mode = op
      save = auto[0]
      auto[0] = 1
      do_auto()
      quiet()
      if not open_ar.ready():
        auto[0] = save
        continue
      while len(reqs) > lvl:
        comp(0)
      while len(reqs) < lvl:
        n0 = len(reqs)
        disp()
        if len(reqs) == n0:
          break
      do_auto()
      quiet()
      cur = now_us()
      for j in range(n):
        cur += gaps[j % len(gaps)]
        goto_us(cur)
        if mode == 0:
          comp(0)
          disp()
        elif mode == 1:
          disp()
          comp(0)
        elif reqs and len(reqs) >= max(lvl, 1):
          comp(0)
        else:
          disp()
        if pending_opens():
          do_auto()
          quiet()
        elif j % 50 == 49:
          quiet()
      quiet()
      steady_evals[0] += 1
      auto[0] = save
      continue
    after()
  out_impl = {}
  if impl:
    out_impl = {'P0': P0, 'iev': iev}
  return {'cfg': cfg, 'ev': ev, 'impl': out_impl,
          'meta': {'errors': [list(e[1:3]) for e in loop.errors][:3], 'random': rlog[:50], 'proj': st['proj'],
                   'steady': steady_evals[0], 'raised': raised[:5]}}


def trace_for_tlc(t):
  return {'cfg': t['cfg'], 'ev': t['ev']}


def _changes(t):
  out = []
  for e in t['ev']:
    if e['e'] in ('Disp', 'Comp') and e.get('s') == 1 and e['a'] != e['sB']:
      out.append((e['e'], e['sB'], e['a']))
  return out


def nontrivial(prop, t):
  ch = _changes(t)
  if not ch and not t.get('meta', {}).get('steady'):
    return None
  c = t['cfg']
  return common.canon([c['minS'], c['maxS'], c['minL'], c['maxL'], len(c['S0']), ch[:40]])


def witness(prop, t, consumed, clause):
  c = t['cfg']
  e = t['ev'][consumed] if consumed < len(t['ev']) else {}
  return {'event': e.get('e'), 'band': [c['minL'], c['maxL']], 'min_size': c['minS'], 'max_size': c['maxS']}


def extra_coverage(prop, tier, traces):
  """How often the premises of the clauses were exercised by the recorded histories (diagnostic counts)."""
  c = {'samples': 0, 'grow_premise': 0, 'shrink_premise': 0, 'ceiling_premise': 0, 'band_edge_equal': 0,
       'size_changes_outside_samples': 0, 'contractions': 0, 'steady_phases': 0, 'raised_in_balancer': 0,
       'projection_unreadable': 0,
       # samples taken less than 1 ms (but not 0) after the previous get/put, and what happened at them
       'submilli_samples': 0, 'submilli_grow_premise': 0, 'submilli_shrink_premise': 0, 'submilli_resizes': 0,
       'exact_milli_samples': 0}
  for t in traces:
    cfg = t['cfg']
    m = t.get('meta', {})
    c['steady_phases'] += m.get('steady', 0)
    c['raised_in_balancer'] += len(m.get('raised', []))
    c['projection_unreadable'] += 0 if m.get('proj', 1) else 1
    pa = cfg['a0']
    pus = None
    for e in t['ev']:
      gap = None
      if e['e'] in ('Disp', 'Comp') and 'u' in e and e.get('c', 0) >= 0:
        us = e['t'] * 1000 + e['u']
        gap = None if pus is None else us - pus
        pus = us
      if e['e'] in ('Disp', 'Comp') and e.get('s') == 1:
        c['samples'] += 1
        if gap is not None and 0 < gap < 1000:
          c['submilli_samples'] += 1
          c['submilli_resizes'] += 1 if e['a'] != e['sB'] else 0
          if e['lo'] >= cfg['maxL'] and e['iB'] > 0 and e['sB'] < cfg['maxS']:
            c['submilli_grow_premise'] += 1
          if e['hi'] <= cfg['minL'] and e['hB'] > cfg['minS']:
            c['submilli_shrink_premise'] += 1
        elif gap == 1000:
          c['exact_milli_samples'] += 1
        if e['lo'] >= cfg['maxL'] and e['iB'] > 0 and e['sB'] < cfg['maxS']:
          c['grow_premise'] += 1
        if e['hi'] <= cfg['minL'] and e['hB'] > cfg['minS']:
          c['shrink_premise'] += 1
        if e['sB'] >= cfg['maxS']:
          c['ceiling_premise'] += 1
        if e['lo'] == e['hi'] and e['lo'] in (cfg['maxL'], cfg['minL']):
          c['band_edge_equal'] += 1
        if e['a'] < e['sB']:
          c['contractions'] += 1
      elif e['a'] != pa:
        c['size_changes_outside_samples'] += 1
        if e['a'] < pa and e['e'] != 'Leave':
          c['contractions'] += 1
      pa = e['a']
  return {'clause_premises': c}


# ------------------------------------------------------------------ conformance of the code with Aperture.tla
def _gen_impl_script(rng, idx):
  band = BANDS[idx % 3]
  min_size = rng.choice([1, 1, 2, 3])
  max_size = rng.choice([1, 2, 3, 4, 5])
  members = rng.choice([0, 1, 2, 3, 3, 4, 4, 5, 6])
  jitter = rng.choice([0, 0, 7, 9])
  live = list(range(1, members + 1))
  gone = [m for m in range(1, 7) if m not in live]
  ops = []
  for _ in range(min(min_size, members)):
    if rng.random() < 0.85:
      ops.append(['opendone', 0, 1 if rng.random() < 0.8 else 0])
  for _ in range(rng.randint(15, 60)):
    q = rng.random()
    if q < 0.3:
      ops.append(['disp'])
    elif q < 0.48:
      ops.append(['comp', rng.randint(0, 5)])
    elif q < 0.62:
      ops.append(['adv', rng.choice([1, 500, 1000, 2000, 4000, 5000])])
    elif q < 0.68 and gone:
      m = rng.choice(gone)
      gone.remove(m)
      live.append(m)
      ops.append(['join', m])
    elif q < 0.74 and live:
      m = rng.choice(live)
      live.remove(m)
      gone.append(m)
      ops.append(['leave', m])
    elif q < 0.84:
      ops.append(['chan', rng.randint(1, 6), rng.choice([4, 4, 2, 2, 3])])
    else:
      ops.append(['opendone', rng.randint(0, 3), rng.choice([1, 1, 1, 0])])
  return {'min_size': min_size, 'max_size': max_size, 'band': list(band), 'members': members,
          'jitter': jitter, 'rseed': rng.randint(0, 1 << 30), 'ops': [['auto', 0]] + ops, 'impl': 1}


def replay_behaviours(prop, tier, seed):
  """Binding of the code-shaped model to the code: seeded operation histories run on the real balancer, the
  projection of the real object after every operation (run to quiescence) must be a successor of the model
  operation in Aperture.tla (ApertureTrace: existential over the abstracted heap order).  Mismatch = DRIFT.
  The same runs are also returned as property-level traces."""
  rng = random.Random(104729 * int(seed) + 66)
  n = 120 if tier == 'quick' else 800
  scripts = [_gen_impl_script(rng, i) for i in range(n)]
  res = common.run_forked(run_case, scripts, timeout_s=CASE_TIMEOUT)
  errs = [x['err'] for x in res if 'err' in x]
  if errs:
    raise RuntimeError('conformance driver failed: ' + errs[0])
  traces = []
  impl = []
  idx = []
  for s, x in zip(scripts, res):
    o = x['ok']
    t = {'cfg': o['cfg'], 'ev': o['ev'], 'meta': o['meta'], 'script': s}
    traces.append(t)
    im = o.get('impl') or {}
    if im.get('P0') is not None and all(e['P'] is not None for e in im['iev']):
      impl.append({'cfg': o['cfg'], 'P0': im['P0'], 'ev': im['iev']})
      idx.append(len(traces) - 1)
  summary = {'kind': 'code -> model conformance (implementation traces validated against Aperture.tla by TLC)',
             'impl_traces': len(impl), 'projection_unreadable': len(traces) - len(impl), 'steps_compared': 0,
             'drift': 0}
  drift = []
  if impl:
    best = {}
    for off in range(0, len(impl), 200):
      part = impl[off:off + 200]
      r, _v = tlc.validate_traces('ApertureTrace', 'ApertureTrace.cfg', part, timeout=1500)
      for v in r.printed:
        if isinstance(v, list) and len(v) >= 4 and v[0] == 'V':
          k = off + v[1] - 1
          cur = best.get(k)
          cand = (v[2], v[3])
          # several model branches may match a prefix: the trace conforms if any branch consumes it all
          if cur is None or (cand[1] == 'ok' and cur[1] != 'ok') or (cand[1] == cur[1] and cand[0] > cur[0]) \
             or (cur[1] != 'ok' and cand[1] != 'ok' and cand[0] > cur[0]):
            best[k] = cand
    for k, (consumed, verdict) in sorted(best.items()):
      summary['steps_compared'] += consumed
      if verdict != 'ok':
        summary['drift'] += 1
        e = impl[k]['ev'][consumed] if consumed < len(impl[k]['ev']) else None
        drift.append({'trace': idx[k], 'step': consumed, 'verdict': verdict,
                      'event': {a: b for a, b in (e or {}).items() if a != 'P'}, 'P': (e or {}).get('P'),
                      'prevP': impl[k]['ev'][consumed - 1]['P'] if consumed > 0 else impl[k]['P0'],
                      'cfg': impl[k]['cfg']})
  return {'summary': summary, 'traces': traces, 'drift': drift}


def models(prop, tier):
  q = [
    dict(module='Aperture', cfg='Aperture_q_jit.cfg', coverage=True, may_be_unused=['Join', 'Leave', 'ChanFlip', 'DispatchEmpty'], workers=8,
         what='3 members static, min 1 max 2, band (0.5,2), <=2 outstanding, jitter rounds, every open/callback interleaving'),
    dict(module='Aperture', cfg='Aperture_q_dyn.cfg', coverage=True, may_be_unused=['JitterFire'], workers=8,
         what='3 endpoints, 2 initial, joins/leaves/channel flips/failing opens (2 env events), 1 outstanding'),
    dict(module='Aperture', cfg='Aperture_q_roll.cfg', workers=8,
         what='3 members all initial, min 1 max 2, 2 env events (leave of the active member, leave / failure / close of '
              'the still-connecting replacement): never empty while idle members remain; request at an empty aperture'),
    dict(module='Aperture', cfg='Aperture_q_steady1.cfg', workers=4,
         what='steady traffic K=3 (put-then-get churn), band (0.5,2): <>[](InBand \\/ Pinned) under WF, every initial size/average/closed subset'),
  ]
  if tier == 'quick':
    return q
  t = q + [
    dict(module='Aperture', cfg='Aperture_q_steady2.cfg', workers=4, what='steady K=3 get-then-put, band (0.5,1.5), max 3'),
    dict(module='Aperture', cfg='Aperture_t_load4.cfg', workers=8, timeout=3000,
         what='4 members static, min 1 max 3, 3 outstanding, jitter'),
    dict(module='Aperture', cfg='Aperture_t_dynjit.cfg', workers=8, timeout=3000,
         what='3 endpoints dynamic (2 env events) + jitter, 1 outstanding'),
    dict(module='Aperture', cfg='Aperture_t_dyn4.cfg', workers=8, timeout=3000,
         what='4 endpoints, min 2 max 3, band (0.5,1.5), dynamic with Busy/Closed flips, 2 outstanding'),
    dict(module='Aperture', cfg='Aperture_t_min2.cfg', workers=8, timeout=3000,
         what='4 members, min 2 = max 2, band (0.5,1.5), jitter + one env event, 2 outstanding'),
    dict(module='Aperture', cfg='Aperture_t_steady3.cfg', workers=4, timeout=3000, what='steady K=5, 4 members, min 2 max 3, band (0.5,1.5)'),
    dict(module='Aperture', cfg='Aperture_t_steady4.cfg', workers=4, timeout=3000, what='steady K=5 get-first, 4 members, min 1 max 4'),
  ]
  if os.environ.get('VERIF_EXTRA'):
    # larger instances, checked once while building the engine (about 9 and 5 minutes)
    t += [dict(module='Aperture', cfg='Aperture_x_dynjit2.cfg', workers=8, timeout=6000, what='as t_dynjit with 2 outstanding'),
          dict(module='Aperture', cfg='Aperture_x_steady5.cfg', workers=4, timeout=6000, what='steady K=4, 5 members, min 2 max 5')]
  return t
