"""Engine `zk` (C19): scales.loadbalancer.zookeeper.ServerSet behind ZooKeeperServerSetProvider.

Specs: ZkAbs (oracle), ZkAbsTrace (batched validation), ZkServerSet (code-shaped: ServerSet +
kazoo DataWatch/ChildrenWatch recipes + kazoo's serial callback worker + a ZooKeeper session).
The real ServerSet, the real kazoo recipes and the real SequentialGeventHandler run over
harness.simgevent.fakezk.FakeZK in manual mode: every ZooKeeper call of the code parks its
greenlet on a pending request; the harness mutates the tree (PCreate/PDelete/ZCreate/ZDelete)
and answers the oldest request (Serve), running the virtual gevent loop to exhaustion after
every step.  The consumer is a pair of logging callbacks, some of which raise.

Direction A: (1) the complete state graph of a small configuration (`tlc -dump dot,actionlabels`)
is covered transition by transition: a set of behaviours that together take every edge is
replayed on the real objects; (2) TLC -simulate behaviours of a larger configuration.  After every
step the projection of the real objects (_nodes, _members keys in dict order, _watching,
notification-queue length, pending ZooKeeper requests in order, callback-queue length, armed
watches, the callbacks made by the step) is compared with the spec state: a mismatch is drift,
never a violation.  The model variant replayed is the one the tree implements (behavioural probe).
Direction B: TLC counterexamples of the weaker model variants (unchanged code, partial repairs)
executed as histories; a systematic family around deletion/re-creation of the path; seeded random
histories of three kinds (free mix, path churn with a lagging client, bursts of members); a family of
re-registrations (an instance's node is deleted and a node with EQUAL member data is created under another
name, inside one listing window or in separate ones); a family in which the whole path goes away while the
notification worker is between the reads of a fresh listing (the session answers in issue order, so worker and watcher
advance alternately: it takes a listing of 4-5 members for the path to be reported gone after the first read was answered
and before the last one is); a family with BLOCKING consumer callbacks (on_join / on_leave sleeping 1 s .. 60 s of virtual
time or waiting for the script, for the first / middle / last member of a listing, with tree changes meanwhile and afterwards:
a quiescent point requires that no callback is still running, ops T = time passes, REL = the callback is released); a
family in which an EMPTY path (child watch armed) is deleted and re-created faster than the client re-reads it; a
family of member TYPES (public argument member_factory: namedtuples, tuple subclasses, objects with hostile __str__) under
raising callbacks in listings of 2-3 changes; a few BIG listings (100-130 members at once, one more change k Serve steps
into the reads) recorded with compact events (ZCreateN / ZDeleteN / Joins / Leaves, which ZkAbs expands exactly).  The
code-shaped model has the blocking consumer too (policy bj / bl, action Return; weaker design ZKFIX_TO: a callback
time-out that kills the worker, action Expire).  Serve events carry which request was answered and how (q, r): ZkAbs
ignores that, `witness` uses it to tell the listed finding (stale children watch) from other failures.  Events carry the node name `m` and the data id `d`;
`d` of a Join/Leave is read from the Member value the callback received, and ZkAbs judges by value.
All traces (A and B) are judged by ZkAbs through ZkAbsTrace.
"""
import collections
import os
import random
import re
import shutil
import tempfile

from harness import common, tlc

NAME = 'zk'
PROPS = ['C19']
LEVEL = {'C19': 'model_checking'}
TRACE_MODULE = 'ZkAbsTrace'
TRACE_CFG = 'ZkAbsTrace.cfg'
TRACE_CHUNK = 1500
ASSUMPTIONS = [
  'FakeZK implements the documented ZooKeeper semantics the kazoo recipes rely on: one-shot watches '
  '(get/exists arm a data watch, get_children a child watch; DELETED goes to data watchers then child watchers), '
  'requests of one session answered in issue order, a request linearised when it is answered (replies and watch events '
  'reach the client in the order the server produced them, so a reply still on the wire while the tree changes is, for '
  'the client, the same as the tree changing after the reply was read: no separate in-flight replies)',
  'a watch event is queued on the (real) kazoo callback worker when it fires: delaying it on the wire is equivalent, '
  'for a client that only acts when it reads from its connection, to the tree operation happening later',
  'the session never disconnects or expires (no SUSPENDED/LOST transitions)',
  'a consumer callback may block (for up to a virtual minute, or until the history releases it) and always returns '
  'eventually; while it is blocked time passes only when the history says so; a quiescent point is one with no request '
  'pending and no callback running',
  'member data is well-formed serverset JSON; a member is identified the way a consumer can identify it, by the Member '
  'value it is handed (equal data = equal member, like LoadBalancerSink keys servers by endpoint); histories never have two '
  'nodes with equal data alive at the same time (the statement does not say whether present means nodes or values then), '
  'a node name always carries the same data; successive registrations of one instance under different node names are covered',
  'members produced by a custom member_factory have a `name` (ServerSet keys its cache by it), are truthy, and may be of '
  'any type (tuples, objects whose __str__ / __repr__ raise); big member sets (> 100) carry data equal to their node index',
  'virtual-time gevent loop preserves gevent callback FIFO order (selftest)',
  'TLC exhaustive only within the stated constants (member names, history length, re-creations of the path)',
]
RULE = {'C19': 'tree histories (create/delete of members, delete/re-create of the path) interleaved with single Serve '
               'steps: TLC counterexamples of weaker designs, every transition of the bounded state graph, TLC-simulated '
               'behaviours, a systematic family (k members cached, members deleted, path deleted and re-created with every '
               'subset, settled or not, under every single-callback raising policy) and seeded random histories (free mix, '
               'path churn with a lagging client, member bursts) and a re-registration family (node deleted, node with equal data created under another name, 0/1/2 Serve steps or a quiescent point apart) and a family of deletions of the whole path in the middle of a listing being read '
               '(0/1 members announced before, 1-4 (thorough 5) new members created at once, the client stopped after every number of '
               'Serve steps, all members deleted in ascending/descending order with 0-1 (thorough 2) Serve steps after the p-th '
               'deletion, the path deleted, served to quiescence, without / with a later re-creation; no callback, every on_leave or '
               'every on_join raising, thorough also every single one) and a family of blocking callbacks (on_join / on_leave of the first / '
               'middle / last member of a listing of 1-3 blocks for 1 s, 4.9 s, 5.1 s, 60 s (thorough 10 s) or until released; nothing, a '
               'member created, created and deleted, a member or everything and the path deleted meanwhile; a further change '
               'afterwards; thorough also with raising callbacks) and a family of member types (member_factory returning namedtuples, tuple subclasses, objects whose __str__/__repr__ '
               'raise or contain %: listings of 2-3 joins / leaves / both, path deleted and re-created with members, each single and '
               'every callback raising; random histories use them too) and big listings (100-130 members created at once, '
               'compact events, one member created / deleted k Serve steps into the reads, fresh or re-created path: 3 in quick) '
               'and a family of empty-path re-creations (no member ever / one '
               'announced, deleted and settled; 0, 1, 2 Serve steps or a quiescent point before the deletion, 0-2 between deletion '
               'and re-creation, 0, 1, 2 or a quiescent point after it; then 1-2 members created, one deleted); node names may share data values; non-trivial = at least one member created and at least '
               'one of: path deleted, a member read answered NoNode, a callback raised, a tree operation while requests '
               'are pending; distinct by canonical event list'}

BASE = '/svc'
PATH = '/svc/set'
OTHER = 'other_node'     # a child that the member filter must ignore
UNKNOWN = 99


ALL_FIXES = ['DW', 'PD', 'VM']


def models(prop, tier):
  """TLC checks the code-shaped model of the *repaired* design (fixes/C19-*.diff applied)
  against the clauses of ZkAbs.  The unchanged code and the partial repairs are variants of
  the same module that do NOT satisfy C19: TLC's counterexamples for them are generated in
  `_counterexample_scripts` and executed on the real code (that, not the model, is what
  produces verdicts).  Direction A replays the variant the tree under test implements."""
  full = dict(('ZKFIX_' + f, '1') for f in ALL_FIXES)
  out = [dict(module='ZkServerSet', cfg='ZkServerSet_q.cfg', env=full, coverage=True,
              may_be_unused=['Return', 'Expire'],      # no blocking policy here (ZkServerSet_blk.cfg has one)
              what='repaired design DW+PD+VM: 2 names, history <= 7, path created <= 3x, raising policy <= 1'),
         dict(module='ZkServerSet', cfg='ZkServerSet_n1.cfg', env=full,
              what='repaired design: 1 name, history <= 10, path created <= 4x (deep churn of the path)'),
         dict(module='ZkServerSet', cfg='ZkServerSet_d.cfg', env=full,
              what='repaired design: 3 node names carrying 2 data values (an instance registering again under a '
                   'new node name), history <= 7, path created <= 2x'),
         dict(module='ZkServerSet', cfg='ZkServerSet_blk.cfg', env=full, coverage=True,
              may_be_unused=['Expire'],                # only the weaker design ZKFIX_TO has it
              what='repaired design with BLOCKING consumer callbacks (the worker parked inside on_join / on_leave while '
                   'the tree changes, action Return): 2 names, history <= 6, path created <= 2x, raising policy <= 1, '
                   'blocking policy <= 1'),
         ]
  if tier != 'quick':
    # 4 names: in quick TLC explores ZkServerSet_b4.cfg only up to its counterexample for the weaker design ZKFIX_LZ
    # (see _WEAKER); the repaired design is checked there in thorough (b4t = b4 plus raising policies)
    out.append(dict(module='ZkServerSet', cfg='ZkServerSet_t2.cfg', env=full, timeout=6000, heap='24g',
                    what='repaired design: 2 names, history <= 13, path created <= 5x, raising policy <= 2'))
    out.append(dict(module='ZkServerSet', cfg='ZkServerSet_t3.cfg', env=full, timeout=6000, heap='24g',
                    what='repaired design: 3 names, history <= 10, path created <= 3x, raising policy <= 1'))
    out.append(dict(module='ZkServerSet', cfg='ZkServerSet_b4t.cfg', env=full, timeout=6000, heap='16g',
                    what='repaired design: 4 names, history <= 10, path created once, raising policy <= 1 (listings '
                         'of up to 4 members: the path can be reported gone while the worker has read some members of a '
                         'listing and not yet the rest)'))
  return out


# ------------------------------------------------------------------ the driver
def _pick_names(n):
  """n member names whose string hashes land in distinct, ascending slots of an 8-slot set
  table, so that Python sets of them iterate in index order under any hash seed (the
  code-shaped model iterates sets in ascending order)."""
  if n > 8:      # big sets (direction B only: nothing depends on their iteration order)
    return ['member_%04d' % i for i in range(n)]
  by_slot = {}
  i = 0
  if n > 4:
    # a set of 5..8 names lives in a 16- or 32-slot table (a set of <= 4 of them in an 8-slot one): names whose
    # hashes land in slots 0..7 of the 32-slot table iterate in index order in all three
    while len(by_slot) < 8 and i < 1000000:
      nm = 'member_%04d' % i
      if hash(nm) & 31 < 8:
        by_slot.setdefault(hash(nm) & 31, nm)
      i += 1
    return [by_slot[s] for s in sorted(by_slot)[:n]]
  while len(by_slot) < 8 and i < 100000:
    nm = 'member_%04d' % i
    by_slot.setdefault(hash(nm) & 7, nm)
    i += 1
  slots = sorted(by_slot)[:n]
  return [by_slot[s] for s in slots]


MEMBER_KINDS = ['nt', 'pair', 'badstr', 'pct']


def _member_factory(kind):
  """`member_factory` is a public argument of ZooKeeperServerSetProvider / ServerSet: a member is whatever it returns,
  as long as it has `name` (ServerSet keys its cache by it) and what the consumer reads (here service_endpoint).
    nt      a collections.namedtuple (name, service_endpoint, additional_endpoints)
    pair    a tuple subclass of two items with the attributes as properties
    badstr  an object whose __str__ / __repr__ raise
    pct     an object whose __str__ / __repr__ contain % conversions"""
  if not kind:
    return None
  import collections
  from scales.loadbalancer.zookeeper import Member
  if kind == 'nt':
    Nt = collections.namedtuple('NtMember', 'name service_endpoint additional_endpoints')
    make = lambda m: Nt(m.name, m.service_endpoint, m.additional_endpoints)
  elif kind == 'pair':
    class PairMember(tuple):
      __slots__ = ()
      name = property(lambda self: self[0].name)
      service_endpoint = property(lambda self: self[0].service_endpoint)
      additional_endpoints = property(lambda self: self[0].additional_endpoints)
    make = lambda m: PairMember((m, 'tag'))
  elif kind in ('badstr', 'pct'):
    class Wrapped(object):
      def __init__(self, m):
        self.name, self.service_endpoint, self.additional_endpoints = m.name, m.service_endpoint, m.additional_endpoints

      def __str__(self):
        if kind == 'badstr':
          raise RuntimeError('this member has no string form')
        return '100%% %s %d of (%s'

      __repr__ = __str__
    make = Wrapped
  else:
    raise ValueError(kind)
  return lambda node, data: make(Member.from_node(node, data))


class Driver(object):
  """Runs the real provider/ServerSet over FakeZK and records the C19 events."""

  def __init__(self, loop, n_names, rj, rl, endpoint_name=None, nvalues=None, bj=None, bl=None, mk=None,
               bulk=False):
    import gevent
    from harness.simgevent.fakezk import FakeZK, member_blob
    from scales.loadbalancer.serverset import ZooKeeperServerSetProvider
    self.loop = loop
    self.names = _pick_names(n_names)
    self.idx = dict((nm, i + 1) for i, nm in enumerate(self.names))
    # member data of node m: value ((m-1) % nvalues) + 1; nvalues < n_names: nodes m and m+nvalues carry
    # EQUAL data (one instance registering again under a new node name)
    self.nvalues = nvalues or n_names
    self.rj = set(rj)
    self.rl = set(rl)
    # blocking policy: on_join / on_leave for member value d blocks for ms milliseconds of virtual time
    # (gevent.sleep), ms < 0: until the script releases it (op REL) or asks for quiescence (op Q)
    self.bj = dict((int(d), int(ms)) for d, ms in (bj or []))
    self.bl = dict((int(d), int(ms)) for d, ms in (bl or []))
    self.blocked = 0          # consumer callbacks running (blocked) right now
    self.blocks = 0           # how many callbacks blocked so far
    self.cut_short = 0        # blocked callbacks that did not return normally (something was thrown into them)
    self.gates = []
    self.ev = []
    self.blob = member_blob
    self.endpoint_name = endpoint_name
    self.zk = FakeZK(manual=True)
    self.zk.srv_ensure_path(BASE)
    self.nonode_reads = 0
    self.mid_ops = 0
    self.mk = mk
    self.bulk = bool(bulk)    # compact events (runs of joins / leaves / member reads) for big member sets
    self.prov = ZooKeeperServerSetProvider(self.zk, PATH, member_prefix='member_',
                                           endpoint_name=endpoint_name, member_factory=_member_factory(mk))
    self.ss = None
    cls = getattr(self.prov, 'ServerSet', None)
    if cls is not None:
      # keep a handle on the ServerSet while its constructor is still running (projection only)
      def factory(*a, **kw):
        self.ss = cls.__new__(cls)
        self.ss.__init__(*a, **kw)
        return self.ss
      self.prov.ServerSet = factory
    self.t_start = loop.now()
    self.init_greenlet = gevent.spawn(self.prov.Initialize, self.on_join, self.on_leave)
    self.settle()

  class ConsumerError(Exception):
    pass

  def value_of(self, m):
    return ((m - 1) % self.nvalues) + 1

  def _m(self, member):
    return self.idx.get(getattr(member, 'name', None), UNKNOWN)

  @staticmethod
  def _d(member):
    """The identity a consumer can see: the Member VALUE (here: its service endpoint, which the
    driver makes a function of the data id; Member.__eq__ ignores the node name)."""
    try:
      return int(member.service_endpoint.port) - 8000
    except Exception:
      return UNKNOWN

  def _block(self, table, d):
    ms = table.get(d)
    if ms is None:
      return
    import gevent
    from gevent.event import Event
    self.blocked += 1
    self.blocks += 1
    ok = False
    try:
      if ms < 0:
        g = Event()
        self.gates.append(g)
        g.wait()
      else:
        gevent.sleep(ms / 1000.0)
      ok = True
    finally:
      self.blocked -= 1
      if not ok:
        self.cut_short += 1

  def release(self):
    gs, self.gates = self.gates, []
    for g in gs:
      g.set()
    return bool(gs)

  def _run(self, kind, d, quiet):
    """bulk mode: a callback that neither blocks nor raises joins the run of equal callbacks before it."""
    if not (self.bulk and quiet):
      return False
    if self.ev and self.ev[-1]['e'] == kind:
      self.ev[-1]['ds'].append(d)
    else:
      self.ev.append({'e': kind, 'm': 0, 'd': 0, 'ds': [d]})
    return True

  def on_join(self, member):
    d = self._d(member)
    if self._run('Joins', d, d not in self.rj and d not in self.bj):
      return
    self.ev.append({'e': 'Join', 'm': self._m(member), 'd': d})
    self._block(self.bj, d)
    if d in self.rj:
      self.ev.append({'e': 'Raised', 'm': 0, 'd': 0})
      raise Driver.ConsumerError('join %s' % d)

  def on_leave(self, member):
    d = self._d(member)
    if self._run('Leaves', d, d not in self.rl and d not in self.bl):
      return
    self.ev.append({'e': 'Leave', 'm': self._m(member), 'd': d})
    self._block(self.bl, d)
    if d in self.rl:
      self.ev.append({'e': 'Raised', 'm': 0, 'd': 0})
      raise Driver.ConsumerError('leave %s' % d)

  # -- tree
  def present(self):
    """Member data ids of the member nodes now under the path (read back from the tree)."""
    import json
    out = set()
    for c in (self.zk.srv_children(PATH) or []):
      if c in self.idx:
        out.add(int(json.loads(self.zk.nodes[PATH + '/' + c].data)['serviceEndpoint']['port']) - 8000)
    return sorted(out)

  def quiescent(self):
    """Nothing in flight: no request pending and no consumer callback still running (a consumer whose
    callback has not returned yet cannot have applied what comes after it)."""
    return self.zk.pending() == 0 and self.blocked == 0

  def mark_q(self):
    if self.quiescent():
      self.ev.append({'e': 'Q', 'm': 0, 'd': 0, 'present': self.present()})

  def op(self, o):
    """One step.  Returns False if the step is not possible in the current tree."""
    zk = self.zk
    k = o[0]
    busy = not self.quiescent()
    if k == 'PC':
      if zk.srv_exists(PATH):
        return False
      zk.srv_create(PATH, b'')
      self.ev.append({'e': 'PCreate', 'm': 0, 'd': 0})
    elif k == 'PD':
      if not zk.srv_exists(PATH) or zk.srv_children(PATH):
        return False
      zk.srv_delete(PATH)
      self.ev.append({'e': 'PDelete', 'm': 0, 'd': 0})
    elif k == 'ZC':
      nm = self.names[o[1] - 1]
      if not zk.srv_exists(PATH) or zk.srv_exists(PATH + '/' + nm):
        return False
      d = self.value_of(o[1])
      if d in self.present():
        return False       # never two nodes with equal data alive at once (see ZkAbs)
      port = 8000 + d
      eps = {'http': ('h%d' % d, port + 100)}
      if self.endpoint_name:
        eps[self.endpoint_name] = ('h%d' % d, port + 200)
      zk.srv_create(PATH + '/' + nm, self.blob('h%d' % d, port, eps, shard=d))
      self.ev.append({'e': 'ZCreate', 'm': o[1], 'd': d})
    elif k == 'ZCN':     # nodes o[1]..o[2] created one after the other (node m carries data m), nothing served between
      if (not zk.srv_exists(PATH) or self.nvalues != len(self.names) or o[1] > o[2]
          or any(zk.srv_exists(PATH + '/' + self.names[m - 1]) for m in range(o[1], o[2] + 1))):
        return False
      for m in range(o[1], o[2] + 1):
        zk.srv_create(PATH + '/' + self.names[m - 1], self.blob('h%d' % m, 8000 + m, {'http': ('h%d' % m, 8100 + m)}, shard=m))
        self.loop.run_until_idle()
      self.ev.append({'e': 'ZCreateN', 'm': o[1], 'd': o[2]})
    elif k == 'ZDN':
      if o[1] > o[2] or not all(zk.srv_exists(PATH + '/' + self.names[m - 1]) for m in range(o[1], o[2] + 1)):
        return False
      for m in range(o[1], o[2] + 1):
        zk.srv_delete(PATH + '/' + self.names[m - 1])
        self.loop.run_until_idle()
      self.ev.append({'e': 'ZDeleteN', 'm': o[1], 'd': o[2]})
    elif k == 'ZD':
      nm = self.names[o[1] - 1]
      if not zk.srv_exists(PATH + '/' + nm):
        return False
      zk.srv_delete(PATH + '/' + nm)
      self.ev.append({'e': 'ZDelete', 'm': o[1], 'd': self.value_of(o[1])})
    elif k == 'PS':      # the data of the watched path itself is changed (no membership change: the DataWatch fires)
      if not zk.srv_exists(PATH):
        return False
      self.nsets = getattr(self, 'nsets', 0) + 1
      zk.srv_set(PATH, b'v%d' % self.nsets)
      self.ev.append({'e': 'Other', 'm': 0, 'd': 0})
    elif k == 'OC':      # a non-member child appears / disappears
      if not zk.srv_exists(PATH) or zk.srv_exists(PATH + '/' + OTHER):
        return False
      zk.srv_create(PATH + '/' + OTHER, b'not a member')
      self.ev.append({'e': 'Other', 'm': 0, 'd': 0})
    elif k == 'OD':
      if not zk.srv_exists(PATH + '/' + OTHER):
        return False
      zk.srv_delete(PATH + '/' + OTHER)
      self.ev.append({'e': 'Other', 'm': 0, 'd': 0})
    elif k == 'GM':      # a user greenlet lists the members (GetServers -> ServerSet.__iter__, _cb_blocker)
      if getattr(self.prov, '_server_set', None) is None:
        return False
      import gevent
      gevent.spawn(self.prov.GetServers)
      self.ev.append({'e': 'Other', 'm': 0, 'd': 0})
    elif k == 'S':
      if not zk.pending():
        return False
      busy = False
      watched = zk.head()[2]
      op, path, outcome = zk.serve()
      if outcome == 'nonode' and op == 'get' and path != PATH:
        self.nonode_reads += 1
      # q / r: which request was answered and how (informational for ZkAbs; used by `witness`):
      # ex / get / gc = watched exists, get, get_children of the path (the DataWatch's reads, a ChildrenWatch's listing);
      # mex / ls = unwatched exists (_monitor) / listing (__iter__); rd = member read
      q = ('rd' if path != PATH else ('ex' if watched else 'mex') if op == 'exists' else 'get' if op == 'get'
           else 'gc' if watched else 'ls')
      # r: ok / no = the node was there / was not (NoNodeError, or None from exists) when the request was answered
      there = outcome == 'ok' and (op != 'exists' or zk.srv_exists(path))
      r = 'ok' if there else 'no'
      last = self.ev[-1] if self.ev else None
      if self.bulk and q == 'rd' and last and last['e'] == 'Serve' and last.get('q') == 'rd' and last.get('r') == r:
        last['k'] += 1           # bulk mode: a run of member reads answered alike is one event
      else:
        self.ev.append({'e': 'Serve', 'm': 0, 'd': 0, 'q': q, 'r': r, 'k': 1} if self.bulk else
                       {'e': 'Serve', 'm': 0, 'd': 0, 'q': q, 'r': r})
    elif k == 'T':       # o[1] milliseconds of virtual time pass (timers fire in order)
      self.loop.run_for(o[1] / 1000.0)
    elif k == 'REL':     # the blocked consumer callbacks waiting for the script return
      if not self.release():
        return False
    elif k == 'Q':
      # to quiescence: answer every request, let every blocked callback return (released, or its time passes)
      n = 0
      while zk.pending() or self.blocked:
        if zk.pending():
          self.op(['S'])
        elif self.release():
          self.settle()
          self.mark_q()
        elif self.loop.next_timer_at() is not None:
          self.loop.run_until(self.loop.next_timer_at())
          self.settle()
          self.mark_q()
        else:
          raise RuntimeError('a consumer callback is blocked for ever')
        n += 1
        if n > 10000:
          raise RuntimeError('no quiescence')
      return True
    else:
      raise ValueError(o)
    if busy:
      self.mid_ops += 1
    self.settle()
    self.mark_q()
    return True

  def settle(self):
    """Run the client's loop cascade to exhaustion.  The component has no timers today; if a
    refactoring adds short ones (debouncing, retry back-off) they are allowed to fire before
    a quiescent point is declared (bounded: 200 expiries / one virtual hour).  While a consumer callback is
    blocked time passes only when the script says so (ops T, Q)."""
    loop = self.loop
    loop.run_until_idle()
    n = 0
    while (self.zk.pending() == 0 and self.blocked == 0 and loop.next_timer_at() is not None and n < 200
           and loop.next_timer_at() <= self.t_start + 3600.0):
      loop.run_until(loop.next_timer_at())
      n += 1

  # -- projection of the real objects (optional: None if an attribute is missing)
  def projection(self):
    try:
      ss = self.ss if self.ss is not None else self.prov._server_set
      nodes = sorted(self.idx.get(x, UNKNOWN) for x in ss._nodes)
      members = [self.idx.get(x, UNKNOWN) for x in ss._members.keys()]
      watching = bool(ss._watching)
      qlen = ss._notification_queue.qsize()
    except Exception:
      return None
    reqs = []
    for r in self.zk.reqs:
      tgt = 0 if r.path == PATH else self.idx.get(r.path.rsplit('/', 1)[1], UNKNOWN)
      reqs.append([r.op, tgt, r.watch is not None])
    dw, cw = self.zk.armed(PATH)
    return {'nodes': nodes, 'members': members, 'watching': watching, 'qlen': qlen, 'reqs': reqs,
            'cbq': self.zk.callbacks_queued(), 'dataW': dw, 'childW': cw, 'blocked': self.blocked > 0}


def _meta(d, loop):
  return {'errors': [e[1:3] for e in loop.errors][:4], 'nonode_reads': d.nonode_reads, 'mid_ops': d.mid_ops,
          'blocks': d.blocks, 'cut_short': d.cut_short}


def _preload():
  """Import the heavy third-party modules in the parent so forked children share them.
  Nothing here creates the gevent hub or imports scales (children do that after boot())."""
  import gevent, gevent.queue, gevent.event, gevent.lock  # noqa
  import kazoo.client, kazoo.recipe.watchers, kazoo.handlers.gevent  # noqa


def run_case(script):
  if 'behaviour' in script:
    o = _replay_one(script['behaviour'])
    return {'cfg': o['cfg'], 'ev': o['ev'], 'meta': o.get('meta')}
  loop = common.boot()
  d = Driver(loop, script['n'], script.get('rj', []), script.get('rl', []), script.get('endpoint'),
             script.get('nv'), script.get('bj'), script.get('bl'), script.get('mk'), script.get('bulk'))
  d.mark_q()
  for o in script['ops']:
    d.op(o)
  d.op(['Q'])
  return {'cfg': {'n': script['n'], 'nv': d.nvalues, 'rj': sorted(d.rj), 'rl': sorted(d.rl),
                  'bj': sorted(map(list, d.bj.items())), 'bl': sorted(map(list, d.bl.items())),
                  'mk': d.mk or 'Member'}, 'ev': d.ev,
          'meta': _meta(d, loop)}


# ------------------------------------------------------------------ direction B: histories
def _val(m, nv):
  return ((m - 1) % nv) + 1


def _pick_nv(rng, n):
  """Number of distinct member data values for n node names: often fewer than names, so that an
  instance can register again under another node name (delete + create with equal data)."""
  if n == 1 or rng.random() < 0.5:
    return n
  return rng.randint(1, n - 1)


def _gen_script(rng, n, thorough):
  """Tree-aware random history: tree operations interleaved with single Serve steps."""
  ops = []
  parent = False
  kids = set()
  other = False
  n_env = rng.randint(3, 14 if thorough else 10)
  p_serve = rng.choice([0.3, 0.5, 0.7, 0.85])
  nv = _pick_nv(rng, n)
  pol = rng.random()
  rj, rl = [], []
  if pol < 0.25:
    rl = [rng.randint(1, nv)]
  elif pol < 0.4:
    rj = [rng.randint(1, nv)]
  elif pol < 0.5:
    rl = list(range(1, nv + 1))
    rj = [rng.randint(1, nv)]
  env = 0
  while env < n_env:
    if rng.random() < p_serve:
      ops.append(['S'])
      continue
    if rng.random() < 0.08:
      ops.append(['Q'])
      continue
    if rng.random() < 0.04:
      ops.append(['GM'])
      continue
    cand = []
    if not parent:
      cand += [['PC']] * 3
    else:
      for m in range(1, n + 1):
        if m in kids:
          cand += [['ZD', m]] * 2
        elif _val(m, nv) not in [_val(k, nv) for k in kids]:
          cand += [['ZC', m]] * 2
      if not kids and not other:
        cand += [['PD']] * 3
      if rng.random() < 0.1:
        cand.append(['OD'] if other else ['OC'])
      # drive towards parent deletion now and then
      if kids and rng.random() < 0.35:
        m = rng.choice(sorted(kids))
        cand = [['ZD', m]]
    o = rng.choice(cand)
    ops.append(o)
    env += 1
    if o[0] == 'PC':
      parent = True
    elif o[0] == 'PD':
      parent = False
    elif o[0] == 'ZC':
      kids.add(o[1])
    elif o[0] == 'ZD':
      kids.discard(o[1])
    elif o[0] == 'OC':
      other = True
    elif o[0] == 'OD':
      other = False
  return {'n': n, 'nv': nv, 'rj': rj, 'rl': rl, 'ops': ops,
          'endpoint': rng.choice([None, None, 'aux']), 'mk': rng.choice([None] * 4 + MEMBER_KINDS)}


def _gen_churn(rng, n):
  """The path is created, populated, emptied and deleted again and again while the client
  lags behind: few Serve steps between tree operations, so that watch callbacks, listings and
  member reads of one incarnation are answered in a later one."""
  ops = []
  nv = _pick_nv(rng, n)
  lag = rng.choice([0.0, 0.3, 0.5, 0.7, 1.0, 1.5])

  def serves():
    k = 0
    x = lag
    while x > 0:
      if rng.random() < min(1.0, x):
        k += 1
      x -= 1.0
    for _ in range(k):
      ops.append(['S'])

  if rng.random() < 0.5:
    ops.append(['PC'])
    ops.append(['Q'])
  else:
    for _ in range(rng.randint(0, 3)):
      ops.append(['S'])
  parent = bool(ops and ops[0] == ['PC'])
  for _cycle in range(rng.randint(2, 4)):
    if not parent:
      ops.append(['PC'])
      parent = True
      serves()
    ms = []
    for m in rng.sample(range(1, n + 1), rng.randint(0, min(2, n))):
      if _val(m, nv) not in [_val(k, nv) for k in ms]:
        ms.append(m)
    for m in ms:
      ops.append(['ZC', m])
      serves()
    rng.shuffle(ms)
    for m in ms:
      ops.append(['ZD', m])
      serves()
    if rng.random() < 0.9:
      ops.append(['PD'])
      parent = False
      serves()
    if rng.random() < 0.15:
      ops.append(['Q'])
  if rng.random() < 0.5 and not parent:
    ops.append(['PC'])
    serves()
    m = rng.randint(1, n)
    ops.append(['ZC', m])
  pol = rng.random()
  rj, rl = [], []
  if pol < 0.2:
    rl = [rng.randint(1, nv)]
  elif pol < 0.3:
    rj = [rng.randint(1, nv)]
  return {'n': n, 'nv': nv, 'rj': rj, 'rl': rl, 'ops': ops, 'endpoint': None}


def _gen_burst(rng, n):
  """Many members appear at once (one listing with several nodes to read), then members
  are toggled while the worker is still reading: listings queue up behind the worker.  A deleted
  member often comes back at once under its twin node name (equal data)."""
  ops = [['PC']]
  nv = n if rng.random() < 0.5 else n - 1
  for _ in range(rng.randint(1, 3)):
    ops.append(['S'])
  present = set()
  first = rng.sample(range(1, n + 1), rng.randint(2, n))
  for m in first:
    if _val(m, nv) not in [_val(k, nv) for k in present]:
      ops.append(['ZC', m])
      present.add(m)
  for _ in range(rng.randint(3, 8)):
    for _k in range(rng.choice([0, 1, 1, 2, 2, 3])):
      ops.append(['S'])
    m = rng.randint(1, n)
    if m in present:
      ops.append(['ZD', m])
      present.discard(m)
      twin = [k for k in range(1, n + 1) if k != m and _val(k, nv) == _val(m, nv)]
      if twin and rng.random() < 0.6:     # the instance registers again at once under another name
        ops.append(['ZC', twin[0]])
        present.add(twin[0])
    elif _val(m, nv) not in [_val(k, nv) for k in present]:
      ops.append(['ZC', m])
      present.add(m)
  pol = rng.random()
  rj, rl = [], []
  if pol < 0.15:
    rl = [rng.randint(1, nv)]
  elif pol < 0.3:
    rj = [rng.randint(1, nv)]
  return {'n': n, 'nv': nv, 'rj': rj, 'rl': rl, 'ops': ops, 'endpoint': None}


def _reregistrations():
  """An instance registers again under a new node name: the old node is deleted and a node with
  EQUAL data is created, k Serve steps apart (k = 0: both changes fall into one child listing;
  'Q': two separate listings), with another member present or not, there and back, under
  every single-callback raising policy."""
  out = []
  for other in (False, True):
    n, nv = (3, 2) if other else (2, 1)
    a, b = (1, 3) if other else (1, 2)          # two node names carrying the same data value 1
    pols = [([], []), ([], [1]), ([1], [])] + ([([], [2]), ([2], [])] if other else [])
    for gap in (0, 1, 2, 'Q'):
      for lag in (0, 1, 2, 'Q'):
        for rj, rl in pols:
          ops = [['PC'], ['Q'], ['ZC', a]] + ([['ZC', 2]] if other else [])
          ops += [['Q']] if lag == 'Q' else [['S']] * lag
          for (x, y) in ((a, b), (b, a)):
            ops.append(['ZD', x])
            ops += [['Q']] if gap == 'Q' else [['S']] * gap
            ops.append(['ZC', y])
            ops += [['Q']] if lag == 'Q' else [['S']] * lag
          ops.append(['Q'])
          out.append({'n': n, 'nv': nv, 'rj': rj, 'rl': rl, 'ops': ops, 'endpoint': None})
  return out


def _systematic():
  """k members cached (all notifications processed), then members and the path deleted,
  the path re-created with a subset of the members, with and without settling in between,
  under every single-callback raising policy."""
  out = []
  for n in (1, 2, 3):
    for settle in (True, False):
      for back in range(0, 1 << n):
        pols = [([], [])] + [([], [m]) for m in range(1, n + 1)] + [([m], []) for m in range(1, n + 1)]
        for rj, rl in pols:
          ops = [['PC'], ['Q']]
          for m in range(1, n + 1):
            ops.append(['ZC', m])
          ops.append(['Q'])
          for m in range(1, n + 1):
            ops.append(['ZD', m])
          ops.append(['PD'])
          if settle:
            ops.append(['Q'])
          ops.append(['PC'])
          for m in range(1, n + 1):
            if back & (1 << (m - 1)):
              ops.append(['ZC', m])
          ops.append(['Q'])
          out.append({'n': n, 'nv': n, 'rj': rj, 'rl': rl, 'ops': ops, 'endpoint': None})
  return out


def _mid_read_deletions(thorough):
  """The whole path goes away while the notification worker is in the middle of reading a fresh listing.
  Requests of the session are answered in issue order, so the worker (one read per new member, _members filled
  only after the last one) and the watcher (ChildrenWatch re-listing -> NoNode, DataWatch get -> NoNode,
  exists -> None, _data_changed(None)) advance alternately: which of them is ahead when the path is reported gone
  depends on how many reads the worker still has to make and on when the first child event was seen.
    before   members announced earlier: '0' none; '1' one (still present); '1x' one, announced and left again
    j        new members created at once (one listing with j nodes to read)
    s        Serve steps before the deletion starts (0: child event only, 1: listing answered / first read
             pending, 2: first read answered / second pending, ... j+1: all read, quiescent)
    order    members deleted in ascending / descending order of their names (which of them is still there when
             its read is answered)
    p, t     t further Serve steps after the p-th deletion (t = 0: none)
  then the path is deleted and everything is served to quiescence: the consumer must hold nothing; without and
  with a later re-creation of the path (after that quiescent point) with one of the members.
  Policies: no callback raises / every on_leave raises / every on_join raises (thorough: also every single one)."""
  out = []
  for before in (('0', '1', '1x') if thorough else ('0', '1')):
    k = 0 if before == '0' else 1
    for j in range(1, (6 if before == '0' else 5) if thorough else 5):
      n = k + j
      new = list(range(k + 1, n + 1))
      doomed = new if before != '1' else [1] + new
      pols = [([], []), ([], list(range(1, n + 1))), (list(range(1, n + 1)), [])]
      if thorough:
        pols += [([], [m]) for m in range(1, n + 1)] + [([m], []) for m in range(1, n + 1)]
      elif before == '1':
        pols = pols[:1]           # quick: raising policies only with no member announced before
      for s in range(0, j + 2):
        for order in ((doomed, doomed[::-1]) if len(doomed) > 1 else (doomed,)):
          for p, t in [(0, 0)] + [(p, t) for p in range(1, len(order) + 1) for t in ((1, 2) if thorough else (1,))]:
            head = [['PC'], ['Q']]
            if k:
              head += [['ZC', 1], ['Q']]
            if before == '1x':
              head += [['ZD', 1], ['Q']]
            head += [['ZC', m] for m in new] + [['S']] * s
            for i, m in enumerate(order):
              head.append(['ZD', m])
              if p == i + 1:
                head += [['S']] * t
            head += [['PD'], ['Q']]
            for rj, rl in pols:
              for back in ((False, True) if (thorough or not (rj or rl)) else (False,)):
                ops = head + ([['PC'], ['ZC', n], ['Q']] if back else [])
                out.append({'n': n, 'nv': n, 'rj': rj, 'rl': rl, 'ops': ops, 'endpoint': None})
  return out


def _blocking_callbacks(thorough):
  """A consumer callback that BLOCKS (the library's own LoadBalancerSink callbacks wait for its initialisation):
  the notification worker is parked inside on_join / on_leave for 1 s, 4.9 s, 5.1 s, (thorough: 10 s,) 60 s of virtual time or
  until the script releases it.  Nothing can be delivered meanwhile and the consumer is not at a quiescent point
  before the callback has returned; everything that happened meanwhile must be delivered afterwards.
    kind     join: j members created at once (one listing), on_join of the first / middle / last value blocks;
             leave: j members announced, all deleted at once, on_leave of one value blocks
    during   tree changes while the callback is blocked (another member created / one deleted, with the client reading
             or not; everything deleted and the path too), then time passes / the callback is released
    after    a further change after the callback returned
  thorough: also together with a raising callback."""
  out = []
  durs = [1000, 4900, 5100, 10000, 60000, -1] if thorough else [1000, 4900, 5100, 60000, -1]
  for kind in ('join', 'leave'):
    for j in ((1, 2, 3) if thorough else (1, 3)):
      n = j + 1                      # one spare name for changes during / after the block
      for d in range(1, j + 1):
        for ms in durs:
          start = [['PC'], ['Q']] + [['ZC', m] for m in range(1, j + 1)]
          if kind == 'join':
            start += [['S']] * (j + 1)              # listing + j reads: the worker is inside the callbacks now
          else:
            start += [['Q']] + [['ZD', m] for m in range(1, j + 1)] + [['S']]
          left = list(range(1, j + 1)) if kind == 'join' else []
          durings = [[], [['ZC', n]], [['ZC', n], ['S'], ['S']], [['ZC', n], ['S'], ['S'], ['ZD', n], ['S']]]
          if left:
            durings += [[['ZD', left[-1]], ['S']], [['ZD', m] for m in left] + [['PD'], ['S'], ['S'], ['S']]]
          else:
            durings += [[['PD'], ['S'], ['S'], ['S']]]
          for during in durings:
            if ms < 0:     # released by the script: after 6 s, (thorough) also at once
              waits = [[['T', 6000], ['REL']]] + ([[['REL']]] if thorough else [])
            else:          # its time passes at the quiescence request, (thorough) also half of it before
              waits = [[]] + ([[['T', ms // 2]]] if thorough else [])
            gone = any(o[0] == 'PD' for o in during)
            spare = any(o == ['ZC', n] for o in during) and not any(o == ['ZD', n] for o in during)
            afters = [[], [['PC'], ['ZC', n], ['Q']] if gone else [['ZD', n]] if spare else [['ZC', n], ['Q'], ['ZD', n]]]
            for wait in waits:
              for after in afters:
                ops = start + during + wait + [['Q']] + after + [['Q']]
                pols = [([], [])]
                if thorough:
                  pols += [([], [d]), ([d], []), ([], list(range(1, n + 1))), (list(range(1, n + 1)), [])]
                for rj, rl in pols:
                  sc = {'n': n, 'nv': n, 'rj': rj, 'rl': rl, 'ops': ops, 'endpoint': None}
                  sc['bj' if kind == 'join' else 'bl'] = [[d, ms]]
                  out.append(sc)
  return out


def _empty_path_recreations(thorough):
  """An EMPTY path (its child watch still armed) is deleted and re-created faster than the client re-reads it.
    history  no member ever / a member announced, deleted and settled
    b        Serve steps between the last change before the deletion and the deletion (0, 1, 2, Q = settled; with
             b < Q the start-up / the last listing is still in flight when the path goes away)
    a        Serve steps between deletion and re-creation (0, 1, 2)
    c        Serve steps after the re-creation before the first member is created (0, 1, 2, Q)
  then one or two members are created, settled, one deleted again, settled.  No callback raises (thorough: also
  single raising callbacks)."""
  out = []
  for hist in ('never', 'emptied'):
    for b in (0, 1, 2, 'Q'):
      for a in (0, 1, 2):
        for c in (0, 1, 2, 'Q'):
          for first in ((1,), (1, 2)):
            ops = [['PC']]
            if hist == 'emptied':
              ops += [['Q'], ['ZC', 1], ['Q'], ['ZD', 1]]
            ops += [['Q']] if b == 'Q' else [['S']] * b
            ops += [['PD']] + [['S']] * a + [['PC']]
            ops += [['Q']] if c == 'Q' else [['S']] * c
            ops += [['ZC', m] for m in first] + [['Q'], ['ZD', 1], ['Q']]
            pols = [([], [])] + ([([], [1]), ([1], [])] if thorough else [])
            for rj, rl in pols:
              out.append({'n': 2, 'nv': 2, 'rj': rj, 'rl': rl, 'ops': ops, 'endpoint': None})
  return out


def _path_data_changes(thorough):
  """The data of the watched path itself changes (somebody `set`s it: the DataWatch fires although neither the path
  nor its members changed) between membership changes:
    before   members announced before the change (0, 1, 2)
    k        number of data changes (1, 2)
    a        Serve steps between the data change and the next membership change (0, 1, Q)
  then a member is created, settled, one deleted, settled; optionally the path is emptied, deleted and re-created
  with a member afterwards."""
  out = []
  for before in (0, 1, 2):
    for k in (1, 2):
      for a in (0, 1, 'Q'):
        for tail in (False, True):
          ops = [['PC'], ['Q']] + [['ZC', m] for m in range(1, before + 1)] + [['Q']]
          ops += [['PS']] * k
          ops += [['Q']] if a == 'Q' else [['S']] * a
          ops += [['ZC', 3], ['Q']]
          if before:
            ops += [['ZD', 1], ['Q']]
          ops += [['PS'], ['ZD', 3], ['Q']]
          if tail:
            ops += [['ZD', m] for m in range(2, before + 1)] + [['Q'], ['PD'], ['Q'], ['PC'], ['PS'], ['ZC', 2], ['Q']]
          out.append({'n': 3, 'nv': 3, 'rj': [], 'rl': [], 'ops': ops, 'endpoint': None})
  return out


def _member_types(thorough):
  """Members of other types than the library's Member (public argument member_factory: namedtuples, tuple subclasses,
  objects whose __str__ / __repr__ raise or contain % conversions) with raising callbacks in listings of 2-3 changes:
  whatever the server set does with a member besides handing it to the consumer (logging it, formatting it) must not
  decide whether the other notifications of the listing are delivered.
    joins    j members created at once (one listing, j joins)
    leaves   j members announced, all deleted at once (one listing, j leaves), the path deleted or not
    mixed    j members announced, the first deleted and a new one created in one listing (leave + join)
    back     j members announced, everything and the path deleted, settled, path re-created with all of them
  policies: on_join / on_leave of one value raises (each), of every value raises; afterwards one member more is
  deleted / created and settled."""
  out = []
  for mk in MEMBER_KINDS:
    for j in ((2, 3) if thorough or mk == 'nt' else (3,)):
      n = j + 1
      allv = list(range(1, n + 1))
      mem = list(range(1, j + 1))
      shapes = {
        'joins': [['PC'], ['Q']] + [['ZC', m] for m in mem] + [['Q'], ['ZD', 1], ['Q']],
        'leaves': [['PC'], ['Q']] + [['ZC', m] for m in mem] + [['Q']] + [['ZD', m] for m in mem] + [['Q'], ['ZC', n], ['Q']],
        'leaves+path': [['PC'], ['Q']] + [['ZC', m] for m in mem] + [['Q']] + [['ZD', m] for m in mem] + [['PD'], ['Q']],
        'mixed': [['PC'], ['Q']] + [['ZC', m] for m in mem] + [['Q'], ['ZD', 1], ['ZC', n], ['Q'], ['ZD', 2], ['Q']],
        'back': [['PC'], ['Q']] + [['ZC', m] for m in mem] + [['Q']] + [['ZD', m] for m in mem] + [['PD'], ['Q'], ['PC']]
                + [['ZC', m] for m in mem] + [['Q'], ['ZD', j], ['Q']],
      }
      for shape in sorted(shapes):
        pols = [(allv, []), ([], allv), (allv, allv)]
        pols += [([d], []) for d in mem] + [([], [d]) for d in mem]
        if not thorough:      # quick: the policies that can matter for this shape
          pols = [p for p in pols if (p[0] and shape in ('joins', 'mixed', 'back')) or (p[1] and shape != 'joins')]
        for rj, rl in pols:
          out.append({'n': n, 'nv': n, 'rj': rj, 'rl': rl, 'ops': shapes[shape], 'endpoint': None, 'mk': mk})
  return out


def _big_listings(thorough):
  """Listings with more than 100 new members (start-up against a big set, a big set re-created with its path): N nodes
  created at once (ZCN), the client stopped k Serve steps into the listing / the member reads, then one more member
  created (or one deleted, or both), then served to quiescence.  Compact events (ZCreateN, runs of Joins / Leaves, runs of
  member reads), expanded exactly by ZkAbs."""
  out = []
  if thorough:
    combos = [(N, k, ch, back) for N in (100, 101, 130) for k in (1, 2, 6, 60, 101, 102, 125)
              for ch in ('create', 'delete_read', 'delete_unread', 'both') for back in (False, True) if k <= N + 1]
  else:
    combos = [(101, 6, 'create', False), (130, 60, 'create', True), (130, 6, 'both', False)]
  for N, k, ch, back in combos:
    ops = [['PC'], ['Q']]
    if back:     # the set existed before: announced, everything deleted with the path, settled, re-created
      ops += [['ZCN', 1, N], ['Q'], ['ZDN', 1, N], ['PD'], ['Q'], ['PC']]
    ops += [['ZCN', 1, N]] + [['S']] * k
    if ch in ('create', 'both'):
      ops.append(['ZC', N + 1])
    if ch in ('delete_read', 'both'):
      ops.append(['ZD', 1])
    if ch == 'delete_unread':
      ops.append(['ZD', N])
    ops += [['Q'], ['ZD', 2], ['Q']]
    out.append({'n': N + 1, 'nv': N + 1, 'rj': [], 'rl': [], 'ops': ops, 'endpoint': None, 'bulk': True})
  return out


# Weaker designs of the component (the unchanged code and partial repairs), as variants of the
# code-shaped model.  TLC's counterexample for each is a history on which that design fails;
# the tree under test must survive all of them (judged, like every trace, by ZkAbs).
_WEAKER = [
  ([], 'ZkServerSet_q.cfg', False),
  (['PD'], 'ZkServerSet_q.cfg', False),
  (['PD', 'DW'], 'ZkServerSet_q.cfg', False),
  (['PD', 'VM'], 'ZkServerSet_q.cfg', False),
  (['VM', 'DW'], 'ZkServerSet_q.cfg', False),
  (['PD', 'VM', 'DW', 'NOINV'], 'ZkServerSet_n1.cfg', False),   # needs a history of 10 tree operations
  # "make before break": joins of a listing before its leaves; fails when an instance registers again
  # under a new node name (equal data) within one listing
  (['PD', 'VM', 'DW', 'JBL'], 'ZkServerSet_d.cfg', False),
  # "nothing to report while no member is announced": the empty listing of a deleted path is queued only when
  # _members is non-empty; fails when the path is reported gone between the reads of the first members of a listing
  # (needs a listing of 4 members: worker and watcher advance alternately, the watcher needs 3 round trips)
  (['PD', 'VM', 'DW', 'LZ'], 'ZkServerSet_b4.cfg', False),
  # "a wedged consumer must not hold up membership updates": callbacks run under a gevent.Timeout (a BaseException,
  # not caught by `except Exception`): a callback that blocks too long kills the notification worker
  (['PD', 'VM', 'DW', 'TO'], 'ZkServerSet_blk.cfg', False),
]


def _counterexample_scripts(tier):
  import concurrent.futures

  def work(item):
    flags, cfg, thorough_only = item
    if thorough_only and tier == 'quick':
      return []
    env = dict(('ZKFIX_' + f, '1') for f in flags)
    r = tlc.run_tlc('ZkServerSet', cfg, workers=8 if cfg == 'ZkServerSet_b4.cfg' else 4, timeout=1800, env=env, heap='8g')
    if r.violated != 'NoViolation':
      raise RuntimeError('model variant %s: expected a counterexample to NoViolation, got %r %r\n%s' % (
        flags, r.violated, r.error, r.stdout[-1500:]))
    ops = []
    for m in re.finditer(r'^State \d+: <(\w+)(?:\(([^)]*)\))? line', r.stdout, re.M):
      name = m.group(1)
      if name == 'Expire':       # "the time allowed for a callback is up": a minute passes
        ops.append(['T', 60000])
      elif name in _OPS:
        ops.append([_OPS[name]] + ([int(m.group(2))] if m.group(2) else []))
    pol = {}
    for v in ('rj', 'rl', 'bj', 'bl'):
      mm = re.search(r'^/\\ %s = (\{[^}]*\})' % v, r.stdout, re.M)
      pol[v] = tlc.parse_tla(mm.group(1)) if mm else []
    n, nv = _cfg_consts(cfg)
    out = []
    for swap in ((False, True) if nv >= n else (False,)):
      o2 = [[o[0]] + ([n + 1 - o[1]] if swap else [o[1]]) if len(o) > 1 else list(o) for o in ops]
      out.append({'n': n, 'nv': nv, 'rj': [n + 1 - x if swap else x for x in pol['rj']],
                  'rl': [n + 1 - x if swap else x for x in pol['rl']], 'ops': o2, 'endpoint': None,
                  'bj': [[n + 1 - x if swap else x, -1] for x in pol['bj']],
                  'bl': [[n + 1 - x if swap else x, -1] for x in pol['bl']],
                  'origin': 'TLC counterexample of model variant %s' % ('+'.join(flags) or 'unrepaired')})
    return out

  scripts = []
  with concurrent.futures.ThreadPoolExecutor(max_workers=3) as ex:
    for r in ex.map(work, _WEAKER):
      scripts.extend(r)
  return scripts


def cases(prop, tier, seed):
  _preload()
  rng = random.Random(1000003 * int(seed) + 19)
  thorough = tier != 'quick'
  n = 700 if not thorough else 6000
  out = (list(_counterexample_scripts(tier)) + list(_systematic()) + list(_reregistrations())
         + list(_mid_read_deletions(thorough)) + list(_blocking_callbacks(thorough))
         + list(_empty_path_recreations(thorough)) + list(_member_types(thorough)) + list(_big_listings(thorough))
         + list(_path_data_changes(thorough)))
  for i in range(n):
    if i % 3 == 2:
      out.append(_gen_churn(rng, [1, 2, 2, 3][(i // 3) % 4]))
    elif i % 6 == 1:
      out.append(_gen_burst(rng, [3, 4][(i // 6) % 2]))
    else:
      out.append(_gen_script(rng, [2, 2, 3, 3, 4][i % 5], thorough))
  return out


def nontrivial(prop, t):
  ev = t['ev']
  if not any(e['e'] in ('ZCreate', 'ZCreateN') for e in ev):
    return None
  meta = t.get('meta') or {}
  interesting = (any(e['e'] in ('PDelete', 'Raised') for e in ev) or meta.get('nonode_reads') or meta.get('mid_ops'))
  return common.canon(ev) if interesting else None


def witness(prop, t, consumed, clause):
  """Features of the failing history (the prefix up to the failing event), all computed from
  the recorded observable events:
    parent_deleted / parent_recreated   the path was deleted (and created again) before the failure
    settled_before_recreate             a quiescent point lies between the last deletion of the path
                                        and its re-creation (the deletion was completely processed)
    recreated_before_quiescence         somewhere in the history the path was re-created with no quiescent
                                        point since its deletion (the client had not caught up)
    unsettled_recreate                  (= stale_children_watch; the name is the one known_findings.json uses) the life of
                                        the path is a sequence of states (absent, 1st incarnation, absent, 2nd ...); the
                                        DataWatch observes a state when a read of it that makes it call back is answered
                                        in that state (get -> data, or exists -> None after get -> NoNode), and _watching /
                                        the start of a children watch follow what the DataWatch observed.  True iff somewhere in the history a listing of a ChildrenWatch
                                        was answered in a state of the path that the DataWatch NEVER observed: NoNode in an
                                        absence it missed (that watch stops itself while _watching stays True: deaf), or
                                        a successful listing in an incarnation it missed (a watch left over from an earlier
                                        incarnation reports members of an incarnation whose end nobody will report).  Both are
                                        the children watch not being tied to the incarnation of the path.  A re-creation the
                                        client did not notice at all (no listing answered in the missed state, e.g. an empty,
                                        fully watched path deleted and re-created at once: its surviving watch lists the new
                                        incarnation after the DataWatch has read it) is not this situation.
    members_held_at_parent_delete       members the consumer held when the path was last deleted (0, 1, 2 = two or more)
    consumer_extra / consumer_missing   at the failing quiescent point the consumer holds a member that is
                                        not present / lacks a member that is present
    raised                              a consumer callback raised earlier in the history
    missing_existed_in_earlier_incarnation   a missing member had also been a member before the path was last deleted
    missing_recreated_in_current_incarnation a missing member was created, deleted and created again since the path
                                             was last created
    duplicate                           'join' / 'leave' for a C19.alternate failure"""
  ev = t['ev'][:consumed + 1]
  last_pd = max([i for i, e in enumerate(ev) if e['e'] == 'PDelete'] or [-1])
  view = set()
  held = 0
  for i, e in enumerate(ev[:-1] if ev and ev[-1]['e'] in ('Join', 'Leave', 'Joins', 'Leaves') else ev):
    if e['e'] == 'Join':
      view.add(e['d'])
    elif e['e'] == 'Leave':
      view.discard(e['d'])
    elif e['e'] == 'Joins':
      view.update(e['ds'])
    elif e['e'] == 'Leaves':
      view.difference_update(e['ds'])
    if i == last_pd:
      held = len(view)
  w = {'parent_deleted': last_pd >= 0, 'parent_recreated': False, 'settled_before_recreate': False,
       'unsettled_recreate': False, 'raised': any(e['e'] == 'Raised' for e in ev)}
  if last_pd >= 0:
    w['members_held_at_parent_delete'] = min(held, 2)
    after = ev[last_pd + 1:]
    pc = [i for i, e in enumerate(after) if e['e'] == 'PCreate']
    if pc:
      w['parent_recreated'] = True
      w['settled_before_recreate'] = any(e['e'] == 'Q' for e in after[:pc[0]])
  w['recreated_before_quiescence'] = False
  gone = settled = False
  seen = listed = False       # in the current state of the path: the DataWatch read it / a ChildrenWatch listing was answered
  for e in ev:
    if e['e'] in ('PDelete', 'PCreate'):
      if listed and not seen:
        w['unsettled_recreate'] = True
      seen = listed = False
    if e['e'] == 'PDelete':
      gone, settled = True, False
    elif e['e'] == 'Q' and gone:
      settled = True
    elif e['e'] == 'Serve':
      if (e.get('q'), e.get('r')) in (('get', 'ok'), ('ex', 'no')):
        seen = True       # the two answers that make the DataWatch call back (get -> NoNode and exists -> stat only
                          # make it ask again)
      elif e.get('q') == 'gc':
        listed = True
    elif e['e'] == 'PCreate':
      if gone and not settled:
        w['recreated_before_quiescence'] = True
      gone = False
  w['stale_children_watch'] = w['unsettled_recreate']
  last = ev[-1] if ev else None
  if last is not None and last['e'] == 'Q':
    present = set(last.get('present', []))
    w['consumer_extra'] = bool(view - present)
    w['consumer_missing'] = bool(present - view)
    missing = present - view
    start = max([i for i, e in enumerate(ev) if e['e'] == 'PCreate'] or [0])
    w['missing_existed_in_earlier_incarnation'] = any(
      e['e'] == 'ZCreate' and e['d'] in missing for e in ev[:max(last_pd, 0)])
    w['missing_recreated_in_current_incarnation'] = any(
      sum(1 for e in ev[start:] if e['e'] == 'ZCreate' and e['d'] == m) >= 2 for m in missing)
  elif last is not None and last['e'] in ('Join', 'Leave', 'Joins', 'Leaves'):
    w['duplicate'] = last['e'].lower()[:5].rstrip('s')
  return w


# ------------------------------------------------------------------ code variant probe
_VARIANT = None


def _probe(_):
  """Which of the proposed repairs does the tree under test contain?  Decided by behaviour
  (three micro-histories on the real code), used only to pick the matching variant of the
  code-shaped model for model checking and direction A."""
  loop = common.boot()
  out = []
  # PD: two cached members, path deleted: both leaves delivered?
  d = Driver(loop, 2, [], [])
  for o in (['PC'], ['Q'], ['ZC', 1], ['ZC', 2], ['Q'], ['ZD', 1], ['ZD', 2], ['PD'], ['Q']):
    d.op(o)
  leaves = [e['m'] for e in d.ev if e['e'] == 'Leave']
  if sorted(leaves) == [1, 2]:
    out.append('PD')
  return out


def _probe_vm(_):
  loop = common.boot()
  # VM: member listed, deleted before it is read, re-created before the next listing
  d = Driver(loop, 1, [], [])
  for o in (['PC'], ['Q'], ['ZC', 1], ['S'], ['ZD', 1], ['S'], ['ZC', 1], ['Q']):
    d.op(o)
  return ['VM'] if any(e['e'] == 'Join' for e in d.ev) else []


def _probe_dw(_):
  loop = common.boot()
  # DW: path deleted while the first listing is pending and re-created before the data
  # watcher looks again: is the children watch restarted?
  d = Driver(loop, 1, [], [])
  for o in (['PC'], ['S'], ['S'], ['PD'], ['S'], ['PC'], ['Q'], ['ZC', 1], ['Q']):
    d.op(o)
  return ['DW'] if any(e['e'] == 'Join' for e in d.ev) else []


def _variant():
  global _VARIANT
  if _VARIANT is None:
    forced = os.environ.get('ZK_VARIANT')
    if forced is not None:
      _VARIANT = [x for x in forced.split(',') if x]
    else:
      v = []
      for fn in (_probe, _probe_vm, _probe_dw):
        r = common.run_forked(fn, [0])[0]
        if 'err' in r:
          raise RuntimeError('variant probe failed:\n' + r['err'])
        v += r['ok']
      _VARIANT = v
  return _VARIANT


# ------------------------------------------------------------------ direction A
_REQ_OF_PC = {'mex': ['exists', 0, False], 'get': ['get', 0, True], 'ex': ['exists', 0, True],
              'gc': ['get_children', 0, True], 'cgc': ['get_children', 0, True]}


def _spec_projection(st):
  """What the real objects must look like in spec state `st` (same shape as Driver.projection
  plus the callbacks made by the step)."""
  c = st['c']
  reqs = []
  for g in c['reqs']:
    if g == 'NW':
      reqs.append(['get', c['nw']['todo'][0], False])
    else:
      reqs.append(list(_REQ_OF_PC[c['gl'][g]['pc']]))
  return {'nodes': list(c['nodes']), 'members': list(c['members']), 'watching': c['watching'],
          'qlen': len(c['nq']), 'reqs': reqs, 'cbq': len(c['cbq']), 'dataW': st['dataW'],
          'childW': len(st['childW']), 'blocked': c['nw']['pc'] == 'cb',
          'out': [[e['e'], e['m'], e['d']] for e in c['out']]}


def _features(st):
  """Model situations a behaviour passes through (evidence: what direction A exercised)."""
  c = st['c']
  f = set()
  if c['dwait']:
    f.add('datawatch_lock_contended')
  if any(v['pc'] != 'dead' for g, v in c['gl'].items() if g.startswith('S')):
    f.add('spawned_get_data')
  if len([x for x in c['cws'] if not x]) > 1:
    f.add('two_live_children_watches')
  if any(c['cws']):
    f.add('children_watch_stopped')
  if len(c['nq']) > 1:
    f.add('worker_backlog')
  if 'NW' in c['reqs'] and len(c['reqs']) > 1:
    f.add('worker_read_overlaps_watcher')
  if c['nw']['pc'] == 'cb':
    f.add('consumer_callback_blocked')
    if c['reqs'] or c['nq'] or c['cbq']:
      f.add('client_busy_while_callback_blocked')
  if st['viol'] != 'ok':
    f.add('model_violation')
  return f


def _cfg_consts(cfg):
  """(number of names, number of distinct data values) of a ZkServerSet cfg file."""
  txt = open(os.path.join(tlc.SPECS, cfg)).read()
  n = len(re.search(r'Names = \{([^}]*)\}', txt).group(1).split(','))
  nv = int(re.search(r'NValues = (\d+)', txt).group(1))
  return n, nv


def _compact(states_actions, consts):
  """[(action, params, state)...] with the first element the initial state ->
  JSON-able behaviour {n, rj, rl, steps: [[name, params, expected projection]...], feat}."""
  st0 = states_actions[0][2]
  n, nv = consts
  feat = set()
  steps = []
  for (name, params, st) in states_actions:
    feat |= _features(st)
    steps.append([name, list(params), _spec_projection(st)])
  return {'n': n, 'nv': nv, 'rj': list(st0['rj']), 'rl': list(st0['rl']), 'bj': list(st0.get('bj', [])),
          'bl': list(st0.get('bl', [])), 'steps': steps, 'feat': sorted(feat)}


_OPS = {'PCreate': 'PC', 'PDelete': 'PD', 'ZCreate': 'ZC', 'ZDelete': 'ZD', 'Serve': 'S', 'Return': 'REL'}


def _replay_one(beh):
  """Step the real ServerSet through one behaviour of ZkServerSet, comparing the projection
  of the real objects with the spec state after every step."""
  loop = common.boot()
  del loop.errors[:]
  # a blocking callback of the model blocks until action Return: a gate the replay releases
  d = Driver(loop, beh['n'], beh['rj'], beh['rl'], None, beh.get('nv'),
             [[x, -1] for x in beh.get('bj', [])], [[x, -1] for x in beh.get('bl', [])])
  drift = None
  steps = 0

  def compare(name, params, exp, before):
    real = d.projection()
    if real is None or exp is None:
      return None
    real['out'] = [[e['e'], e['m'], e['d']] for e in d.ev[before:] if e['e'] in ('Join', 'Leave', 'Raised')]
    if exp != real:
      return {'step': steps, 'action': [name, params], 'spec': exp, 'real': real}
    return None

  drift = compare('Init', [], beh['steps'][0][2], 0)
  d.mark_q()
  for (name, params, exp) in beh['steps'][1:]:
    before = len(d.ev)
    ok = d.op([_OPS[name]] + list(params))
    steps += 1
    if not ok:
      # the real run has no such step (e.g. no pending request)
      if drift is None:
        drift = {'step': steps, 'action': [name, params], 'spec': 'enabled', 'real': 'not possible'}
      break
    if drift is None:
      drift = compare(name, params, exp, before)
  d.op(['Q'])
  return {'cfg': {'n': beh['n'], 'nv': d.nvalues, 'rj': sorted(d.rj), 'rl': sorted(d.rl),
                  'bj': sorted(map(list, d.bj.items())), 'bl': sorted(map(list, d.bl.items()))}, 'ev': d.ev, 'steps': steps,
          'drift': drift, 'meta': _meta(d, loop), 'proj': d.projection() is not None}


def _replay_batch(behs):
  # several behaviours per forked child (every behaviour builds its own FakeZK, provider
  # and ServerSet; greenlets of earlier behaviours stay parked on their own queues)
  return [_replay_one(b) for b in behs]


def _parse_dot_state(label):
  s = label.replace('\\n', '\n').replace('\\"', '"').replace('\\\\', '\\')
  st = {}
  for m in re.finditer(r'(?:^|\n)/\\ (\w+) = ((?:.|\n)*?)(?=\n/\\ \w+ = |\Z)', s):
    st[m.group(1)] = tlc.parse_tla(m.group(2).strip())
  return st


def _graph_behaviours(env, cfg, budget, seed):
  """Complete state graph of a small configuration (`tlc -dump dot,actionlabels`) and a
  set of behaviours that together take every transition (deepest uncovered transition
  first, reached by a shortest path, then extended along uncovered transitions)."""
  d = tempfile.mkdtemp(prefix='zkgraph_')
  try:
    dot = os.path.join(d, 'g.dot')
    r = tlc.run_tlc('ZkServerSet', cfg, workers=8, timeout=1800, env=env, heap='8g',
                    extra=['-dump', 'dot,actionlabels', dot])
    if not r.ok:
      raise RuntimeError('state graph dump failed: %r %r\n%s' % (r.violated, r.error, r.stdout[-2000:]))
    txt = open(dot).read()
  finally:
    shutil.rmtree(d, ignore_errors=True)
  labels = {}
  init = []
  for m in re.finditer(r'^(-?\d+) \[label="((?:[^"\\]|\\.)*)"(,style = filled)?', txt, re.M):
    labels[m.group(1)] = m.group(2)
    if m.group(3):
      init.append(m.group(1))
  edges = collections.defaultdict(list)
  for m in re.finditer(r'^(-?\d+) -> (-?\d+) \[label="([^"]*)"', txt, re.M):
    edges[m.group(1)].append((m.group(3), m.group(2)))
  par = {}
  depth = {}
  dq = collections.deque()
  for i in sorted(init):
    depth[i] = 0
    par[i] = None
    dq.append(i)
  while dq:
    u = dq.popleft()
    for (a, v) in edges[u]:
      if v not in depth:
        depth[v] = depth[u] + 1
        par[v] = (u, a)
        dq.append(v)
  allE = [(u, a, v) for u in sorted(edges) for (a, v) in edges[u]]
  unc = set(allE)
  rng = random.Random(seed)
  rng.shuffle(allE)
  allE.sort(key=lambda e: -depth[e[0]])
  paths = []
  for e in allE:
    if e not in unc:
      continue
    if len(paths) >= budget:
      break
    u = e[0]
    pre = []
    x = u
    while par[x] is not None:
      pu, pa = par[x]
      pre.append((pu, pa, x))
      x = pu
    pre.reverse()
    path = pre + [e]
    cur = e[2]
    while True:
      outs = [(cur, a2, v2) for (a2, v2) in edges[cur] if (cur, a2, v2) in unc and (cur, a2, v2) != e]
      if not outs:
        break
      nxt = rng.choice(outs)
      path.append(nxt)
      unc.discard(nxt)
      cur = nxt[2]
    for pe in path:
      unc.discard(pe)
    paths.append(path)
  cache = {}
  consts = _cfg_consts(cfg)

  def state(nid):
    if nid not in cache:
      cache[nid] = _parse_dot_state(labels[nid])
    return cache[nid]

  behs = []
  for path in paths:
    sa = [('Init', [], state(path[0][0]))]
    for (u, a, v) in path:
      m = re.match(r'(\w+)(?:\((.*)\))?$', a)
      params = tlc.parse_tla('<<' + m.group(2) + '>>') if m.group(2) else []
      sa.append((m.group(1), params, state(v)))
    behs.append(_compact(sa, consts))
  return behs, {'graph_states': len(labels), 'graph_transitions': len(allE),
                'graph_transitions_replayed': len(allE) - len(unc)}


def replay_behaviours(prop, tier, seed):
  _preload()
  fixes = _variant()
  env = dict(('ZKFIX_' + f, '1') for f in fixes)
  quick = tier == 'quick'
  behs, gsum = _graph_behaviours(env, 'ZkServerSet_cov.cfg' if quick else 'ZkServerSet_cov7.cfg',
                                 100000, int(seed))
  # the same with blocking consumer callbacks (policy of size 1; shorter histories)
  behs2, gsum2 = _graph_behaviours(env, 'ZkServerSet_covb.cfg' if quick else 'ZkServerSet_covb5.cfg',
                                   100000, int(seed))
  behs += behs2
  gsum = dict((k, gsum[k] + gsum2[k]) for k in gsum)
  r, sims = tlc.simulate_behaviours('ZkServerSet', 'ZkServerSet_sim.cfg', num=300 if quick else 3000, depth=40,
                                    seed=int(seed) + 1, timeout=900, env=env)
  if not sims:
    raise RuntimeError('no behaviours from TLC simulate:\n' + r.stdout[-2000:])
  for b in sims:
    behs.append(_compact([('Init', [], b[0][1])] + [(a[0], a[1], st) for (a, st) in b[1:]],
                         _cfg_consts('ZkServerSet_sim.cfg')))
  B = 20
  batches = [behs[i:i + B] for i in range(0, len(behs), B)]
  res = common.run_forked(_replay_batch, batches, timeout_s=300)
  errs = [x['err'] for x in res if 'err' in x]
  if errs:
    raise RuntimeError('replay failed: ' + errs[0])
  traces = []
  drift = []
  steps = 0
  feats = collections.Counter()
  noproj = 0
  for bs, x in zip(batches, res):
    for b, o in zip(bs, x['ok']):
      steps += o['steps']
      if not o.get('proj'):
        noproj += 1
      feats.update(b['feat'])
      if o['drift']:
        drift.append(o['drift'])
      traces.append({'cfg': o['cfg'], 'ev': o['ev'], 'meta': o.get('meta'), 'script': {'behaviour': b}})
  summary = {'behaviours_replayed': len(behs), 'steps_compared': steps, 'drift': len(drift),
             'model_variant': '+'.join(sorted(fixes)) or 'unrepaired',
             'behaviours_through': dict(feats),
             # internal attributes are optional: without them only the observable events are checked
             'behaviours_without_internal_projection': noproj}
  summary.update(gsum)
  return {'summary': summary, 'traces': traces, 'drift': drift}


def extra_coverage(prop, tier, traces):
  metas = [t.get('meta') or {} for t in traces]
  return {
    'code_variant_detected': '+'.join(sorted(_variant())) or 'unrepaired',
    'traces_with_member_read_nonode': sum(1 for m in metas if m.get('nonode_reads')),
    'traces_with_tree_ops_while_requests_pending': sum(1 for m in metas if m.get('mid_ops')),
    'traces_with_parent_delete': sum(1 for t in traces if any(e['e'] == 'PDelete' for e in t['ev'])),
    'traces_with_raising_callback': sum(1 for t in traces if any(e['e'] == 'Raised' for e in t['ev'])),
    'traces_with_unhandled_greenlet_error': sum(1 for m in metas if m.get('errors')),
    'traces_with_blocking_callback': sum(1 for m in metas if m.get('blocks')),
    'traces_with_blocked_callback_not_returning_normally': sum(1 for m in metas if m.get('cut_short')),
  }
