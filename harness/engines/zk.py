"""Engine `zk` (C19): scales.loadbalancer.zookeeper.ServerSet behind ZooKeeperServerSetProvider.

Specs: ZkAbs (oracle), ZkAbsTrace (batched validation), ZkServerSet (code-shaped: ServerSet +
kazoo DataWatch/ChildrenWatch recipes + kazoo's serial callback worker + a ZooKeeper session).
The real ServerSet, the real kazoo recipes and the real SequentialGeventHandler run over
harness.simgevent.fakezk.FakeZK in manual mode: every ZooKeeper call of the code parks its
greenlet on a pending request; the harness mutates the tree (PCreate/PDelete/ZCreate/ZDelete)
and answers the oldest request (Serve), running the virtual gevent loop to exhaustion after
every step.  The consumer is a pair of logging callbacks, some of which raise.

Direction A: TLC -simulate behaviours of ZkServerSet replayed step by step, projection
(_nodes, _members keys in dict order, _watching, notification-queue length, pending requests,
callback-queue length, armed watches, callbacks of the step) compared after every step.
Direction B: seeded random histories + a systematic family around parent deletion.
"""
import collections
import os
import random
import re
import shutil
import tempfile

from harness import common, tlc

NAME = 'zk'
PROPS = ['C19']
LEVEL = {'C19': 'model_checking'}
TRACE_MODULE = 'ZkAbsTrace'
TRACE_CFG = 'ZkAbsTrace.cfg'
TRACE_CHUNK = 1500
ASSUMPTIONS = [
  'FakeZK implements the documented ZooKeeper semantics the kazoo recipes rely on: one-shot watches '
  '(get/exists arm a data watch, get_children a child watch; DELETED goes to data watchers then child watchers), '
  'requests of one session answered in issue order, a request linearised when it is answered',
  'a watch event is queued on the (real) kazoo callback worker when it fires: delaying it on the wire is equivalent, '
  'for a client that only acts when it reads from its connection, to the tree operation happening later',
  'the session never disconnects or expires (no SUSPENDED/LOST transitions)',
  'member data is well-formed serverset JSON; members are identified by node name',
  'virtual-time gevent loop preserves gevent callback FIFO order (selftest)',
  'TLC exhaustive only within the stated constants (member names, history length, re-creations of the path)',
]
RULE = {'C19': 'seeded random tree histories interleaved with single Serve steps (plus TLC-simulated behaviours and a '
               'systematic family: k members cached, members deleted, path deleted and re-created with a subset, under '
               'every raising policy); non-trivial = at least one member created and at least one of: path deleted, '
               'a member read answered NoNode, a callback raised, a tree operation while requests are pending; '
               'distinct by canonical event list'}

BASE = '/svc'
PATH = '/svc/set'
OTHER = 'other_node'     # a child that the member filter must ignore
UNKNOWN = 99


ALL_FIXES = ['DW', 'PD', 'VM']


def models(prop, tier):
  """The code-shaped model is checked in the variant the tree under test implements (decided by
  a behavioural probe).  Only the fully repaired variant satisfies C19 in the model; for any
  other variant the model check is a documented counterexample generator (the counterexamples
  are then reproduced on the real code by direction A/B, which is what produces verdicts), and
  the fully repaired design is checked as well."""
  fixes = sorted(_variant())
  full = dict(('ZKFIX_' + f, '1') for f in ALL_FIXES)
  out = []
  if fixes != ALL_FIXES:
    env = dict(('ZKFIX_' + f, '1') for f in fixes)
    out.append(dict(module='ZkServerSet', cfg='ZkServerSet_q.cfg', env=env, expect_violation='NoViolation',
                    what='code variant %s (as in the tree under test): counterexample to C19 expected; '
                         '2 names, history <= 7' % ('+'.join(fixes) or 'unrepaired')))
  out.append(dict(module='ZkServerSet', cfg='ZkServerSet_q.cfg', env=full, coverage=True,
                  what='repaired design DW+PD+VM: 2 names, history <= 7, path created <= 3x, raising policy <= 1'))
  if tier != 'quick':
    out.append(dict(module='ZkServerSet', cfg='ZkServerSet_t.cfg', env=full, timeout=3000, heap='24g',
                    what='repaired design: 2 names, history <= 10, path created <= 4x, raising policy <= 2'))
    out.append(dict(module='ZkServerSet', cfg='ZkServerSet_t3.cfg', env=full, timeout=3000, heap='24g',
                    what='repaired design: 3 names, history <= 8, path created <= 3x, raising policy <= 1'))
  return out


# ------------------------------------------------------------------ the driver
def _pick_names(n):
  """n member names whose string hashes land in distinct, ascending slots of an 8-slot set
  table, so that Python sets of them iterate in index order under any hash seed (the
  code-shaped model iterates sets in ascending order)."""
  assert n <= 4
  by_slot = {}
  i = 0
  while len(by_slot) < 8 and i < 100000:
    nm = 'member_%04d' % i
    by_slot.setdefault(hash(nm) & 7, nm)
    i += 1
  slots = sorted(by_slot)[:n]
  return [by_slot[s] for s in slots]


class Driver(object):
  """Runs the real provider/ServerSet over FakeZK and records the C19 events."""

  def __init__(self, loop, n_names, rj, rl, endpoint_name=None):
    import gevent
    from harness.simgevent.fakezk import FakeZK, member_blob
    from scales.loadbalancer.serverset import ZooKeeperServerSetProvider
    self.loop = loop
    self.names = _pick_names(n_names)
    self.idx = dict((nm, i + 1) for i, nm in enumerate(self.names))
    self.rj = set(rj)
    self.rl = set(rl)
    self.ev = []
    self.blob = member_blob
    self.endpoint_name = endpoint_name
    self.zk = FakeZK(manual=True)
    self.zk.srv_ensure_path(BASE)
    self.nonode_reads = 0
    self.mid_ops = 0
    self.prov = ZooKeeperServerSetProvider(self.zk, PATH, member_prefix='member_',
                                           endpoint_name=endpoint_name)
    self.ss = None
    cls = getattr(self.prov, 'ServerSet', None)
    if cls is not None:
      # keep a handle on the ServerSet while its constructor is still running (projection only)
      def factory(*a, **kw):
        self.ss = cls.__new__(cls)
        self.ss.__init__(*a, **kw)
        return self.ss
      self.prov.ServerSet = factory
    self.init_greenlet = gevent.spawn(self.prov.Initialize, self.on_join, self.on_leave)
    loop.run_until_idle()

  class ConsumerError(Exception):
    pass

  def _m(self, member):
    return self.idx.get(getattr(member, 'name', None), UNKNOWN)

  def on_join(self, member):
    m = self._m(member)
    self.ev.append({'e': 'Join', 'm': m})
    if m in self.rj:
      self.ev.append({'e': 'Raised', 'm': 0})
      raise Driver.ConsumerError('join %s' % m)

  def on_leave(self, member):
    m = self._m(member)
    self.ev.append({'e': 'Leave', 'm': m})
    if m in self.rl:
      self.ev.append({'e': 'Raised', 'm': 0})
      raise Driver.ConsumerError('leave %s' % m)

  # -- tree
  def present(self):
    ch = self.zk.srv_children(PATH)
    return sorted(self.idx[c] for c in (ch or []) if c in self.idx)

  def quiescent(self):
    return self.zk.pending() == 0

  def mark_q(self):
    if self.quiescent():
      self.ev.append({'e': 'Q', 'm': 0, 'present': self.present()})

  def op(self, o):
    """One step.  Returns False if the step is not possible in the current tree."""
    zk = self.zk
    k = o[0]
    busy = not self.quiescent()
    if k == 'PC':
      if zk.srv_exists(PATH):
        return False
      zk.srv_create(PATH, b'')
      self.ev.append({'e': 'PCreate', 'm': 0})
    elif k == 'PD':
      if not zk.srv_exists(PATH) or zk.srv_children(PATH):
        return False
      zk.srv_delete(PATH)
      self.ev.append({'e': 'PDelete', 'm': 0})
    elif k == 'ZC':
      nm = self.names[o[1] - 1]
      if not zk.srv_exists(PATH) or zk.srv_exists(PATH + '/' + nm):
        return False
      port = 8000 + o[1] + 10 * (o[2] if len(o) > 2 else 0)
      eps = {'http': ('h%d' % o[1], port + 100)}
      if self.endpoint_name:
        eps[self.endpoint_name] = ('h%d' % o[1], port + 200)
      zk.srv_create(PATH + '/' + nm, self.blob('h%d' % o[1], port, eps, shard=o[1]))
      self.ev.append({'e': 'ZCreate', 'm': o[1]})
    elif k == 'ZD':
      nm = self.names[o[1] - 1]
      if not zk.srv_exists(PATH + '/' + nm):
        return False
      zk.srv_delete(PATH + '/' + nm)
      self.ev.append({'e': 'ZDelete', 'm': o[1]})
    elif k == 'OC':      # a non-member child appears / disappears
      if not zk.srv_exists(PATH) or zk.srv_exists(PATH + '/' + OTHER):
        return False
      zk.srv_create(PATH + '/' + OTHER, b'not a member')
      self.ev.append({'e': 'Other', 'm': 0})
    elif k == 'OD':
      if not zk.srv_exists(PATH + '/' + OTHER):
        return False
      zk.srv_delete(PATH + '/' + OTHER)
      self.ev.append({'e': 'Other', 'm': 0})
    elif k == 'S':
      if not zk.pending():
        return False
      busy = False
      op, path, outcome = zk.serve()
      if outcome == 'nonode' and op == 'get' and path != PATH:
        self.nonode_reads += 1
      self.ev.append({'e': 'Serve', 'm': 0})
    elif k == 'Q':
      n = 0
      while zk.pending():
        self.op(['S'])
        n += 1
        if n > 10000:
          raise RuntimeError('no quiescence')
      return True
    else:
      raise ValueError(o)
    if busy:
      self.mid_ops += 1
    self.loop.run_until_idle()
    self.mark_q()
    return True

  # -- projection of the real objects (optional: None if an attribute is missing)
  def projection(self):
    try:
      ss = self.ss if self.ss is not None else self.prov._server_set
      nodes = sorted(self.idx.get(x, UNKNOWN) for x in ss._nodes)
      members = [self.idx.get(x, UNKNOWN) for x in ss._members.keys()]
      watching = bool(ss._watching)
      qlen = ss._notification_queue.qsize()
    except Exception:
      return None
    reqs = []
    for r in self.zk.reqs:
      tgt = 0 if r.path == PATH else self.idx.get(r.path.rsplit('/', 1)[1], UNKNOWN)
      reqs.append([r.op, tgt, r.watch is not None])
    dw, cw = self.zk.armed(PATH)
    return {'nodes': nodes, 'members': members, 'watching': watching, 'qlen': qlen, 'reqs': reqs,
            'cbq': self.zk.callbacks_queued(), 'dataW': dw, 'childW': cw}


def _meta(d, loop):
  return {'errors': [e[1:3] for e in loop.errors][:4], 'nonode_reads': d.nonode_reads, 'mid_ops': d.mid_ops}


def _preload():
  """Import the heavy third-party modules in the parent so forked children share them.
  Nothing here creates the gevent hub or imports scales (children do that after boot())."""
  import gevent, gevent.queue, gevent.event, gevent.lock  # noqa
  import kazoo.client, kazoo.recipe.watchers, kazoo.handlers.gevent  # noqa


def run_case(script):
  if 'behaviour' in script:
    o = _replay_one(script['behaviour'])
    return {'cfg': o['cfg'], 'ev': o['ev'], 'meta': o.get('meta')}
  loop = common.boot()
  d = Driver(loop, script['n'], script.get('rj', []), script.get('rl', []), script.get('endpoint'))
  d.mark_q()
  for o in script['ops']:
    d.op(o)
  d.op(['Q'])
  return {'cfg': {'n': script['n'], 'rj': sorted(d.rj), 'rl': sorted(d.rl)}, 'ev': d.ev, 'meta': _meta(d, loop)}


# ------------------------------------------------------------------ direction B: histories
def _gen_script(rng, n, thorough):
  """Tree-aware random history: tree operations interleaved with single Serve steps."""
  ops = []
  parent = False
  kids = set()
  other = False
  n_env = rng.randint(3, 14 if thorough else 10)
  p_serve = rng.choice([0.3, 0.5, 0.7, 0.85])
  pol = rng.random()
  rj, rl = [], []
  if pol < 0.25:
    rl = [rng.randint(1, n)]
  elif pol < 0.4:
    rj = [rng.randint(1, n)]
  elif pol < 0.5:
    rl = list(range(1, n + 1))
    rj = [rng.randint(1, n)]
  env = 0
  gen = 0
  while env < n_env:
    if rng.random() < p_serve:
      ops.append(['S'])
      continue
    if rng.random() < 0.08:
      ops.append(['Q'])
      continue
    cand = []
    if not parent:
      cand += [['PC']] * 3
    else:
      for m in range(1, n + 1):
        if m in kids:
          cand += [['ZD', m]] * 2
        else:
          gen += 1
          cand += [['ZC', m, gen % 5]] * 2
      if not kids and not other:
        cand += [['PD']] * 3
      if rng.random() < 0.1:
        cand.append(['OD'] if other else ['OC'])
      # drive towards parent deletion now and then
      if kids and rng.random() < 0.35:
        m = rng.choice(sorted(kids))
        cand = [['ZD', m]]
    o = rng.choice(cand)
    ops.append(o)
    env += 1
    if o[0] == 'PC':
      parent = True
    elif o[0] == 'PD':
      parent = False
    elif o[0] == 'ZC':
      kids.add(o[1])
    elif o[0] == 'ZD':
      kids.discard(o[1])
    elif o[0] == 'OC':
      other = True
    elif o[0] == 'OD':
      other = False
  return {'n': n, 'rj': rj, 'rl': rl, 'ops': ops,
          'endpoint': rng.choice([None, None, 'aux'])}


def _systematic():
  """k members cached (all notifications processed), then members and the path deleted,
  the path re-created with a subset of the members, with and without settling in between,
  under every single-callback raising policy."""
  out = []
  for n in (1, 2, 3):
    for settle in (True, False):
      for back in range(0, 1 << n):
        pols = [([], [])] + [([], [m]) for m in range(1, n + 1)] + [([m], []) for m in range(1, n + 1)]
        for rj, rl in pols:
          ops = [['PC'], ['Q']]
          for m in range(1, n + 1):
            ops.append(['ZC', m])
          ops.append(['Q'])
          for m in range(1, n + 1):
            ops.append(['ZD', m])
          ops.append(['PD'])
          if settle:
            ops.append(['Q'])
          ops.append(['PC'])
          for m in range(1, n + 1):
            if back & (1 << (m - 1)):
              ops.append(['ZC', m, 1])
          ops.append(['Q'])
          out.append({'n': n, 'rj': rj, 'rl': rl, 'ops': ops, 'endpoint': None})
  return out


def cases(prop, tier, seed):
  _preload()
  rng = random.Random(1000003 * int(seed) + 19)
  thorough = tier != 'quick'
  n = 1200 if not thorough else 20000
  out = list(_systematic())
  for i in range(n):
    out.append(_gen_script(rng, [2, 2, 3, 3, 4][i % 5], thorough))
  return out


def nontrivial(prop, t):
  ev = t['ev']
  if not any(e['e'] == 'ZCreate' for e in ev):
    return None
  meta = t.get('meta') or {}
  interesting = (any(e['e'] in ('PDelete', 'Raised') for e in ev) or meta.get('nonode_reads') or meta.get('mid_ops'))
  return common.canon(ev) if interesting else None


def witness(prop, t, consumed, clause):
  """Features of the failing history (prefix up to the failing event)."""
  ev = t['ev'][:consumed + 1]
  last_pd = max([i for i, e in enumerate(ev) if e['e'] == 'PDelete'] or [-1])
  view = set()
  cached_at_pd = 0
  for i, e in enumerate(ev):
    if e['e'] == 'Join':
      view.add(e['m'])
    elif e['e'] == 'Leave':
      view.discard(e['m'])
    if i == last_pd:
      cached_at_pd = len(view)
  present = set(ev[-1].get('present', [])) if ev and ev[-1]['e'] == 'Q' else None
  w = {
    'parent_deleted': last_pd >= 0,
    'parent_recreated': any(e['e'] == 'PCreate' for e in ev[last_pd + 1:]) if last_pd >= 0 else False,
    'raised': any(e['e'] == 'Raised' for e in ev),
  }
  if present is not None:
    w['consumer_extra'] = bool(view - present)
    w['consumer_missing'] = bool(present - view)
  if last_pd >= 0:
    w['members_held_at_parent_delete'] = min(cached_at_pd, 2)
  return w


# ------------------------------------------------------------------ code variant probe
_VARIANT = None


def _probe(_):
  """Which of the proposed repairs does the tree under test contain?  Decided by behaviour
  (three micro-histories on the real code), used only to pick the matching variant of the
  code-shaped model for model checking and direction A."""
  loop = common.boot()
  out = []
  # PD: two cached members, path deleted: both leaves delivered?
  d = Driver(loop, 2, [], [])
  for o in (['PC'], ['Q'], ['ZC', 1], ['ZC', 2], ['Q'], ['ZD', 1], ['ZD', 2], ['PD'], ['Q']):
    d.op(o)
  leaves = [e['m'] for e in d.ev if e['e'] == 'Leave']
  if sorted(leaves) == [1, 2]:
    out.append('PD')
  return out


def _probe_vm(_):
  loop = common.boot()
  # VM: member listed, deleted before it is read, re-created before the next listing
  d = Driver(loop, 1, [], [])
  for o in (['PC'], ['Q'], ['ZC', 1], ['S'], ['ZD', 1], ['S'], ['ZC', 1, 1], ['Q']):
    d.op(o)
  return ['VM'] if any(e['e'] == 'Join' for e in d.ev) else []


def _probe_dw(_):
  loop = common.boot()
  # DW: path deleted while the first listing is pending and re-created before the data
  # watcher looks again: is the children watch restarted?
  d = Driver(loop, 1, [], [])
  for o in (['PC'], ['S'], ['S'], ['PD'], ['S'], ['PC'], ['Q'], ['ZC', 1], ['Q']):
    d.op(o)
  return ['DW'] if any(e['e'] == 'Join' for e in d.ev) else []


def _variant():
  global _VARIANT
  if _VARIANT is None:
    forced = os.environ.get('ZK_VARIANT')
    if forced is not None:
      _VARIANT = [x for x in forced.split(',') if x]
    else:
      v = []
      for fn in (_probe, _probe_vm, _probe_dw):
        r = common.run_forked(fn, [0])[0]
        if 'err' in r:
          raise RuntimeError('variant probe failed:\n' + r['err'])
        v += r['ok']
      _VARIANT = v
  return _VARIANT


# ------------------------------------------------------------------ direction A
_REQ_OF_PC = {'mex': ['exists', 0, False], 'get': ['get', 0, True], 'ex': ['exists', 0, True],
              'gc': ['get_children', 0, True], 'cgc': ['get_children', 0, True]}


def _spec_projection(st):
  """What the real objects must look like in spec state `st` (same shape as Driver.projection
  plus the callbacks made by the step)."""
  c = st['c']
  reqs = []
  for g in c['reqs']:
    if g == 'NW':
      reqs.append(['get', c['nw']['todo'][0], False])
    else:
      reqs.append(list(_REQ_OF_PC[c['gl'][g]['pc']]))
  return {'nodes': list(c['nodes']), 'members': list(c['members']), 'watching': c['watching'],
          'qlen': len(c['nq']), 'reqs': reqs, 'cbq': len(c['cbq']), 'dataW': st['dataW'],
          'childW': len(st['childW']), 'out': [[e['e'], e['m']] for e in c['out']]}


def _features(st):
  """Model situations a behaviour passes through (evidence: what direction A exercised)."""
  c = st['c']
  f = set()
  if c['dwait']:
    f.add('datawatch_lock_contended')
  if any(v['pc'] != 'dead' for g, v in c['gl'].items() if g.startswith('S')):
    f.add('spawned_get_data')
  if len([x for x in c['cws'] if not x]) > 1:
    f.add('two_live_children_watches')
  if any(c['cws']):
    f.add('children_watch_stopped')
  if len(c['nq']) > 1:
    f.add('worker_backlog')
  if 'NW' in c['reqs'] and len(c['reqs']) > 1:
    f.add('worker_read_overlaps_watcher')
  if st['viol'] != 'ok':
    f.add('model_violation')
  return f


def _compact(states_actions):
  """[(action, params, state)...] with the first element the initial state ->
  JSON-able behaviour {n, rj, rl, steps: [[name, params, expected projection]...], feat}."""
  st0 = states_actions[0][2]
  n = 2
  feat = set()
  steps = []
  for (name, params, st) in states_actions:
    for x in list(st['kids']) + list(st['c']['nodes']) + list(st['c']['members']):
      n = max(n, x)
    feat |= _features(st)
    steps.append([name, list(params), _spec_projection(st)])
  return {'n': n, 'rj': list(st0['rj']), 'rl': list(st0['rl']), 'steps': steps, 'feat': sorted(feat)}


_OPS = {'PCreate': 'PC', 'PDelete': 'PD', 'ZCreate': 'ZC', 'ZDelete': 'ZD', 'Serve': 'S'}


def _replay_one(beh):
  """Step the real ServerSet through one behaviour of ZkServerSet, comparing the projection
  of the real objects with the spec state after every step."""
  loop = common.boot()
  del loop.errors[:]
  d = Driver(loop, beh['n'], beh['rj'], beh['rl'])
  drift = None
  steps = 0

  def compare(name, params, exp, before):
    real = d.projection()
    if real is None or exp is None:
      return None
    real['out'] = [[e['e'], e['m']] for e in d.ev[before:] if e['e'] in ('Join', 'Leave', 'Raised')]
    if exp != real:
      return {'step': steps, 'action': [name, params], 'spec': exp, 'real': real}
    return None

  drift = compare('Init', [], beh['steps'][0][2], 0)
  d.mark_q()
  for (name, params, exp) in beh['steps'][1:]:
    before = len(d.ev)
    ok = d.op([_OPS[name]] + list(params))
    steps += 1
    if not ok:
      # the real run has no such step (e.g. no pending request)
      if drift is None:
        drift = {'step': steps, 'action': [name, params], 'spec': 'enabled', 'real': 'not possible'}
      break
    if drift is None:
      drift = compare(name, params, exp, before)
  d.op(['Q'])
  return {'cfg': {'n': beh['n'], 'rj': sorted(d.rj), 'rl': sorted(d.rl)}, 'ev': d.ev, 'steps': steps,
          'drift': drift, 'meta': _meta(d, loop)}


def _replay_batch(behs):
  # several behaviours per forked child (every behaviour builds its own FakeZK, provider
  # and ServerSet; greenlets of earlier behaviours stay parked on their own queues)
  return [_replay_one(b) for b in behs]


def _parse_dot_state(label):
  s = label.replace('\\n', '\n').replace('\\"', '"').replace('\\\\', '\\')
  st = {}
  for m in re.finditer(r'(?:^|\n)/\\ (\w+) = ((?:.|\n)*?)(?=\n/\\ \w+ = |\Z)', s):
    st[m.group(1)] = tlc.parse_tla(m.group(2).strip())
  return st


def _graph_behaviours(env, cfg, budget, seed):
  """Complete state graph of a small configuration (`tlc -dump dot,actionlabels`) and a
  set of behaviours that together take every transition (deepest uncovered transition
  first, reached by a shortest path, then extended along uncovered transitions)."""
  d = tempfile.mkdtemp(prefix='zkgraph_')
  try:
    dot = os.path.join(d, 'g.dot')
    r = tlc.run_tlc('ZkServerSet', cfg, workers=8, timeout=1800, env=env, heap='8g',
                    extra=['-dump', 'dot,actionlabels', dot])
    if not r.ok:
      raise RuntimeError('state graph dump failed: %r %r\n%s' % (r.violated, r.error, r.stdout[-2000:]))
    txt = open(dot).read()
  finally:
    shutil.rmtree(d, ignore_errors=True)
  labels = {}
  init = []
  for m in re.finditer(r'^(-?\d+) \[label="((?:[^"\\]|\\.)*)"(,style = filled)?', txt, re.M):
    labels[m.group(1)] = m.group(2)
    if m.group(3):
      init.append(m.group(1))
  edges = collections.defaultdict(list)
  for m in re.finditer(r'^(-?\d+) -> (-?\d+) \[label="([^"]*)"', txt, re.M):
    edges[m.group(1)].append((m.group(3), m.group(2)))
  par = {}
  depth = {}
  dq = collections.deque()
  for i in sorted(init):
    depth[i] = 0
    par[i] = None
    dq.append(i)
  while dq:
    u = dq.popleft()
    for (a, v) in edges[u]:
      if v not in depth:
        depth[v] = depth[u] + 1
        par[v] = (u, a)
        dq.append(v)
  allE = [(u, a, v) for u in sorted(edges) for (a, v) in edges[u]]
  unc = set(allE)
  rng = random.Random(seed)
  rng.shuffle(allE)
  allE.sort(key=lambda e: -depth[e[0]])
  paths = []
  for e in allE:
    if e not in unc:
      continue
    if len(paths) >= budget:
      break
    u = e[0]
    pre = []
    x = u
    while par[x] is not None:
      pu, pa = par[x]
      pre.append((pu, pa, x))
      x = pu
    pre.reverse()
    path = pre + [e]
    cur = e[2]
    while True:
      outs = [(cur, a2, v2) for (a2, v2) in edges[cur] if (cur, a2, v2) in unc and (cur, a2, v2) != e]
      if not outs:
        break
      nxt = rng.choice(outs)
      path.append(nxt)
      unc.discard(nxt)
      cur = nxt[2]
    for pe in path:
      unc.discard(pe)
    paths.append(path)
  cache = {}

  def state(nid):
    if nid not in cache:
      cache[nid] = _parse_dot_state(labels[nid])
    return cache[nid]

  behs = []
  for path in paths:
    sa = [('Init', [], state(path[0][0]))]
    for (u, a, v) in path:
      m = re.match(r'(\w+)(?:\((.*)\))?$', a)
      params = tlc.parse_tla('<<' + m.group(2) + '>>') if m.group(2) else []
      sa.append((m.group(1), params, state(v)))
    behs.append(_compact(sa))
  return behs, {'graph_states': len(labels), 'graph_transitions': len(allE),
                'graph_transitions_replayed': len(allE) - len(unc)}


def replay_behaviours(prop, tier, seed):
  _preload()
  fixes = _variant()
  env = dict(('ZKFIX_' + f, '1') for f in fixes)
  quick = tier == 'quick'
  behs, gsum = _graph_behaviours(env, 'ZkServerSet_cov.cfg' if quick else 'ZkServerSet_cov6.cfg',
                                 100000, int(seed))
  r, sims = tlc.simulate_behaviours('ZkServerSet', 'ZkServerSet_sim.cfg', num=300 if quick else 3000, depth=40,
                                    seed=int(seed) + 1, timeout=900, env=env)
  if not sims:
    raise RuntimeError('no behaviours from TLC simulate:\n' + r.stdout[-2000:])
  for b in sims:
    behs.append(_compact([('Init', [], b[0][1])] + [(a[0], a[1], st) for (a, st) in b[1:]]))
  B = 20
  batches = [behs[i:i + B] for i in range(0, len(behs), B)]
  res = common.run_forked(_replay_batch, batches, timeout_s=300)
  errs = [x['err'] for x in res if 'err' in x]
  if errs:
    raise RuntimeError('replay failed: ' + errs[0])
  traces = []
  drift = []
  steps = 0
  feats = collections.Counter()
  for bs, x in zip(batches, res):
    for b, o in zip(bs, x['ok']):
      steps += o['steps']
      feats.update(b['feat'])
      if o['drift']:
        drift.append(o['drift'])
      traces.append({'cfg': o['cfg'], 'ev': o['ev'], 'meta': o.get('meta'), 'script': {'behaviour': b}})
  summary = {'behaviours_replayed': len(behs), 'steps_compared': steps, 'drift': len(drift),
             'model_variant': '+'.join(sorted(fixes)) or 'unrepaired',
             'behaviours_through': dict(feats)}
  summary.update(gsum)
  return {'summary': summary, 'traces': traces, 'drift': drift}


def extra_coverage(prop, tier, traces):
  metas = [t.get('meta') or {} for t in traces]
  return {
    'code_variant_detected': '+'.join(sorted(_variant())) or 'unrepaired',
    'traces_with_member_read_nonode': sum(1 for m in metas if m.get('nonode_reads')),
    'traces_with_tree_ops_while_requests_pending': sum(1 for m in metas if m.get('mid_ops')),
    'traces_with_parent_delete': sum(1 for t in traces if any(e['e'] == 'PDelete' for e in t['ev'])),
    'traces_with_raising_callback': sum(1 for t in traces if any(e['e'] == 'Raised' for e in t['ev'])),
    'traces_with_unhandled_greenlet_error': sum(1 for m in metas if m.get('errors')),
  }
