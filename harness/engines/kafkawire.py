"""Engine `kafkawire` (C15): Kafka produce requests and responses are well-formed.

Reference-function form of the TLA+ technique (DESIGN 5/C15, 7): specs/KafkaWire.tla defines the Kafka v0
request encoder (header, ProduceRequest, message set with CRC-32 on 16-bit limbs), independently written
decoders for requests and for produce / metadata responses, and the property-level Check operators.
  * KafkaWireCheck.tla model-checks Decode(Encode(m)) = m, "Check operators accept every reference
    encoding / reject single-byte corruptions" and the agreement of the code-shaped writer with the
    reference over a bounded domain;
  * KafkaWireTrace.tla validates, in batches, records produced by the REAL code:
      Req    (topic, partition, acks, payloads, correlation id, client id) -> request frame
             (KafkaProtocol.SerializeMessage + KafkaTransportSink._BuildHeader)
      Hdr    header of the (empty-topic-list) metadata request
      PResp  broker-encoded ProduceResponse bytes  -> what KafkaProtocol.DeserializeMessage returned
      MResp  broker-encoded MetadataResponse bytes -> what KafkaProtocol.DeserializeMessage returned
      Route  k produce requests through KafkaSerializerSink -> KafkaTransportSink opened over a fake socket
             on the virtual loop, replies put on the connection in a scripted order (some requests
             unanswered, one reply with an unknown correlation id) -> what each request's sink stack received
      retry  the full client built by Kafka.NewBuilder() (dispatcher, KafkaRouterSink, heap balancer,
             KafkaSerializerSink, shared sink, resurrector, KafkaTransportSink over the real ScalesSocket)
             on an in-memory network; the broker answers the first transmission(s) of a produce request with
             a retriable error (3, 6, 8) or drops the connection, so the router re-sends the SAME message;
             EVERY buffer the client writes to a connection (metadata requests, first transmissions and
             retries) is recorded as a Hdr / Req record and judged by the same request clauses
      late   ClientTimeoutSink -> KafkaSerializerSink -> KafkaTransportSink over the real ScalesSocket on the
             simulated network (harness/simgevent SimNet + KafkaPeer): produce / metadata requests with their own
             deadlines; the broker holds replies past the client's timeout and releases them later (after further
             requests were issued), out of order, several in one segment, twice, at the very instant of the
             deadline, or names an id nobody uses.  Events LReq (the bytes the client wrote for the request; the
             spec reads the correlation id from them), LReply (the bytes the broker encoded and the wire request
             they answer), LDone (what the caller was given), LEnd; judged by the KafkaCorrAbs machine inside
             KafkaWireTrace: a value only from a reply encoded in answer to that very request (per wire request
             instance, so that a re-used id is judged correctly), nothing after a timeout, nothing lost.
             KafkaCorr.tla is the code-shaped model of that lifecycle (tag pool / tag map / timeout / late reply /
             the "written" mark checked by _ProcessTaggedReply) with the same machine in lock-step.
             Class late-burst: bursts of 3-48 requests in flight, all but one answered, a bigger burst while that
             one is outstanding, then everything answered.  Class late-buffered: the same oracle on a connection
             with a send buffer (StreamConn): several requests handed in at one instant whose combined size exceeds
             the free space, the broker answers each request the moment it has received it completely (also while
             the rest of the client's write is blocked); the frame reaches the oracle as LWire when the broker has
             it (found by content, judged by ReqCheck).
      stream the same stack over a connection with a send buffer (StreamConn: room / low-water mark / drain;
             partial writes, a writer blocked mid-frame): large (> 1400 byte) and small produce requests and
             metadata requests issued from concurrent greenlets before the write blocks, while it is blocked, and
             in the very instant space frees up (single-callback steps), peer resets mid-write.  Events SSup (what
             was supplied), SBytes (every chunk of bytes the connection accepted, in order), SClosed, SEnd; the
             KafkaStreamAbs machine inside KafkaWireTrace frames the received stream into size-prefixed requests
             and judges each one with ReqCheck / HdrCheck against the one supplied request it carries (found by
             content), each supplied request at most once; a trailing partial request only if the connection
             was closed mid-write.  Big-request scenarios (class stream-big): body sizes at 4 KiB / 16 KiB /
             64 KiB +- 1 / 66000 / 80 KiB, the header write alone blocks, the request's deadline fires inside
             that block; CRC and byte equality are evaluated in full by TLC (an 80 KB request costs ~3 s).
The response bytes come from the small broker-side encoder below (written from the Kafka protocol guide,
struct.pack only); they are decoded by the SPEC's decoder inside TLC and compared there with what the real
code returned.  There is no Python oracle.
"""
import random
import struct

from harness import common

NAME = 'kafkawire'
PROPS = ['C15']
LEVEL = {'C15': 'exploration'}
TRACE_MODULE = 'KafkaWireTrace'
TRACE_CFG = 'KafkaWireTrace.cfg'
TRACE_CHUNK = 30
CASE_TIMEOUT = 300
ASSUMPTIONS = [
  'input-universal property: TLC cannot enumerate the input space; the TLA+ reference codec (KafkaWire) is '
  'evaluated by TLC on recorded pairs (exploration) and is itself model-checked for Decode(Encode(m)) = m over a '
  'bounded domain (KafkaWireCheck); CRC-32 is defined on 16-bit limbs and checked against known answers',
  'topic names, payloads and host names are byte strings (as in the repository tests and as the response '
  'decoder returns them on Python 3); topic names are shorter than 32768 bytes',
  'request timeout, per-message offsets and message keys are not inputs of Put(): any well-formed value is accepted',
  'encodable responses: distinct node ids, distinct topic names, distinct partition ids within a topic '
  '(the decoded result is keyed by them)',
  'correlation ids are the mux tags of the connection ([0, 2^24)); routing is exercised on one connection with up '
  'to 6 requests in flight; socket-level interleavings/faults belong to the transport engine (C02/C08/C11)',
  'late-reply mode: the broker answers every request it received at most once, at any time and in any order (Kafka '
  'has no cancel); a duplicate answer is only generated while no newer request exists (afterwards no client could '
  'tell it from the answer to the new holder of the id); re-using an id is not judged here (C11), only which '
  'request a reply is handed to; errors other than a value are not constrained by C15, except that a request is '
  'not told TimeoutError at a virtual instant later than the one at which its reply reached the client (every '
  'reply is readable, and the loop is run to quiescence, at the instant it is put on the connection)',
  'stream mode: the connection accepts bytes in order (TCP); a send() takes as many bytes as the send buffer has '
  'room for and blocks at 0; the blocked writer is woken by a loop callback once the free space reaches the '
  'low-water mark; supplied produce requests are pairwise distinct in (topic, payloads); whether / when a supplied '
  'request is written at all is not judged (C02/C12), a request cut short by a close / reset mid-write is accepted',
]
RULE = {'C15': 'records generated from VERIF_SEED: topic (ASCII, empty, non-ASCII bytes, long) x partition (int32 '
               'boundaries + random) x acks {-1,0,1,2} x payload list (empty list, empty payloads, 1-64 byte and '
               '1-4 KiB payloads of arbitrary bytes) x correlation id (byte boundaries + random), plus the bounded model '
               'domain (every list of <= 2 payloads of <= 2 bytes over {0,255}); produce / metadata '
               'responses with 0-3 topics/brokers, 0-3 partitions, error codes incl. -1, int64 offset boundaries; '
               'routing runs with 2-6 requests in flight and permuted / missing / unknown replies; late-reply scenarios '
               '(3-9 produce / metadata requests with deadlines of 50-1000 ms or none on one live connection, replies '
               'held past the deadline and released after further requests, permuted, batched, duplicated, unknown '
               'ids, reply and deadline at the same instant with every small interleaving; bursts of 3/12/16/17/25/40/48 '
               'requests in flight, all but one answered, then a bigger burst, then all answered; 2-6 small requests '
               'handed in at one instant into a send buffer of 100-450 bytes with a broker that answers at once); '
               'stream scenarios (send buffer '
               'of 64-1000 bytes, low-water mark 1-300, 1250-1700 byte and small produce requests and metadata '
               'requests from concurrent greenlets around a write that blocks part-way, space freed in pieces of '
               '100-2000 bytes with 0-3 single callbacks between, resets mid-write; plus 12 (thorough 72) scenarios around '
               'one big request whose body is 4095-81920 bytes (4 KiB, 16 KiB, 64 KiB +- 1, 66000, 80 KiB), issued when '
               'the buffer has less room than the 20 byte header needs / just enough for it, its own deadline firing '
               'inside the blocked header write, inside the body write or before it is dequeued, requests queued '
               'behind and issued after it); ~10 records per '
               'trace, one class per trace; every trace is non-trivial except header-only ones; distinct by '
               'canonical record list'}

TAG_BOUNDARY = [0, 1, 2, 255, 256, 65535, 65536, (1 << 24) - 2, (1 << 24) - 1]
I32_BOUNDARY = [0, 1, 2, 255, 256, 65535, 65536, (1 << 24), (1 << 31) - 1]
I64_BOUNDARY = [0, 1, 255, 256, 939955, (1 << 31) - 1, 1 << 31, (1 << 32) - 1, 1 << 32, (1 << 63) - 1, -1]
Z4 = [0, 0, 0, 0]


# ------------------------------------------------------------------ model checking
def _corr_models(cfg, bound):
  return [
    dict(module='KafkaCorr', cfg=cfg, workers=8, coverage=True, timeout=3000,
         what='correlation-id lifecycle of the Kafka transport (tag pool, tag map, send queue, deadline, deferred '
              'timeout_proc, late replies; KafkaCorrAbs in lock-step): ' + bound + ', every interleaving; the id of a '
              'timed-out request stays reserved until the broker answers (_OnTimeout: pass)'),
    dict(module='KafkaCorr', cfg='KafkaCorr_release.cfg', workers=2, expect_violation='NoViolation',
         what='the design in which a client-side timeout returns the id to the pool: the next request takes it and '
              'receives the late reply of the old one (counterexample, C15.replyMisdelivered)'),
  ]


def models(prop, tier):
  if tier == 'quick':
    return [
      dict(module='KafkaWireCheck', cfg='KafkaWireCheck_q.cfg', workers=8,
           what='round trip, Check operators accept/reject, code-shaped writer = reference on: topics <= 1 byte, '
                '4 partitions, 3 acks, <= 2 payloads of <= 2 bytes, 3 correlation ids, 2 client ids; produce / '
                'metadata responses with <= 2 topics/brokers x <= 2 partitions'),
      dict(module='KafkaWireCheck', cfg='KafkaWireCheck_asis.cfg', workers=2, expect_violation='ImplAgrees',
           what='code-shaped _BuildHeader as of the snapshot (text client id packed with %ds): cannot be packed'),
    ] + _corr_models('KafkaCorr_q.cfg', '3 requests')
  return [
    dict(module='KafkaWireCheck', cfg='KafkaWireCheck_t.cfg', workers=12, timeout=3000,
         what='as quick with 5 topics (<= 2 bytes), 7 partitions, <= 3 payloads of <= 2 bytes, 5 correlation ids'),
    dict(module='KafkaWireCheck', cfg='KafkaWireCheck_asis.cfg', workers=2, expect_violation='ImplAgrees',
         what='code-shaped _BuildHeader as of the snapshot: cannot be packed'),
  ] + _corr_models('KafkaCorr_t.cfg', '4 requests')


# ------------------------------------------------------------------ broker-side encoder (protocol guide)
def _kstr(b):
  return struct.pack('!h', len(b)) + b


def _i32arr(a):
  return struct.pack('!i', len(a)) + b''.join(struct.pack('!i', x) for x in a)


def broker_produce_response(corr, topics):
  """topics: [[name, [[partition, error, offset], ...]], ...] -> message bytes (without the size prefix)."""
  out = struct.pack('!i', corr) + struct.pack('!i', len(topics))
  for name, parts in topics:
    out += _kstr(bytes(bytearray(name))) + struct.pack('!i', len(parts))
    for partition, error, offset in parts:
      out += struct.pack('!ihq', partition, error, offset)
  return out


def broker_metadata_response(corr, brokers, topics):
  """brokers: [[node_id, host, port]]; topics: [[error, name, [[error, id, leader, replicas, isr]]]]."""
  out = struct.pack('!i', corr) + struct.pack('!i', len(brokers))
  for node_id, host, port in brokers:
    out += struct.pack('!i', node_id) + _kstr(bytes(bytearray(host))) + struct.pack('!i', port)
  out += struct.pack('!i', len(topics))
  for error, name, parts in topics:
    out += struct.pack('!h', error) + _kstr(bytes(bytearray(name))) + struct.pack('!i', len(parts))
    for perr, pid, leader, replicas, isr in parts:
      out += struct.pack('!hii', perr, pid, leader) + _i32arr(replicas) + _i32arr(isr)
  return out


def broker_read_correlation_id(frame):
  """Request = size:4 api:2 version:2 correlation:4 ... (the peer reads the id it must echo)."""
  return struct.unpack('!i', frame[8:12])[0]


# ------------------------------------------------------------------ input generators
def _bytes(rng, n):
  return [rng.randint(0, 255) for _ in range(n)]


def _name(rng, cls='ascii'):
  k = rng.random()
  if cls == 'long':
    return [rng.choice(b'abcxyz019._-') for _ in range(rng.choice([127, 128, 255, 256, 1000]))]
  if k < 0.1:
    return []
  if k < 0.7 or cls == 'ascii':
    return [rng.choice(b'abcdefghijklmnopqrstuvwxyzABCXYZ0123456789._-') for _ in range(rng.choice([1, 2, 6, 10, 42]))]
  if k < 0.85:
    return list(''.join(rng.choice(u'éü€中\U0001f600a-') for _ in range(rng.randint(1, 8))).encode('utf-8'))
  return _bytes(rng, rng.randint(1, 12))


def _pick(rng, i, boundary, lo, hi):
  if i < len(boundary):
    return boundary[i]
  return rng.choice([rng.randint(lo, hi), rng.choice(boundary), rng.randint(lo, min(hi, lo + 70000))])


def _payloads(rng, cls):
  if cls == 'big':
    return [_bytes(rng, rng.choice([255, 256, 1000, 4096])) for _ in range(rng.choice([1, 2]))]
  k = rng.random()
  if k < 0.08:
    return []
  if k < 0.16:
    return [[] for _ in range(rng.randint(1, 3))]
  n = rng.choice([1, 1, 2, 3, 5])
  return [_bytes(rng, rng.choice([0, 1, 2, 3, 4, 7, 8, 15, 16, 31, 32, 63, 64])) for _ in range(n)]


def _req_rec(rng, i, cls):
  return {'k': 'req', 'topic': _name(rng, 'long' if cls == 'long' else 'mixed'),
          'partition': _pick(rng, i, I32_BOUNDARY, 0, (1 << 31) - 1),
          'acks': rng.choice([-1, 0, 1, 1, 2]), 'acks_kw': rng.random() < 0.5,
          'payloads': _payloads(rng, cls), 'corr': _pick(rng, i, TAG_BOUNDARY, 0, (1 << 24) - 1)}


def _i64(rng):
  return rng.choice(I64_BOUNDARY) if rng.random() < 0.5 else rng.randint(0, (1 << 63) - 1)


def _distinct(rng, n, gen, key=lambda x: repr(x)):
  out, seen, tries = [], set(), 0
  while len(out) < n and tries < 100:
    tries += 1
    x = gen()
    if key(x) in seen:
      continue
    seen.add(key(x))
    out.append(x)
  return out


def _presp_rec(rng):
  topics = []
  for name in _distinct(rng, rng.choice([0, 1, 1, 2, 3]), lambda: _name(rng, 'mixed')):
    pids = _distinct(rng, rng.choice([0, 1, 1, 2, 3]), lambda: rng.choice(I32_BOUNDARY + [rng.randint(0, 1000)]))
    topics.append([name, [[p, rng.choice([0, 0, 0, -1, 1, 3, 5, 6, 7, 16, 32767]), _i64(rng)] for p in pids]])
  return {'k': 'presp', 'corr': rng.choice(TAG_BOUNDARY + [rng.randint(0, (1 << 24) - 1)]), 'topics': topics}


def _mresp_rec(rng):
  ids = _distinct(rng, rng.choice([0, 1, 2, 3, 5]), lambda: rng.choice([0, 1, 2, 3, 255, 256, 1001, (1 << 31) - 1]))
  brokers = [[i, _name(rng, 'mixed'), rng.choice([0, 1, 9092, 15063, 65535, (1 << 31) - 1])] for i in ids]
  topics = []
  for name in _distinct(rng, rng.choice([0, 1, 1, 2, 3]), lambda: _name(rng, 'mixed')):
    pids = _distinct(rng, rng.choice([0, 1, 2, 3]), lambda: rng.choice([0, 1, 2, 3, 255, 256, 65536, (1 << 31) - 1]))
    parts = []
    for p in pids:
      leader = rng.choice(ids + [-1]) if ids else -1
      reps = [rng.choice(ids + [7]) for _ in range(rng.choice([0, 1, 2, 3]))] if ids else []
      isr = [x for x in reps if rng.random() < 0.7]
      parts.append([rng.choice([0, 0, 5, 9, -1]), p, leader, reps, isr])
    topics.append([rng.choice([0, 0, 3, 5, -1]), name, parts])
  return {'k': 'mresp', 'corr': rng.choice(TAG_BOUNDARY), 'brokers': brokers, 'topics': topics}


def _route_script(rng):
  n = rng.choice([2, 3, 4, 5, 6])
  reqs = []
  for i in range(n):
    r = _req_rec(rng, 99, 'small')
    r['payloads'] = r['payloads'][:2]
    while True:      # distinct ids: the harness only chooses which fresh tag the pool hands out next
      r['corr'] = _pick(rng, 99, [2, 255, 256, 65535, 65536, (1 << 24) - 2], 2, (1 << 24) - 2)
      if all(r['corr'] != q['corr'] for q in reqs):
        break
    reqs.append(r)
  order = list(range(n))
  rng.shuffle(order)
  drop = set(i for i in range(n) if rng.random() < 0.2)
  replies = [{'req': i, 'error': rng.choice([0, 0, 0, 3, 6]), 'offset': 1000 + 17 * i + rng.randint(0, 9) * 100000}
             for i in order if i not in drop]
  if rng.random() < 0.4:
    replies.insert(rng.randint(0, len(replies)), {'req': -1, 'corr': rng.choice([0, 1, 77777, (1 << 24) - 1]),
                                                  'error': 0, 'offset': 4242})
  return {'mode': 'route', 'cls': 'route', 'reqs': reqs, 'replies': replies,
          'batch': rng.choice([1, 1, 2, 99])}


def _retry_script(rng, i):
  """A small cluster, a few sequential Put()s; per Put the fate of its successive produce requests."""
  nb = rng.choice([1, 1, 2, 3])
  brokers = [[n + 1, list(('broker%d' % (n + 1)).encode()), 9092 + n] for n in range(nb)]
  topics = []
  for name in _distinct(rng, rng.choice([1, 1, 2]), lambda: _name(rng, 'ascii') or [116]):
    np_ = rng.choice([1, 1, 1, 2, 3])
    pids = _distinct(rng, np_, lambda: rng.choice([0, 1, 2, 7, 255, 65536]))
    topics.append([name, [[p, rng.choice(brokers)[0]] for p in pids]])
  fates = [[], [6], [3], [8], [6], ['drop'], [6, 6], [3, 8], [7], ['drop', 6]]
  puts = []
  for j in range(rng.choice([2, 3, 4])):
    t = rng.choice(topics)
    puts.append({'topic': t[0], 'payloads': _payloads(rng, 'big' if rng.random() < 0.1 else 'small'),
                 'acks': rng.choice([-1, 0, 1, 1, 2]), 'acks_kw': rng.random() < 0.5,
                 'fate': fates[(i + j) % len(fates)] if j > 0 or i % 3 == 0 else rng.choice(fates),
                 'gap_ms': rng.choice([0, 0, 50, 2000, 11000])})
  return {'mode': 'retry', 'cls': 'retry', 'brokers': brokers, 'topics': topics, 'puts': puts,
          'timeout': rng.choice([3, 5]), 'rnd': rng.randint(0, 1 << 30)}


LATE_TIMEOUTS = [50, 100, 100, 200, 300]


def _late_script(rng, i):
  """One live connection, requests with their own deadlines, a broker that holds replies.  The script is a
  list of ops interpreted by _run_late:
    ['req', r, api, topic, partition, acks, payloads, T]   issue request r (api 0 produce / 3 metadata; T ms, 0: none)
    ['adv', ms]             let virtual time pass (everything due runs)
    ['reply', r, error]     the broker answers the wire request of r now (whether or not r has timed out)
    ['dup', r, error]       ... a second time (only ever generated right after the first answer)
    ['unknown', corr, error] a reply to no request
    ['atdl', r, error, pre] the reply to r reaches the client at the very instant r's deadline timer is due:
                            pre >= 0: the reply arrives, `pre` callbacks of the client run, then the timer
                            fires, then the rest; pre < 0: the timer fires, -pre - 1 callbacks run, the reply arrives
    ['run']                 quiesce at the current instant (replies not followed by it arrive in one segment)
  """
  ops = []
  st = {'n': 0, 'now': 0, 'reqs': {}, 'last_reply': None}
  topics = [_name(rng, 'ascii') or [116] for _ in range(3)]

  def issue(T=None, api=None):
    st['n'] += 1
    r = st['n']
    if api is None:
      api = 3 if rng.random() < 0.2 else 0
    if T is None:
      T = rng.choice(LATE_TIMEOUTS + [0, 0, 1000])
    marker = list(('r%d-' % r).encode()) + _bytes(rng, rng.choice([0, 1, 3, 8]))
    payloads = [marker] + ([_bytes(rng, rng.choice([0, 2, 5]))] if rng.random() < 0.25 else [])
    ops.append(['req', r, api, rng.choice(topics), rng.choice([0, 1, 2, 7, 255, 65536]), rng.choice([-1, 0, 1, 1, 2]),
                payloads if api == 0 else [], T])
    st['reqs'][r] = {'dl': st['now'] + T if T else None, 'ans': False}
    st['last_reply'] = None
    return r

  def adv(ms):
    ops.append(['adv', ms])
    st['now'] += ms

  def err():
    return rng.choice([0, 0, 0, 0, 3, 6, 7])

  def reply(r, run=True):
    ops.append(['reply', r, err()])
    st['reqs'][r]['ans'] = True
    st['last_reply'] = r
    if run:
      ops.append(['run'])

  def unanswered():
    return [r for r, q in st['reqs'].items() if not q['ans']]

  def timed_out():
    return [r for r in unanswered() if st['reqs'][r]['dl'] is not None and st['reqs'][r]['dl'] < st['now']]

  shape = i % 6
  if shape in (0, 1):
    # a request times out, further requests are issued, only then does the broker answer the old one
    for _ in range(rng.choice([1, 1, 2])):
      issue(T=rng.choice([50, 100, 200]), api=0 if shape == 0 else None)
    if rng.random() < 0.4:
      issue(T=0)
    adv(rng.choice([210, 250, 400]))
    for _ in range(rng.choice([1, 2, 3])):
      issue(T=rng.choice([0, 0, 1000, 300]))
      if rng.random() < 0.3:
        adv(rng.choice([10, 30]))
    late = timed_out()
    rng.shuffle(late)
    for r in late[:rng.choice([1, 2])]:
      reply(r, run=rng.random() < 0.7)
    ops.append(['run'])
  elif shape == 2:
    # the reply and the deadline fall on the same instant
    a = issue(T=rng.choice([50, 100, 200]))
    if rng.random() < 0.5:
      issue(T=rng.choice([0, 1000]))
    ops.append(['atdl', a, err(), rng.choice([0, 0, 1, 2, 3, -1, -1, -2, -3])])
    st['reqs'][a]['ans'] = True
    st['now'] = st['reqs'][a]['dl']
    for _ in range(rng.choice([1, 2])):
      issue()
  elif shape == 3:
    # a late reply followed at once by a duplicate of it, then new traffic
    a = issue(T=rng.choice([50, 100]))
    b = issue(T=rng.choice([0, 1000]))
    adv(rng.choice([120, 250]))
    reply(a)
    ops.append(['dup', a, err()])
    ops.append(['run'])
    issue()
    if rng.random() < 0.5:
      reply(b)
      ops.append(['dup', b, err()])
      ops.append(['run'])
  elif shape == 4:
    # a stalled broker: a burst with staggered deadlines, everything answered at the end in one go
    for _ in range(rng.choice([3, 4, 5])):
      issue(T=rng.choice([50, 100, 200, 300, 0]))
      adv(rng.choice([0, 10, 40, 90]))
    adv(rng.choice([60, 150, 350]))
    for _ in range(rng.choice([1, 2])):
      issue(T=rng.choice([0, 1000]))
    order = unanswered()
    rng.shuffle(order)
    for r in order:
      reply(r, run=False)
    ops.append(['run'])
  # random continuation (shape 5: everything random)
  for _ in range(rng.choice([4, 6, 9, 12]) if shape == 5 else rng.choice([2, 4, 6])):
    k = rng.random()
    un = unanswered()
    if k < 0.3 and st['n'] < 9:
      issue()
    elif k < 0.5:
      adv(rng.choice([10, 40, 60, 110, 260]))
    elif k < 0.8 and un:
      reply(rng.choice(un), run=rng.random() < 0.75)
    elif k < 0.86 and un:
      cand = [r for r in un if st['reqs'][r]['dl'] is not None and st['reqs'][r]['dl'] > st['now']]
      if cand:
        a = rng.choice(cand)
        ops.append(['atdl', a, err(), rng.choice([0, 0, 1, 2, -1, -2])])
        st['reqs'][a]['ans'] = True
        st['now'] = st['reqs'][a]['dl']
        st['last_reply'] = None
    elif k < 0.92 and st['last_reply'] is not None:
      ops.append(['dup', st['last_reply'], err()])
      ops.append(['run'])
    elif k < 0.97:
      ops.append(['unknown', rng.choice([0, 1, 77777, (1 << 24) - 1, 900]), err()])
      ops.append(['run'])
  # the broker finally answers most of what is left, in any order
  rest = unanswered()
  rng.shuffle(rest)
  for r in rest:
    if rng.random() < 0.8:
      reply(r, run=rng.random() < 0.6)
  ops.append(['run'])
  return {'mode': 'late', 'cls': 'late', 'ops': ops, 'tag0': rng.choice([1, 1, 1, 254, 65534, (1 << 24) - 40]),
          'chunk': rng.choice([0, 0, 0, 1, 5])}


def _stream_script(rng, i):
  """One live connection with a send buffer (room / low-water mark): large (> 1400 byte) and small produce
  requests and metadata requests issued from concurrent greenlets at scripted instants relative to a write
  that stalls part-way.  Ops interpreted by _run_stream:
    ['req', r, api, topic, partition, acks, payloads, T]  a caller greenlet is spawned (it runs when the loop does)
    ['room', n]    the send buffer has n free bytes from now on (None: unlimited)
    ['drain', n]   the peer reads n bytes: space frees up; a blocked writer is woken (by a loop callback) once
                   the space reaches the low-water mark
    ['step', k]    run k single callbacks      ['run'] quiesce      ['adv', ms] let time pass
    ['answer']     the broker answers everything it has received so far
    ['reset']      the connection is reset by the peer
  """
  ops = []
  st = {'n': 0}
  topics = [_name(rng, 'ascii') or [116] for _ in range(3)]

  def req(size=None, api=0, T=0):
    st['n'] += 1
    r = st['n']
    marker = list(('s%d-' % r).encode())
    if api != 0:
      payloads = []
    elif size is None:
      payloads = [marker + _bytes(rng, rng.choice([0, 1, 5, 20, 60]))] + ([_bytes(rng, 3)] if rng.random() < 0.2 else [])
    elif rng.random() < 0.25:
      payloads = [marker + _bytes(rng, size // 2), _bytes(rng, size - size // 2)]
    else:
      payloads = [marker + _bytes(rng, size)]
    ops.append(['req', r, api, rng.choice(topics), rng.choice([0, 1, 7, 255, 65536]), rng.choice([-1, 0, 1, 1, 2]),
                payloads, T])

  def small():
    req(api=3 if rng.random() < 0.2 else 0)

  def big():
    return rng.choice([1330, 1340, 1400, 1450, 1500, 1700, 1700, 4030, 4100])

  room = rng.choice([64, 256, 512, 700, 1000])
  lowat = rng.choice([1, 1, 1, 64, 300])
  shape = i % 6
  # some ordinary traffic first
  for _ in range(rng.choice([0, 1, 2])):
    small()
  ops.append(['run'])
  if rng.random() < 0.5:
    ops.append(['answer'])
    ops.append(['run'])
  ops.append(['room', room])
  if shape == 2:
    # requests handed in at the same instant, before anything is written
    small()
    req(big())
    small()
    ops.append(['run'])
  else:
    req(big() if shape != 5 else rng.choice([1250, 1300, 1330]))
    ops.append(['run'])                     # the write is accepted in part and blocks
  free = rng.choice([100, 150, 200, 400, 400, 800, 2000])
  k = shape if shape != 2 else rng.choice([0, 1, 3, 4])
  if k == 0:                                # space frees up in the very instant another caller issues a request
    small()
    ops.append(['drain', free])
    ops.append(['step', rng.choice([1, 1, 2, 3])])
    if rng.random() < 0.5:
      small()
  elif k == 1:                              # ... the other way round
    ops.append(['drain', free])
    small()
    ops.append(['step', rng.choice([1, 2])])
    if rng.random() < 0.4:
      small()
  elif k == 3:                              # while the writer is blocked; space only later
    small()
    if rng.random() < 0.5:
      small()
    ops.append(['run'])
    ops.append(['drain', free])
    ops.append(['step', rng.choice([0, 1, 2])])
    if rng.random() < 0.5:
      small()
  elif k == 4:                              # a second large request queued behind the blocked one, small ones around
    req(big())
    ops.append(['step', rng.choice([0, 1, 3])])
    small()
    ops.append(['drain', free])
    small()
  else:                                     # 5: medium requests (below the single-segment size) and small ones
    small()
    ops.append(['drain', free])
    ops.append(['step', 1])
    req(rng.choice([600, 1000, 1300]))
    small()
  ops.append(['run'])
  # the peer keeps reading in pieces while more requests come in
  for _ in range(rng.choice([1, 2, 3])):
    ops.append(['drain', rng.choice([100, 300, 700, 1500])])
    if rng.random() < 0.5:
      ops.append(['step', rng.choice([1, 2])])
    if rng.random() < 0.5 and st['n'] < 8:
      small()
    if rng.random() < 0.3:
      ops.append(['run'])
  if i % 11 == 7:
    ops.append(['reset'])
    ops.append(['run'])
  ops.append(['drain', None])
  ops.append(['run'])
  ops.append(['answer'])
  ops.append(['run'])
  if rng.random() < 0.5:
    small()
    ops.append(['run'])
  return {'mode': 'stream', 'cls': 'stream', 'ops': ops, 'lowat': lowat, 'tag0': rng.choice([1, 1, 254, 65534])}


LATE_BURSTS = [3, 12, 16, 17, 25, 40, 48]


def _late_burst_script(rng, i):
  """Bursts of concurrent requests on one connection (late-reply driver): a burst of n requests in flight, all
  but one answered, then a bigger burst while that one is still outstanding, then everything is answered.
  Small payloads: the traces stay compact."""
  ops = []
  st = {'n': 0}
  topic = _name(rng, 'ascii') or [116]

  def burst(n, T=0):
    out = []
    for _ in range(n):
      st['n'] += 1
      r = st['n']
      ops.append(['req', r, 0, topic, rng.choice([0, 1, 7]), 1, [list(('r%d-' % r).encode())], T])
      out.append(r)
    return out

  k = i % len(LATE_BURSTS)
  sizes = [LATE_BURSTS[k]]
  if sizes[0] <= 16 and rng.random() < 0.6:
    sizes.append(rng.choice([x for x in LATE_BURSTS if x > sizes[0]][:2]))       # a chain: 3 -> 12 -> ...
  sizes.append(sizes[-1] + rng.choice([1, 2, 8]) if sizes[-1] >= 40 else
               rng.choice([x for x in LATE_BURSTS if x > sizes[-1]][:2]))
  keep = []
  for j, n in enumerate(sizes):
    rs = burst(n)
    ops.append(['run'])
    if j == len(sizes) - 1:
      break
    left = rng.choice(rs[:3] + rs[-2:] + [rng.choice(rs)])
    keep.append(left)
    ops.append(['replyall', rng.choice(['fifo', 'fifo', 'rev', rng.randint(1, 1 << 20)]), list(keep),
                rng.choice([0, 1, 5])])
    if rng.random() < 0.3:
      ops.append(['adv', rng.choice([10, 100])])
  ops.append(['replyall', rng.choice(['fifo', 'fifo', rng.randint(1, 1 << 20)]), [], rng.choice([0, 1, 7])])
  return {'mode': 'late', 'cls': 'late-burst', 'ops': ops, 'tag0': 1, 'chunk': 0}


def _late_buffered_script(rng, i):
  """Late-reply oracle on a connection with a send buffer: several small requests are handed in at the same
  instant (they wait in the send queue together), their combined size exceeds the free space of the send
  buffer, the broker answers every request as soon as it has received it completely - also while the rest of
  the client's write is still blocked - and the peer then reads on in pieces."""
  ops = []
  st = {'n': 0}
  topic = _name(rng, 'ascii') or [116]

  def req(T=0, extra=None):
    st['n'] += 1
    r = st['n']
    pay = list(('r%d-' % r).encode()) + _bytes(rng, rng.choice([0, 4, 30, 100]) if extra is None else extra)
    ops.append(['req', r, 0, topic, rng.choice([0, 1, 7]), rng.choice([-1, 1, 2]), [pay], T])

  for _ in range(rng.choice([0, 1, 2])):
    req()
  ops.append(['run'])
  ops.append(['room', rng.choice([100, 150, 200, 300, 450])])
  shape = i % 3
  if shape == 0:            # a burst in one instant
    for _ in range(rng.choice([2, 3, 4, 6])):
      req(T=rng.choice([0, 0, 0, 500, 1000]))
  elif shape == 1:          # queued behind a blocked big write
    req(extra=rng.choice([500, 900]))
    ops.append(['run'])
    for _ in range(rng.choice([2, 3, 5])):
      req(T=rng.choice([0, 0, 1000]))
  else:                     # two instants
    req()
    req()
    ops.append(['step', rng.choice([1, 2, 4])])
    req(T=rng.choice([0, 500]))
    req()
  ops.append(['run'])
  for _ in range(rng.choice([2, 3, 4])):
    ops.append(['drain', rng.choice([50, 120, 200, 400])])
    if rng.random() < 0.5:
      ops.append(['step', rng.choice([1, 2, 3])])
      if st['n'] < 12 and rng.random() < 0.5:
        req()
    ops.append(['run'])
    if rng.random() < 0.3:
      ops.append(['adv', rng.choice([10, 100])])
  ops.append(['drain', None])
  ops.append(['run'])
  req()
  ops.append(['run'])
  return {'mode': 'late', 'cls': 'late-buffered', 'ops': ops, 'tag0': rng.choice([1, 1, 254]), 'chunk': rng.choice([0, 0, 3]),
          'buffered': 1, 'auto': 1, 'auto_errors': [0, 0, 3, 0, 6], 'lowat': rng.choice([1, 1, 32])}


STREAM_BODY_TARGETS = [4095, 4096, 16383, 16384, 65535, 65536, 65537, 66000, 81920]


def _stream_big_script(rng, i):
  """Stream scenario around ONE big produce request whose body size sits at a plausible threshold (4 KiB, 16 KiB,
  64 KiB +- 1, 66000, 80 KiB): the send buffer has fewer free bytes than the 20 byte request header needs when
  the request starts (so that already the write of the header can block), the request's own deadline falls
  inside that block (or before it is dequeued, or while its body is being written), other requests are queued
  behind it and issued after it; then the peer reads in pieces."""
  ops = []
  st = {'n': 0}
  topic = _name(rng, 'ascii') or [116]

  def req(api=0, T=0, body=None):
    st['n'] += 1
    r = st['n']
    marker = list(('s%d-' % r).encode())
    if api != 0:
      payloads = []
    elif body is None:
      payloads = [marker + _bytes(rng, rng.choice([0, 2, 9, 40]))]
    else:
      # body = acks 2 + timeout 4 + topics 4 + topic 2+len + partitions 4 + partition 4 + set size 4 + 26 per message
      n = body - 50 - len(topic)
      if rng.random() < 0.25:
        payloads = [marker + _bytes(rng, n - 26 - 7 - len(marker)), _bytes(rng, 7)]
      else:
        payloads = [marker + _bytes(rng, n - len(marker))]
    ops.append(['req', r, api, topic, rng.choice([0, 1, 7, 65536]), rng.choice([-1, 1, 1, 2]), payloads, T])

  def small():
    req(api=3 if rng.random() < 0.2 else 0)

  target = STREAM_BODY_TARGETS[i % len(STREAM_BODY_TARGETS)]
  shape = (i // len(STREAM_BODY_TARGETS)) % 4
  for _ in range(rng.choice([0, 1, 2])):
    small()
  ops.append(['run'])
  T = rng.choice([50, 100, 100, 200])
  if shape in (0, 1):
    # the header alone does not fit: the deadline fires while the send loop is blocked in its first bytes
    ops.append(['room', rng.choice([0, 0, 3, 4, 10, 19])])
    req(T=T, body=target)
    if shape == 1:
      small()
      small()
    ops.append(['run'])
    ops.append(['adv', T + rng.choice([10, 60])])
  elif shape == 2:
    # the header fits, the body blocks; the deadline fires while the body is being written
    ops.append(['room', rng.choice([20, 21, 64, 700])])
    req(T=T, body=target)
    small()
    ops.append(['run'])
    ops.append(['adv', T + 20])
  else:
    # queued behind a blocked small request: the deadline fires before the big one is dequeued (never written),
    # a second big one without deadline follows
    ops.append(['room', rng.choice([0, 5, 19])])
    small()
    req(T=T, body=target)
    req(T=0, body=rng.choice([4096, 16384]) if target > 16384 else target)
    ops.append(['run'])
    ops.append(['adv', T + 20])
  for _ in range(rng.choice([1, 2])):
    small()
  ops.append(['run'])
  for d in ([rng.choice([1, 10, 16, 17, 20, 25])] if rng.random() < 0.7 else []) + [rng.choice([100, 5000, 20000])]:
    ops.append(['drain', d])
    ops.append(['step', rng.choice([1, 2, 3])])
    if rng.random() < 0.4:
      small()
    ops.append(['run'])
  ops.append(['drain', None])
  ops.append(['run'])
  ops.append(['answer'])
  ops.append(['run'])
  small()
  ops.append(['run'])
  return {'mode': 'stream', 'cls': 'stream-big', 'ops': ops, 'lowat': rng.choice([1, 1, 1, 16, 64]),
          'tag0': rng.choice([1, 254, 65534])}


def cases(prop, tier, seed):
  rng = random.Random(104729 * int(seed) + 15)
  mult = 1 if tier == 'quick' else 4       # thorough: 4x the traces, 3x the records per trace
  per = 10 if tier == 'quick' else 30
  out = []
  quick = tier == 'quick'
  plan = [('small', 72 * mult, per), ('long', 4 * mult, 4), ('big', 6 if quick else 40, 3 if quick else 8)]
  for cls, n, k in plan:
    for c in range(n):
      recs = [_req_rec(rng, i if c % 4 == 0 else 99, cls) for i in range(k)]
      if c % 8 == 0:
        recs.append({'k': 'meta', 'corr': _pick(rng, 99, TAG_BOUNDARY, 0, (1 << 24) - 1)})
      out.append({'mode': 'direct', 'cls': 'req-' + cls, 'recs': recs})
  # systematic: the bounded domain of KafkaWireCheck on the real code
  pset = [[], [0], [255], [0, 0], [0, 255], [255, 0], [255, 255]]
  plists = [[]] + [[a] for a in pset] + [[a, b] for a in pset for b in pset]
  sysrecs = []
  for i, pl in enumerate(plists):
    sysrecs.append({'k': 'req', 'topic': [[], [65], [255]][i % 3], 'partition': [0, 256, 65536, (1 << 31) - 1][i % 4],
                    'acks': [-1, 0, 1][i % 3], 'acks_kw': bool(i % 2), 'payloads': pl,
                    'corr': [0, 65536, (1 << 24) - 1][i % 3]})
  for t in ([], [65], [255]):
    for pa in (0, 256, 65536, (1 << 31) - 1):
      for a in (-1, 0, 1):
        sysrecs.append({'k': 'req', 'topic': t, 'partition': pa, 'acks': a, 'acks_kw': False, 'payloads': [[0, 255]],
                        'corr': TAG_BOUNDARY[len(sysrecs) % len(TAG_BOUNDARY)]})
  for i in range(0, len(sysrecs), per):
    out.append({'mode': 'direct', 'cls': 'systematic', 'recs': sysrecs[i:i + per]})
  for c in range(14 * mult):
    out.append({'mode': 'direct', 'cls': 'presp', 'recs': [_presp_rec(rng) for _ in range(per)]})
  for c in range(14 * mult):
    out.append({'mode': 'direct', 'cls': 'mresp', 'recs': [_mresp_rec(rng) for _ in range(per)]})
  for c in range(40 * (1 if tier == 'quick' else 10)):
    out.append(_route_script(rng))
  for c in range(60 * (1 if tier == 'quick' else 10)):
    out.append(_retry_script(rng, c))
  # own generator: the scripts of the earlier classes do not depend on how many late scripts there are
  lrng = random.Random(7919 * int(seed) + 1515)
  for c in range(90 * (1 if tier == 'quick' else 10)):
    out.append(_late_script(lrng, c))
  xrng = random.Random(4099 * int(seed) + 1518)
  bursts = [_late_burst_script(xrng, c + int(seed)) for c in range(14 if tier == 'quick' else 70)]
  for c in range(30 if tier == 'quick' else 240):
    out.append(_late_buffered_script(xrng, c))
  srng = random.Random(6151 * int(seed) + 1516)
  for c in range(60 * (1 if tier == 'quick' else 8)):
    out.append(_stream_script(srng, c))
  # big requests (4 KiB - 80 KiB): spread over the list, one per validation batch (they dominate a batch's TLC time)
  brng = random.Random(3571 * int(seed) + 1517)
  nbig = 12 if tier == 'quick' else 72
  big = [_stream_big_script(brng, c + (int(seed) % 3) * 4) for c in range(nbig)]
  # the heavy traces (big requests, bursts of up to ~100 requests) are spread evenly over the list
  heavy = []
  for c in range(max(len(big), len(bursts))):
    heavy += big[c:c + 1] + bursts[c:c + 1]
  gap = max(1, len(out) // len(heavy))
  for c, sc in enumerate(heavy):
    out.insert(min(len(out), c * (gap + 1)), sc)
  return out


# ------------------------------------------------------------------ drivers
def _limbs(x):
  x &= (1 << 64) - 1
  return [(x >> 48) & 0xffff, (x >> 32) & 0xffff, (x >> 16) & 0xffff, x & 0xffff]


def _b(x):
  return bytes(bytearray(x))


class _FakeSocket(object):
  host = 'broker'
  port = 9092

  def __init__(self):
    from gevent.event import Event
    self.written = []
    self.rbuf = b''
    self.ev = Event()
    self.closed = False

  def open(self):
    pass

  def isOpen(self):
    return not self.closed

  def close(self):
    self.closed = True
    self.ev.set()

  def write(self, b):
    self.written.append(bytes(b))

  def feed(self, b):
    self.rbuf += b
    self.ev.set()

  def readAll(self, n):
    while len(self.rbuf) < n:
      if self.closed:
        raise EOFError('closed')
      self.ev.clear()
      self.ev.wait()
    r, self.rbuf = self.rbuf[:n], self.rbuf[n:]
    return r


def _client_id(transport):
  cid = getattr(transport, 'CLIENT_ID', 'scales')
  if not isinstance(cid, bytes):
    cid = cid.encode('utf-8')
  return list(bytearray(cid))


def _put_msg(rec):
  from scales.constants import MessageProperties
  from scales.kafka.sink import KafkaEndpoint
  from scales.message import MethodCallMessage
  topic = _b(rec['topic'])
  payloads = [_b(p) for p in rec['payloads']]
  if rec.get('acks_kw'):
    msg = MethodCallMessage(None, 'Put', (topic, payloads), {'acks': rec['acks']})
  else:
    msg = MethodCallMessage(None, 'Put', (topic, payloads, rec['acks']), {})
  msg.properties[MessageProperties.Endpoint] = KafkaEndpoint('broker', 9092, rec['partition'])
  return msg


def _produce_out(ret):
  """What the real decoder returned for a produce response -> (raised, records)."""
  if ret is None:
    return 'NoResult', []
  if getattr(ret, 'error', None) is not None:
    return type(ret.error).__name__, []
  out = []
  for r in ret.return_value:
    out.append({'topic': list(bytearray(r.topic)), 'partition': int(r.partition), 'error': int(r.error),
                'off': _limbs(int(r.offset))})
  return 'none', out


def _metadata_out(ret):
  """What the real decoder returned for a metadata response -> (raised, brokers, topics)."""
  if ret is None:
    return 'NoResult', [], []
  if getattr(ret, 'error', None) is not None:
    return type(ret.error).__name__, [], []
  md = ret.return_value
  brokers, topics = [], []
  for b in md.brokers.values():
    brokers.append({'id': int(b.nodeId), 'host': list(bytearray(b.host)), 'port': int(b.port)})
  for name, parts in md.topics.items():
    ps = []
    for p in parts.values():
      has = hasattr(p, 'replicas') and hasattr(p, 'isr')
      ps.append({'id': int(p.partition_id), 'leader': int(p.leader), 'hasRepl': has,
                 'replicas': [int(x) for x in p.replicas] if has else [],
                 'isr': [int(x) for x in p.isr] if has else []})
    topics.append({'name': list(bytearray(name)), 'parts': ps})
  return 'none', brokers, topics


def _run_direct(script, loop):
  from scales.compat import BytesIO
  from scales.constants import TransportHeaders
  from scales.message import MethodCallMessage
  from scales.kafka.protocol import KafkaProtocol, MessageType
  from scales.kafka.sink import KafkaTransportSink
  transport = KafkaTransportSink(_FakeSocket(), 'svc')
  proto = KafkaProtocol()
  ev = []
  for rec in script['recs']:
    k = rec['k']
    if k in ('req', 'meta'):
      if k == 'req':
        msg = _put_msg(rec)
        e = {'e': 'Req', 'topic': rec['topic'], 'partition': rec['partition'], 'acks': rec['acks'],
             'payloads': rec['payloads']}
      else:
        msg = MethodCallMessage(None, '__metadata', [], {})      # as KafkaRouterSink asks for the cluster metadata
        e = {'e': 'Hdr', 'api': 3}
      e.update({'corr': rec['corr'], 'cid': _client_id(transport), 'frame': [], 'braised': 'none', 'hraised': 'none'})
      buf, headers = BytesIO(), {}
      try:
        proto.SerializeMessage(msg, buf, headers)
      except Exception as ex:
        e['braised'] = type(ex).__name__
      if e['braised'] == 'none':
        try:
          hdr = transport._BuildHeader(rec['corr'], headers[TransportHeaders.MessageType], buf.tell())
          e['frame'] = list(bytearray(hdr + buf.getvalue()))
        except Exception as ex:
          e['hraised'] = type(ex).__name__
      ev.append(e)
    elif k == 'presp':
      data = broker_produce_response(rec['corr'], rec['topics'])
      e = {'e': 'PResp', 'bytes': list(bytearray(data)), 'raised': 'none', 'out': []}
      try:
        e['raised'], e['out'] = _produce_out(proto.DeserializeMessage(BytesIO(data), MessageType.ProduceRequest))
      except Exception as ex:
        e['raised'] = type(ex).__name__
      ev.append(e)
    elif k == 'mresp':
      data = broker_metadata_response(rec['corr'], rec['brokers'], rec['topics'])
      e = {'e': 'MResp', 'bytes': list(bytearray(data)), 'raised': 'none', 'brokers': [], 'topics': []}
      try:
        e['raised'], e['brokers'], e['topics'] = _metadata_out(
          proto.DeserializeMessage(BytesIO(data), MessageType.MetadataRequest))
      except Exception as ex:
        e['raised'] = type(ex).__name__
      ev.append(e)
  return ev, {'mode': 'direct'}


def _run_route(script, loop):
  from scales.sink import ClientMessageSink, ClientMessageSinkStack
  from scales.kafka.sink import KafkaSerializerSink, KafkaTransportSink

  class Prov(object):
    def __init__(self, s):
      self.s = s

    def CreateSink(self, props):
      return self.s

  class Reply(ClientMessageSink):
    def __init__(self):
      super(Reply, self).__init__()
      self.got = []

    def AsyncProcessRequest(self, *a):
      pass

    def AsyncProcessResponse(self, sink_stack, context, stream, msg):
      self.got.append(msg)

  sock = _FakeSocket()
  transport = KafkaTransportSink(sock, 'svc')
  open_ar = transport.Open()
  loop.run_until_idle()
  if not (open_ar.ready() and open_ar.successful()):
    raise RuntimeError('harness: kafka transport did not open over the fake socket: %r' % (open_ar.exception,))
  ser = KafkaSerializerSink(Prov(transport), None, {})
  cid = _client_id(transport)
  ev = []
  reqs = []
  for rec in script['reqs']:
    try:                                    # optional knob: the tag (correlation id) the pool hands out next
      pool = transport._tag_pool
      if not pool._set:
        pool._next = rec['corr'] - 1
    except AttributeError:
      pass
    reply = Reply()
    stack = ClientMessageSinkStack()
    stack.Push(reply, None)
    n0 = len(sock.written)
    e = {'e': 'Req', 'topic': rec['topic'], 'partition': rec['partition'], 'acks': rec['acks'],
         'payloads': rec['payloads'], 'corr': 0, 'cid': cid, 'frame': [], 'braised': 'none', 'hraised': 'none'}
    try:
      ser.AsyncProcessRequest(stack, _put_msg(rec), None, {})
      loop.run_until_idle()
    except Exception as ex:                 # the serializer sink reports its own failures on the stack,
      e['hraised'] = type(ex).__name__      # so what propagates comes from the transport (header builder)
    if e['hraised'] == 'none' and reply.got and reply.got[0].error is not None:
      e['braised'] = type(reply.got[0].error).__name__
    frames = sock.written[n0:]
    if e['hraised'] == 'none' and e['braised'] == 'none':
      if len(frames) != 1:
        raise RuntimeError('harness: expected one frame per request, got %d' % len(frames))
      e['frame'] = list(bytearray(frames[0]))
      e['corr'] = broker_read_correlation_id(frames[0])
      reqs.append({'reply': reply, 'frame': frames[0], 'rec': rec})
    ev.append(e)
    if e['frame'] == []:
      return ev, {'mode': 'route', 'aborted': 'request not written'}
  # the broker answers, in the scripted order
  wire = []
  for rp in script['replies']:
    if rp['req'] >= 0:
      rq = reqs[rp['req']]
      corr = broker_read_correlation_id(rq['frame'])
      topic, partition = rq['rec']['topic'], rq['rec']['partition']
    else:
      corr, topic, partition = rp['corr'], [120], 0
      if any(broker_read_correlation_id(q['frame']) == corr for q in reqs):
        continue
    wire.append(broker_produce_response(corr, [[topic, [[partition, rp['error'], rp['offset']]]]]))
  batch = script.get('batch', 1)
  i = 0
  while i < len(wire):
    chunk = wire[i:i + batch]
    sock.feed(b''.join(struct.pack('!i', len(m)) + m for m in chunk))
    loop.run_until_idle()
    i += batch
  got = []
  for rq in reqs:
    g = rq['reply'].got
    raised, out = _produce_out(g[0]) if g else ('none', [])
    got.append({'n': len(g), 'raised': raised, 'out': out})
  ev.append({'e': 'Route', 'reqs': [{'frame': list(bytearray(rq['frame']))} for rq in reqs],
             'replies': [list(bytearray(m)) for m in wire], 'got': got})
  return ev, {'mode': 'route', 'errors': [repr(x[1:3]) for x in loop.errors][:3]}


class _Net(object):
  """In-memory network + brokers for the retry mode.  Every buffer a client connection writes is kept
  verbatim (that is the request frame as the client framed it); the broker reads the api key, the
  correlation id and (for its produce reply) topic and partition at their fixed places with its own
  reader, independent of the size prefix, and answers on the same connection."""

  def __init__(self, script):
    self.script = script
    self.conns = []
    self.log = []             # [conn index, bytes written]
    self.fate = []            # fate of the successive produce requests of the current Put
    self.next_offset = 100

  def metadata(self, corr):
    by_id = dict((b[0], b) for b in self.script['brokers'])
    topics = [[0, name, [[0, pid, leader, [leader], [leader]] for pid, leader in parts]]
              for name, parts in self.script['topics']]
    return broker_metadata_response(corr, [by_id[i] for i in sorted(by_id)], topics)

  def on_write(self, conn, data):
    self.log.append([conn.index, data])
    if len(data) < 12:
      return
    api, = struct.unpack('!h', data[4:6])
    corr = broker_read_correlation_id(data)
    if api == 3:
      msg = self.metadata(corr)
    elif api == 0:
      try:
        cl, = struct.unpack('!h', data[12:14])
        p = 14 + cl + 2 + 4 + 4
        tl, = struct.unpack('!h', data[p:p + 2])
        topic = list(bytearray(data[p + 2:p + 2 + tl]))
        partition, = struct.unpack('!i', data[p + 2 + tl + 4:p + 2 + tl + 8])
      except struct.error:
        return                                   # nothing sensible to answer
      f = self.fate.pop(0) if self.fate else 0
      if f == 'drop':
        conn.peer_close()
        return
      self.next_offset += 1
      msg = broker_produce_response(corr, [[topic, [[partition, f, -1 if f else self.next_offset]]]])
    else:
      return
    conn.deliver(struct.pack('!i', len(msg)) + msg)


def _make_gsocket(net):
  from gevent.event import Event

  class FakeGSocket(object):
    def __init__(self, *a, **kw):
      self.rbuf = b''
      self.ev = Event()
      self.closed = False
      self.eof = False
      self.index = len(net.conns)
      self.addr = None
      net.conns.append(self)

    def connect(self, addr):
      self.addr = addr

    def setsockopt(self, *a):
      pass

    def close(self):
      self.closed = True
      self.ev.set()

    def peer_close(self):
      self.eof = True
      self.ev.set()

    def deliver(self, data):
      self.rbuf += data
      self.ev.set()

    def sendall(self, data):
      if self.closed or self.eof:
        raise IOError('connection closed')
      net.on_write(self, bytes(data))

    def send(self, data):
      self.sendall(data)
      return len(data)

    def recv(self, n):
      while not self.rbuf:
        if self.closed or self.eof:
          return b''
        self.ev.clear()
        self.ev.wait()
      r, self.rbuf = self.rbuf[:n], self.rbuf[n:]
      return r

    def recv_into(self, view, n=0):
      data = self.recv(n or len(view))
      view[:len(data)] = data
      return len(data)

  return FakeGSocket


def _drive(loop, until, chunk=5000, max_chunks=400):
  """Run the virtual loop up to time `until`.  Unlike loop.run_until this also lets time pass while the
  code spins at one instant (a sleep(0) retry loop starves no timer on a real clock): after `chunk` quanta
  without quiescence the clock moves to the next timer, which is fired ahead of the queued callbacks."""
  chunks = 0
  while chunks < max_chunks:
    r = loop.step(chunk)
    nxt = loop.next_timer_at()
    if r == 'idle':
      if nxt is None or nxt > until:
        break
      loop.advance_to(nxt)
      continue
    chunks += 1
    if loop.now() >= until:
      break
    loop.advance_to(min(nxt, until) if nxt is not None else until)
    while loop.step_timer() != 'idle':
      pass
  loop.advance_to(until)
  return chunks


def _run_retry(script, loop):
  import socket as _socket
  import gevent
  import scales.scales_socket as ss
  import scales.loadbalancer.base as lbbase
  import scales.loadbalancer.heap as lbheap
  from scales.kafka.builder import Kafka
  from scales.kafka.sink import KafkaTransportSink
  net = _Net(script)
  ss.gsocket = _make_gsocket(net)
  ss.ScalesSocket._resolveAddr = lambda self: [(_socket.AF_INET, _socket.SOCK_STREAM, 0, '', (self.host, self.port))]
  rnd = random.Random(script['rnd'])
  lbbase.random = rnd
  lbheap.random = rnd
  cid = _client_id(KafkaTransportSink)
  b0 = script['brokers'][0]
  uri = 'tcp://%s:%d' % (bytes(bytearray(b0[1])).decode(), b0[2])
  client = Kafka.NewBuilder().SetUri(uri).SetTimeout(script['timeout']).Build()
  loop.settle()
  parts_of = dict((bytes(bytearray(n)), [p for p, _ in ps]) for n, ps in script['topics'])
  ev = []
  outcomes = []
  busy = 0
  resent = 0
  earlier = []

  def _inputs(put):
    plist = parts_of.get(_b(put['topic']), [])
    return {'topic': put['topic'], 'partition': plist[0] if len(plist) == 1 else -1, 'acks': put['acks'],
            'payloads': put['payloads']}

  for put in script['puts']:
    if put['gap_ms']:
      busy += _drive(loop, loop.now() + put['gap_ms'] / 1000.0)
    net.fate = list(put['fate'])
    n0 = len(net.log)
    topic = _b(put['topic'])
    payloads = [_b(x) for x in put['payloads']]
    box = {}

    def call():
      try:
        if put['acks_kw']:
          box['ret'] = client.Put(topic, payloads, acks=put['acks'])
        else:
          box['ret'] = client.Put(topic, payloads, put['acks'])
      except BaseException as ex:
        box['exc'] = type(ex).__name__
    g = gevent.spawn(call)
    busy += _drive(loop, loop.now() + script['timeout'] + 1)
    if not g.dead:
      g.kill(block=False)
      loop.step(1000)
      box.setdefault('exc', 'harness-still-running')
    outcomes.append(box.get('exc') or 'ok')
    for ci, data in net.log[n0:]:
      api = struct.unpack('!h', data[4:6])[0] if len(data) >= 6 else -1
      corr = broker_read_correlation_id(data) if len(data) >= 12 else 0
      if api == 0 or api == -1:
        ev.append(dict(_inputs(put), e='ReqR', alts=list(reversed(earlier)), corr=corr, cid=cid,
                       frame=list(bytearray(data)), braised='none', hraised='none'))
      else:
        ev.append({'e': 'Hdr', 'api': api, 'corr': corr, 'cid': cid, 'frame': list(bytearray(data)),
                   'braised': 'none', 'hraised': 'none'})
    earlier.append(_inputs(put))
    nprod = sum(1 for _, d in net.log[n0:] if d[4:6] == b'\x00\x00')
    resent += max(0, nprod - 1)
  return ev, {'mode': 'retry', 'retransmissions': resent, 'outcomes': outcomes, 'connections': len(net.conns), 'busy_chunks': busy,
              'errors': [repr(x[1:3])[:200] for x in loop.errors][:3]}


def _run_late(script, loop):
  """Late replies on one live connection: ClientTimeoutSink -> KafkaSerializerSink -> KafkaTransportSink over the
  real ScalesSocket on the simulated network; the broker (KafkaPeer: own header reader, replies held until
  released) answers when the script says so.  Recorded: LReq (the bytes the client wrote for the request: the
  spec finds the correlation id in them), LReply (the bytes the broker encoded, for which wire request), LDone
  (what the caller of a request was given), LEnd."""
  import gevent
  from harness.simgevent import simnet, peers
  from harness.simgevent.vloop import EPOCH
  from scales.constants import MessageProperties, SinkProperties
  from scales.message import Deadline, MethodCallMessage
  from scales.sink import ClientMessageSink, ClientMessageSinkStack, TimeoutSinkProvider
  from scales.kafka.sink import KafkaEndpoint, KafkaSerializerSink, KafkaTransportSink

  loop.settle()
  net = simnet.SimNet(loop).install()
  buffered = bool(script.get('buffered'))
  if buffered:
    # a connection with a send buffer (see _stream_conn_class): writes can block part-way, a request reaches the
    # broker when its last byte is accepted, possibly long after it was issued
    import scales.scales_socket as ss
    StreamConn = _stream_conn_class(simnet)
    ss.gsocket = lambda family=None, type_=None, *a, **kw: StreamConn(net, family, type_)
  ev = []
  stats = {'timeouts': 0, 'values': 0, 'late_replies': 0, 'late_after_new_request': 0, 'dups': 0, 'unknown': 0,
           'at_deadline': 0, 'skipped_ops': 0, 'id_reuse': 0, 'answered_while_write_blocked': 0}

  def ms():
    return int(round((loop.now() - EPOCH) * 1000))

  class Broker(peers.KafkaPeer):
    """KafkaPeer + the order of arrival; nothing is answered until the script says so."""
    def __init__(self, net_):
      peers.KafkaPeer.__init__(self, net_)
      self.arrivals = 0

    def on_frame(self, conn, frame):
      self.arrivals += 1
      n = len(self.requests)
      peers.KafkaPeer.on_frame(self, conn, frame)
      if buffered:
        wired(self.requests[n], frame)

  peer = Broker(net)
  net.peer_factory = lambda c: peer
  chunk = script.get('chunk', 0)

  def first_value(frame):
    """The broker's reader: the value of the first message of a produce request (frame without size prefix)."""
    try:
      api, _ver, _corr, cl = struct.unpack('!hhih', frame[:10])
      if api != 0:
        return None
      p = 10 + cl + 2 + 4 + 4
      tl, = struct.unpack('!h', frame[p:p + 2])
      p += 2 + tl + 4 + 4 + 4           # topic, partition count, partition, message set size
      p += 8 + 4 + 4 + 1 + 1            # offset, message size, crc, magic, attributes
      kl, = struct.unpack('!i', frame[p:p + 4])
      p += 4 + max(kl, 0)
      vl, = struct.unpack('!i', frame[p:p + 4])
      return frame[p + 4:p + 4 + vl] if vl >= 0 and len(frame) >= p + 4 + vl else None
    except struct.error:
      return None

  def wired(p, frame):
    """Buffered mode: the broker has received a frame completely.  The harness finds the supplied request by the
    (unique) first payload; the spec judges the frame against that request's inputs."""
    v = first_value(frame)
    r = 0
    for rr, q in reqs.items():
      if q['api'] == 0 and q['payloads'] and v == _b(q['payloads'][0]):
        r = rr
    q = reqs.get(r, {'topic': [], 'partition': 0, 'acks': 0, 'payloads': []})
    full = struct.pack('!i', len(frame)) + frame
    ev.append({'e': 'LWire', 'r': r, 'topic': q['topic'], 'partition': q['partition'], 'acks': q['acks'],
               'payloads': q['payloads'], 'corr': p.tag, 'cid': cid_box[0], 'frame': list(bytearray(full)),
               'braised': 'none', 'hraised': 'none', 't': ms()})
    if r and q['pending'] is None:
      q['pending'] = p
      if script.get('auto'):
        # the broker answers a request as soon as it has read it, also while later bytes of the same client
        # write are still blocked
        blocked = getattr(p.conn, 'room', None) == 0        # the buffer is full: whatever follows has to wait
        if send_reply(r, script['auto_errors'][r % len(script['auto_errors'])]) and blocked:
          stats['answered_while_write_blocked'] += 1

  def on_connect_start(conn):
    if chunk:
      conn.chunk = chunk          # the client's reads return at most `chunk` bytes (TCP segmentation)
  net.on_connect_start = on_connect_start
  written = []                    # buffers the client wrote, in order

  def on_net(e):
    if e['kind'] == 'send':
      written.append(e['data'])
  net.listeners.append(on_net)

  tprov = KafkaTransportSink.Builder()
  sprov = KafkaSerializerSink.Builder()
  sprov.next_provider = tprov
  top_prov = TimeoutSinkProvider()
  top_prov.next_provider = sprov
  top = top_prov.CreateSink({SinkProperties.Endpoint: KafkaEndpoint('broker', 9092, 0), SinkProperties.Label: 'svc'})
  open_ar = top.Open()
  loop.run_until_idle()
  if not (open_ar.ready() and open_ar.successful()):
    raise RuntimeError('harness: kafka transport did not open over the simulated network: %r' % (open_ar.exception,))
  transport = top
  while not isinstance(transport, KafkaTransportSink):
    transport = transport.next_sink
  cid = _client_id(transport)
  cid_box = [cid]
  try:                                      # optional knob: where the tag pool starts handing out ids
    if script.get('tag0', 1) != 1:
      transport._tag_pool._next = script['tag0']
  except AttributeError:
    pass
  if buffered:
    net.conns[0].lowat = script.get('lowat', 1)

  reqs = {}            # r -> dict(api, topic, partition, pending (peer's record of its frame), deadline, done)
  nreq = [0]
  replies = [0]

  class Terminal(ClientMessageSink):
    def AsyncProcessRequest(self, *a):
      raise NotImplementedError()

    def AsyncProcessResponse(self, sink_stack, context, stream, msg):
      r = context
      q = reqs[r]
      e = {'e': 'LDone', 'r': r, 'api': q['api'], 'raised': 'none', 'out': [], 'brokers': [], 'topics': [], 't': ms()}
      if q['api'] == 0:
        e['raised'], e['out'] = _produce_out(msg)
      else:
        e['raised'], e['brokers'], e['topics'] = _metadata_out(msg)
      q['done'].append(e['raised'])
      kind = 'timeouts' if e['raised'] == 'TimeoutError' else 'values' if e['raised'] == 'none' else 'other_errors'
      stats[kind] = stats.get(kind, 0) + 1
      ev.append(e)
  terminal = Terminal()

  def issue(r, api, topic, partition, acks, payloads, T):
    if api == 0:
      msg = _put_msg({'topic': topic, 'partition': partition, 'acks': acks, 'payloads': payloads, 'acks_kw': r % 2 == 0})
    else:
      msg = MethodCallMessage(None, '__metadata', [], {})
      msg.properties[MessageProperties.Endpoint] = None
    deadline = None
    if T:
      deadline = loop.now() + T / 1000.0
      msg.properties[Deadline.KEY] = deadline
    stack = ClientMessageSinkStack()
    stack.Push(terminal, r)
    e = {'e': 'LReq', 'r': r, 'api': api, 'topic': topic, 'partition': partition, 'acks': acks, 'payloads': payloads,
         'T': T, 'corr': -1, 'cid': cid, 'frame': [], 'sent': 0, 'braised': 'none', 'hraised': 'none', 't': ms()}
    reqs[r] = {'api': api, 'topic': topic, 'partition': partition, 'acks': acks, 'payloads': payloads, 'pending': None,
               'deadline': deadline, 'done': [], 'answered_at_nreq': None}
    nreq[0] += 1
    ev.append(e)
    w0, p0 = len(written), len(peer.requests)
    box = {}
    if buffered:
      # the caller greenlet runs when the loop does; the frame is recorded when the broker has it (LWire)
      def bcall():
        try:
          top.AsyncProcessRequest(stack, msg, None, {})
        except Exception as ex:
          e['hraised'] = type(ex).__name__
      gevent.spawn(bcall)
      return

    def call():
      try:
        top.AsyncProcessRequest(stack, msg, None, {})
      except Exception as ex:           # the serializer reports its failures on the stack: this is the header builder
        box['exc'] = type(ex).__name__
    gevent.spawn(call)
    loop.run_until_idle()
    if 'exc' in box:
      e['hraised'] = box['exc']
    bufs = written[w0:]
    if bufs:
      frame = b''.join(bufs)            # everything the client wrote while the request was being issued
      e['frame'] = list(bytearray(frame))
      e['sent'] = 1
      if len(frame) >= 12:
        e['corr'] = broker_read_correlation_id(frame)
      new = peer.requests[p0:]
      if len(new) == 1:
        reqs[r]['pending'] = new[0]
        if any(q['pending'] is not None and q is not reqs[r] and not q['pending'].answered
               and q['pending'].tag == new[0].tag for q in reqs.values()):
          stats['id_reuse'] += 1
    elif reqs[r]['done'] and reqs[r]['done'][0] not in ('none', 'TimeoutError'):
      e['braised'] = reqs[r]['done'][0]

  def encode_reply(api, corr, topic, partition, error):
    replies[0] += 1
    k = replies[0]
    if api == 0:
      return broker_produce_response(corr, [[topic, [[partition, error, 1000 + 97 * k]]]])
    return broker_metadata_response(
      corr, [[k, list(('b%d' % k).encode()), 9092 + k]],
      [[0, topic, [[0, partition & 0xffff, k, [k], [k]]]]])

  def conn_of(p):
    return p.conn if (p is not None and not p.conn.closed) else None

  def send_reply(r, error, dup=False):
    q = reqs.get(r)
    p = q['pending'] if q else None
    if conn_of(p) is None or (p.answered != dup):
      stats['skipped_ops'] += 1
      return False
    if dup and q['answered_at_nreq'] != nreq[0]:
      stats['skipped_ops'] += 1       # a newer request may legitimately own the id by now
      return False
    data = encode_reply(q['api'], p.tag, q['topic'], q['partition'], error)
    ev.append({'e': 'LReply', 'w': r, 'api': q['api'], 'bytes': list(bytearray(data)), 't': ms()})
    if dup:
      peer.send_frame(p.conn, -2, p.tag, data[4:])
      stats['dups'] += 1
    else:
      peer.release(p, payload=data[4:])
      q['answered_at_nreq'] = nreq[0]
      if q['done']:
        stats['late_replies'] += 1
        if any(x['pending'] is not None and x['pending'].n > p.n for x in reqs.values()):
          stats['late_after_new_request'] += 1
    return True

  for op in script['ops']:
    k = op[0]
    if k == 'req':
      issue(*op[1:])
    elif k == 'adv':
      loop.run_for(op[1] / 1000.0)
    elif k == 'run':
      loop.run_until_idle()
    elif k == 'room':
      net.conns[0].set_room(op[1])
    elif k == 'drain':
      if not net.conns[0].closed:
        net.conns[0].drain(op[1])
    elif k == 'step':
      for _ in range(op[1]):
        loop.step_callback()
    elif k == 'replyall':                   # everything unanswered: oldest first / newest first / scripted order
      un = [r for r in sorted(reqs) if reqs[r]['pending'] is not None and not reqs[r]['pending'].answered]
      if op[1] == 'rev':
        un.reverse()
      elif op[1] != 'fifo':
        random.Random(op[1]).shuffle(un)
      for i, r in enumerate(un):
        if r in op[2]:
          continue                          # these stay unanswered
        send_reply(r, 0)
        if op[3] and (i + 1) % op[3] == 0:
          loop.run_until_idle()
      loop.run_until_idle()
    elif k == 'reply':
      send_reply(op[1], op[2])
    elif k == 'dup':
      send_reply(op[1], op[2], dup=True)
    elif k == 'unknown':
      live = [c for c in net.conns if c.connected and not c.closed]
      if not live or any(p.tag == op[1] for p in peer.unanswered()):
        stats['skipped_ops'] += 1
        continue
      data = encode_reply(0, op[1], [120], 0, op[2])
      ev.append({'e': 'LReply', 'w': 0, 'api': 0, 'bytes': list(bytearray(data)), 't': ms()})
      peer.send_frame(live[-1], -2, op[1], data[4:])
      stats['unknown'] += 1
    elif k == 'atdl':
      q = reqs.get(op[1])
      if q is None or q['deadline'] is None or q['done'] or q['deadline'] <= loop.now():
        send_reply(op[1], op[2])
        loop.run_until_idle()
        continue
      loop.run_until(q['deadline'] - 0.004)
      nxt = loop.next_timer_at()
      if nxt is not None and nxt <= q['deadline'] + 0.006:
        loop.advance_to(nxt)               # the clock stands at the instant the deadline timer is due; nothing ran
        stats['at_deadline'] += 1
      if op[3] < 0:                        # the timer first, |pre| - 1 callbacks, then the reply arrives
        loop.step_timer()
        for _ in range(-op[3] - 1):
          loop.step_callback()
        send_reply(op[1], op[2])
      elif send_reply(op[1], op[2]):       # the reply arrives, `pre` callbacks run, then the timer fires
        for _ in range(op[3]):
          loop.step_callback()
        loop.step_timer()
      loop.run_until_idle()
  if buffered and not net.conns[0].closed:
    net.conns[0].drain(None)
  loop.run_until_idle()
  # let every deadline pass, then quiesce
  loop.run_for(5.0)
  loop.settle()
  ev.append({'e': 'LEnd', 'unread': sum(len(c.inbox) for c in net.conns), 't': ms()})
  return ev, dict(stats, mode='late', requests=len(reqs), frames=peer.arrivals,
                  errors=[repr(x[1:3])[:200] for x in loop.errors][:3])


def _stream_conn_class(simnet):
  """SimConn with a send buffer: send() accepts at most `room` bytes (None: unlimited) and blocks while there is
  no room; drain(n) (the peer reads n bytes) frees space and, once it reaches the low-water mark `lowat`, wakes
  the blocked writer by a loop callback, as an io watcher would.  A second writer blocking on the same socket
  gets gevent's ConcurrentObjectUseError (SimConn._park)."""
  import errno

  class StreamConn(simnet.SimConn):
    def __init__(self, net, family=None, type_=None):
      self.room = None
      self.lowat = 1
      self.on_accept = None
      self.on_closed = None
      self.send_failed = False
      self.blocked_sends = 0
      self.partial_sends = 0
      simnet.SimConn.__init__(self, net, family, type_)

    def send(self, data):
      data = bytes(data)
      self._check_open()
      if not self.connected:
        self.net._log('send_unusable', self)
        raise OSError(errno.ENOTCONN, 'Transport endpoint is not connected (simulated)')
      self.opn += 1
      while True:
        if self.tx_err is not None:
          self.send_failed = True
          self.net._log('send_failed', self)
          raise self.tx_err
        if self.room is None or self.room > 0:
          k = len(data) if self.room is None else min(self.room, len(data))
          if self.room is not None:
            self.room -= k
          chunk = data[:k]
          if k < len(data):
            self.partial_sends += 1
          self.sent += chunk
          self.net._log('send', self, n=k, data=chunk)
          if self.on_accept is not None:
            self.on_accept(chunk)
          self.net._on_send(self, chunk)
          return k
        self.net._log('send_stalled', self)
        self.blocked_sends += 1
        self._park('send')
        self._check_open()

    def sendall(self, data):
      data = bytes(data)
      while data:
        k = self.send(data)
        data = data[k:]

    def _writable(self):
      if self._is_waiting('send') and (self.room is None or self.room >= max(1, self.lowat) or self.tx_err is not None):
        self.net.loop.run_callback(self._send_ready)

    def set_room(self, n):
      self.room = n
      self._writable()

    def drain(self, n):
      if n is None or self.room is None:
        self.room = None
      else:
        self.room += n
      self._writable()

    def feed_error(self, exc=None):
      simnet.SimConn.feed_error(self, exc)
      self._writable()

    def close(self):
      if self.closed:
        return
      mid = self._is_waiting('send') or self.send_failed
      if self.on_closed is not None:
        self.on_closed(mid)
      simnet.SimConn.close(self)

  return StreamConn


def _run_stream(script, loop):
  """The byte stream of one live connection: ClientTimeoutSink -> KafkaSerializerSink -> KafkaTransportSink ->
  VarzSocketWrapper / ScalesSocket over a connection with a send buffer.  Recorded: what was supplied (SSup) and
  every chunk of bytes the connection accepted, in order (SBytes), SClosed, SEnd."""
  import gevent
  from harness.simgevent import simnet, peers
  import scales.scales_socket as ss
  from scales.constants import MessageProperties, SinkProperties
  from scales.message import Deadline, MethodCallMessage
  from scales.sink import ClientMessageSink, ClientMessageSinkStack, TimeoutSinkProvider
  from scales.kafka.sink import KafkaEndpoint, KafkaSerializerSink, KafkaTransportSink

  loop.settle()
  net = simnet.SimNet(loop).install()
  StreamConn = _stream_conn_class(simnet)
  ss.gsocket = lambda family=None, type_=None, *a, **kw: StreamConn(net, family, type_)
  ev = []
  st = {'closed': False, 'done': 0, 'errors': 0, 'skipped_ops': 0}

  class Broker(peers.KafkaPeer):
    def __init__(self, net_):
      peers.KafkaPeer.__init__(self, net_)
      self.apis = {}

    def on_frame(self, conn, frame):
      n = len(self.requests)
      peers.KafkaPeer.on_frame(self, conn, frame)
      self.apis[n] = struct.unpack('!h', frame[:2])[0] if len(frame) >= 2 else -1

  peer = Broker(net)
  net.peer_factory = lambda c: peer

  def on_connect_start(conn):
    if conn.idx != 0:
      raise RuntimeError('harness: stream mode expects one connection per trace')
    conn.lowat = script.get('lowat', 1)
    conn.on_accept = lambda chunk: ev.append({'e': 'SBytes', 'data': list(bytearray(chunk))})

    def on_closed(mid):
      st['closed'] = True
      ev.append({'e': 'SClosed', 'mid': 1 if mid else 0})
    conn.on_closed = on_closed
  net.on_connect_start = on_connect_start

  tprov = KafkaTransportSink.Builder()
  sprov = KafkaSerializerSink.Builder()
  sprov.next_provider = tprov
  top_prov = TimeoutSinkProvider()
  top_prov.next_provider = sprov
  top = top_prov.CreateSink({SinkProperties.Endpoint: KafkaEndpoint('broker', 9092, 0), SinkProperties.Label: 'svc'})
  open_ar = top.Open()
  loop.run_until_idle()
  if not (open_ar.ready() and open_ar.successful()):
    raise RuntimeError('harness: kafka transport did not open over the simulated network: %r' % (open_ar.exception,))
  transport = top
  while not isinstance(transport, KafkaTransportSink):
    transport = transport.next_sink
  cid = _client_id(transport)
  try:
    transport._tag_pool._next = script.get('tag0', 1)
  except AttributeError:
    pass
  conn = net.conns[0]

  class Terminal(ClientMessageSink):
    def AsyncProcessRequest(self, *a):
      raise NotImplementedError()

    def AsyncProcessResponse(self, sink_stack, context, stream, msg):
      st['done'] += 1
      if msg is None or getattr(msg, 'error', None) is not None:
        st['errors'] += 1
  terminal = Terminal()

  def issue(r, api, topic, partition, acks, payloads, T):
    if api == 0:
      msg = _put_msg({'topic': topic, 'partition': partition, 'acks': acks, 'payloads': payloads, 'acks_kw': r % 2 == 0})
    else:
      msg = MethodCallMessage(None, '__metadata', [], {})
      msg.properties[MessageProperties.Endpoint] = None
    if T:
      msg.properties[Deadline.KEY] = loop.now() + T / 1000.0
    stack = ClientMessageSinkStack()
    stack.Push(terminal, r)
    ev.append({'e': 'SSup', 'r': r, 'api': api, 'topic': topic, 'partition': partition, 'acks': acks,
               'payloads': payloads, 'cid': cid})

    def call():
      try:
        top.AsyncProcessRequest(stack, msg, None, {})
      except Exception:
        st['errors'] += 1
    gevent.spawn(call)

  for op in script['ops']:
    k = op[0]
    if k == 'req':
      issue(*op[1:])
    elif k == 'room':
      conn.set_room(op[1])
    elif k == 'drain':
      conn.drain(op[1])
    elif k == 'step':
      for _ in range(op[1]):
        loop.step_callback()
    elif k == 'run':
      loop.run_until_idle()
    elif k == 'adv':
      loop.run_for(op[1] / 1000.0)
    elif k == 'answer':
      for p in peer.unanswered():
        if p.conn.closed:
          continue
        api = peer.apis.get(p.n, -1)
        if api == 0:
          peer.release(p, payload=broker_produce_response(p.tag, [])[4:])
        elif api == 3:
          peer.release(p, payload=broker_metadata_response(p.tag, [], [])[4:])
    elif k == 'reset':
      if not conn.closed:
        conn.feed_error()
      else:
        st['skipped_ops'] += 1
  if not conn.closed:
    conn.drain(None)
  loop.run_until_idle()
  loop.run_for(2.0)
  loop.settle()
  ev.append({'e': 'SEnd'})
  return ev, {'mode': 'stream', 'blocked_sends': conn.blocked_sends, 'partial_sends': conn.partial_sends,
              'closed': 1 if st['closed'] else 0, 'completed': st['done'], 'failed': st['errors'],
              'bytes': len(conn.sent), 'frames_at_broker': len(peer.requests),
              'errors': [repr(x[1:3])[:200] for x in loop.errors][:3]}


def run_case(script):
  loop = common.boot()
  if script['mode'] == 'route':
    ev, meta = _run_route(script, loop)
  elif script['mode'] == 'retry':
    ev, meta = _run_retry(script, loop)
  elif script['mode'] == 'late':
    ev, meta = _run_late(script, loop)
  elif script['mode'] == 'stream':
    ev, meta = _run_stream(script, loop)
  else:
    ev, meta = _run_direct(script, loop)
  return {'cfg': {'mode': script['mode'], 'cls': script.get('cls', '')}, 'ev': ev, 'meta': meta}


# ------------------------------------------------------------------ classification
def nontrivial(prop, t):
  if any(e['e'] != 'Hdr' for e in t['ev']):
    return common.canon(t['ev'])
  return None


def witness(prop, t, consumed, clause):
  if consumed >= len(t['ev']):
    return {}
  e = t['ev'][consumed]
  w = {'kind': e['e']}
  if e['e'] in ('Req', 'ReqR', 'Hdr', 'LReq'):
    w['header_raised'] = e['hraised']
  return w


def extra_coverage(prop, tier, traces):
  kinds = {}
  payload_bytes = 0
  max_payload = 0
  corr = set()
  for t in traces:
    for e in t['ev']:
      kinds[e['e']] = kinds.get(e['e'], 0) + 1
      if e['e'] in ('Req', 'ReqR', 'LReq'):
        corr.add(e['corr'])
        for p in e['payloads']:
          payload_bytes += len(p)
          max_payload = max(max_payload, len(p))
  late = {}
  for t in traces:
    m = t.get('meta', {})
    if m.get('mode') == 'late':
      late['scenarios'] = late.get('scenarios', 0) + 1
      for k in ('requests', 'timeouts', 'values', 'late_replies', 'late_after_new_request', 'dups', 'unknown',
                'at_deadline', 'skipped_ops', 'other_errors', 'id_reuse', 'answered_while_write_blocked'):
        late[k] = late.get(k, 0) + int(m.get(k, 0))
  stream = {}
  for t in traces:
    m = t.get('meta', {})
    if m.get('mode') == 'stream':
      stream['scenarios'] = stream.get('scenarios', 0) + 1
      for k in ('blocked_sends', 'partial_sends', 'closed', 'completed', 'failed', 'bytes', 'frames_at_broker'):
        stream[k] = stream.get(k, 0) + int(m.get(k, 0))
  return {'records': sum(kinds.values()), 'records_by_kind': kinds, 'late_reply_mode': late, 'stream_mode': stream,
          'retransmitted_requests_judged': sum(t.get('meta', {}).get('retransmissions', 0) for t in traces), 'payload_bytes_crc_checked': payload_bytes,
          'max_payload': max_payload, 'distinct_correlation_ids': len(corr)}
