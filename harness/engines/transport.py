"""Engine `transport` (C08, C11): the serial Thrift and the ThriftMux transport sinks, real
classes from /repo over the simulated network, under [ClientTimeoutSink -> serializer ->
transport] with harness-owned sink stacks.

Oracle: specs/TransportAbs.tla via TransportAbsTrace.
Code-shaped models: specs/SerialTransport.tla, specs/MuxTransport.tla (incl. TagPool, ping).
Fault enumeration: (I/O operation index x fault kind x requests in flight) systematically,
plus seeded random histories with adversarial peer frames.
"""
import random

from harness import common

NAME = 'transport'
PROPS = ['C08', 'C11']
LEVEL = {'C08': 'model_checking', 'C11': 'model_checking'}
TRACE_MODULE = 'TransportAbsTrace'
TRACE_CFG = 'TransportAbsTrace.cfg'
TRACE_CHUNK = 800
CASE_TIMEOUT = 300
ASSUMPTIONS = [
  'SimNet stands in for TCP; a fault is an exception / EOF / refusal / silence at a chosen I/O operation',
  'requests whose reply the peer had already sent when the connection failed may complete either way (exactly once); all others must get an error',
  'C11.bounded is evaluated with slack for requests that never reached the wire (dropped before send)',
  'owner-initiated Close is not a failure: C08 clauses are not evaluated after it until the next successful Open',
]
RULE_DEFAULT = ('systematic fault positions (every I/O op index up to a bound x {exception, EOF, refuse, hang} x 0-3 requests '
                'in flight) + seeded random request/reply/timeout/fault/re-open histories with adversarial peer frames; '
                'non-trivial = a fault or adversarial frame or timeout occurred with >= 1 request in flight; distinct by '
                'canonical event list without times')

T0 = 1000


def models(prop, tier):
  q = tier == 'quick'
  if prop == 'C11':
    return [
      dict(module='MuxTransport', cfg='MuxTransport_q.cfg' if q else 'MuxTransport_t.cfg', coverage=False, timeout=3000, heap='16g',
           what='TagPool + tag map + send queue + timeouts + adversarial peer frames, max_tag scaled to 5'),
      dict(module='MuxTransport', cfg='MuxTransport_orig.cfg', expect_violation='NoViolation',
           what='counterexample generator: _ReleaseTag as it was (releases tags the peer names, known or not)'),
      dict(module='MuxTransport', cfg='MuxTransport_orig2.cfg', expect_violation='NoViolation',
           what='counterexample generator: _ProcessTaggedReply as it was (a duplicate / stray frame completes a request that is '
                'still in the send queue and frees its tag)'),
    ]
  return [
    dict(module='SerialTransport', cfg='SerialTransport_q.cfg' if q else 'SerialTransport_t.cfg', coverage=True,
         what='serial transport: open, deadline check, write, read header, read body, timeout + re-open, fault at every step'),
    dict(module='MuxTransport', cfg='MuxTransport_q.cfg' if q else 'MuxTransport_t.cfg', coverage=False, timeout=2400, heap='16g',
         what='mux transport: send/recv loops, ping, shutdown at every step with 0-3 requests in flight'),
  ]


# ------------------------------------------------------------------ scripts
def _systematic(kind):
  """Single fault at every I/O operation index, 0..2 requests in flight, each fault kind."""
  out = []
  maxop = 8 if kind == 'thrift' else 12
  for opn in range(1, maxop + 1):
    for fk in ('exc', 'eof', 'hang'):
      for nreq in (0, 1, 2, 3):
        for reply_first in (False, True):
          steps = [['open'], ['adv', 20]]
          for r in range(nreq):
            steps.append(['req', r + 1, 503])
            if kind == 'thrift':
              steps.append(['adv', 10])
              if reply_first or r < nreq - 1:
                steps.append(['reply', 0])
                steps.append(['adv', 10])
          if kind == 'mux' and reply_first and nreq:
            steps.append(['adv', 10])
            steps.append(['reply', 0])
          steps += [['adv', 50], ['probe'], ['adv', 700], ['probe'], ['adv', 6000], ['probe'],
                    ['adv', 50000 if (kind == 'mux' and fk == 'hang') else 100], ['probe'], ['adv', 100]]
          out.append({'kind': kind, 'fault_at': {'0': {str(opn): fk}}, 'steps': steps, 'plans': [['ok', 0]], 'rseed': opn})
  # the same single faults with the client reading in small pieces: a fault lands in the middle of a length
  # prefix or of a body (only end-of-stream and errors; 1-2 requests)
  for chunk in (3, 7):
    for opn in range(2, (14 if kind == 'thrift' else 20)):
      for fk in ('eof', 'exc'):
        for nreq in (1, 2):
          steps = [['open'], ['adv', 20]]
          for r in range(nreq):
            steps.append(['req', r + 1, 503])
            steps.append(['adv', 10])
            steps.append(['reply', 0])
            steps.append(['adv', 10])
          steps += [['adv', 50], ['probe'], ['adv', 700], ['probe'], ['adv', 100]]
          out.append({'kind': kind, 'fault_at': {'0': {str(opn): fk}}, 'steps': steps, 'plans': [['ok', 0]], 'rseed': opn, 'chunk': chunk})
  if kind == 'mux':
    # many requests in flight (around 64 / 128) when the connection is lost
    for nreq in (63, 64, 65, 130):
      for fk in ('eof', 'err'):
        steps = [['open'], ['adv', 20]] + [['req', r + 1, 0] for r in range(nreq)] + \
                [['adv', 10], ['reply', 0], ['adv', 10], ['fault', fk], ['adv', 100], ['probe'], ['adv', 100]]
        out.append({'kind': kind, 'fault_at': {}, 'steps': steps, 'plans': [['ok', 0]], 'rseed': nreq})
  if kind == 'thrift':
    # transport-level timeout, then the re-connect is slow / refused / hangs, with traffic in the window
    for plan1 in (['ok', 0], ['ok', 30], ['ok', 200], ['refuse', 0], ['refuse', 30], ['hang']):
      for gap in (0, 10, 40, 250):
        for T2 in (0, 53):
          steps = [['open'], ['adv', 20], ['req', 1, 53], ['adv', 60 + gap], ['req', 2, T2], ['adv', 10], ['reply', 0],
                   ['adv', 300], ['probe'], ['req', 3, 0], ['adv', 10], ['reply', 0], ['adv', 700], ['probe'], ['adv', 100]]
          out.append({'kind': kind, 'fault_at': {}, 'steps': steps, 'plans': [['ok', 0], plan1, ['ok', 0]], 'rseed': gap})
  else:
    # the peer stops answering pings (with / without requests in flight), for longer than the detection time
    for nreq in (0, 1, 3):
      for T in (0, 503):
        for when in (20, 20000, 33000):
          steps = [['open'], ['adv', when]]
          for r in range(nreq):
            steps.append(['req', r + 1, T])
          steps += [['adv', 10], ['silent', 1], ['adv', 30000], ['adv', 20000], ['probe'], ['adv', 100]]
          out.append({'kind': kind, 'fault_at': {}, 'steps': steps, 'plans': [['ok', 0]], 'rseed': when})
          # ... and stops reading as well: writes block part-way, later requests and the ping pile up behind them
          steps = [['open'], ['adv', when]]
          for r in range(nreq):
            steps.append(['req', r + 1, T])
          steps += [['adv', 10], ['silent', 1], ['stall', 200000]]
          for r in range(nreq, nreq + 3):
            steps.append(['req', r + 1, T])
          steps += [['adv', 30000], ['adv', 20000], ['adv', 40000], ['adv', 100]]
          out.append({'kind': kind, 'fault_at': {}, 'steps': steps, 'plans': [['ok', 0]], 'rseed': when})
  return out


def _gen_random(rng, i, kafka=False):
  kind = 'thrift' if i % 3 == 0 else 'mux'
  if kafka and i % 4 == 3:
    kind = 'kafka'
  s = {'kind': kind, 'fault_at': {}, 'plans': [], 'steps': [], 'rseed': rng.randint(0, 10 ** 6)}
  s['plans'] = [rng.choice([['ok', 0], ['ok', 0], ['ok', 30], ['refuse', 0], ['refuse', 20], ['hang']]) for _ in range(4)]
  if rng.random() < 0.8:
    s['plans'][0] = ['ok', rng.choice([0, 0, 30])]
  if rng.random() < 0.3:
    s['fault_at'][str(rng.randint(0, 2))] = {str(rng.randint(1, 14)): rng.choice(['exc', 'eof', 'hang'])}
  steps = s['steps']
  steps.append(['open'])
  nr = [0]
  n = rng.randint(5, 22)
  for _ in range(n):
    k = rng.random()
    if k < 0.30:
      nr[0] += 1
      steps.append(['req', nr[0], rng.choice([0, 0, 23, 53, 107, 503])])
    elif k < 0.50:
      steps.append(['reply', rng.choice([0, 0, 1, 2, 5])])
    elif k < 0.53 and kind in ('mux', 'kafka'):
      steps.append(['replyas', rng.choice([0, 0, 1, 2]), rng.choice([-128, 127, -128, 127, -2])])
    elif k < 0.545:
      steps.append(['stall', rng.choice([50, 200, 800])])
    elif k < 0.56:
      steps.append(['stepq', rng.randint(1, 5)])
    elif k < 0.74:
      steps.append(['adv', rng.choice([10, 10, 20, 50, 100, 600, 6000, 40000])])
    elif k < 0.80:
      steps.append(['fault', rng.choice(['err', 'eof'])])
    elif k < 0.84:
      steps.append(['probe'])
    elif k < 0.87:
      steps.append(['close'])
    elif k < 0.91:
      steps.append(['open'])
    elif k < 0.93 and kind == 'mux':
      steps.append(['silent', rng.choice([1, 0])])
    elif kind == 'mux' and rng.random() < 0.4:
      steps.append(['frameor', rng.choice([-2, -2, -128, 127]), rng.randint(0, 3), rng.choice([0x800000, 0x800000, 0x400000, 0x10000, 0x8000, 0x100])])
    elif kind in ('mux', 'kafka'):
      steps.append(['frame', rng.choice([-2, -2, -128, -65, 127, 3]), rng.choice([0, 1, 1, 2, 3, 4, 7, 16777215])])
    else:
      steps.append(['badreply', rng.choice([0, 1])])
  steps += [['adv', 700], ['probe'], ['adv', 100]]
  return s


def _gen_longrun(rng):
  """Many request/reply rounds on one mux connection: tags must be recycled (C11.bounded)."""
  steps = [['open'], ['adv', 20]]
  r = 0
  errtype = rng.choice([None, -128, 127, 127])
  for _ in range(rng.randint(40, 120)):
    k = rng.randint(1, 4)
    for _ in range(k):
      r += 1
      steps.append(['req', r, rng.choice([0, 0, 0, 53])])
    steps.append(['adv', 10])
    for _ in range(k):
      if errtype is not None and rng.random() < 0.5:
        steps.append(['replyas', rng.randint(0, 3), errtype])
      else:
        steps.append(['reply', rng.randint(0, 3)])
    steps.append(['adv', rng.choice([10, 100])])
    if rng.random() < 0.15:
      steps.append(['frame', -2, rng.choice([1, 2, 3, 5, 9])])
    if rng.random() < 0.1:
      # ... while one request is outstanding; then enough further requests to drain the free tags, so that a
      # tag wrongly returned to the pool has to be handed out again before the peer has answered it
      r += 1
      steps += [['req', r, 0], ['adv', 10], ['frameor', rng.choice([-2, -128]), 0, rng.choice([0x800000, 0x800000, 0x400000, 0x10000, 0x100])], ['adv', 10]]
      for _ in range(6):
        r += 1
        steps.append(['req', r, 0])
      steps.append(['adv', 10])
      steps += [['reply', 0]] * 7 + [['adv', 10]]
  steps += [['adv', 200]]
  return {'kind': 'mux', 'fault_at': {}, 'plans': [['ok', 0]], 'steps': steps, 'rseed': rng.randint(0, 10 ** 6)}


def cases(prop, tier, seed):
  rng = random.Random(104729 * int(seed) + 7)
  out = []
  if prop == 'C08':
    out += _systematic('thrift') + _systematic('mux')
    n = 600 if tier == 'quick' else 15000
  else:
    n = 900 if tier == 'quick' else 20000
    for _ in range(20 if tier == 'quick' else 300):
      out.append(_gen_longrun(rng))
  if prop == 'C11':
    for stall in (200, 800):
      for T in (53, 107, 503):
        for gap in (10, 100, 300, 900):
          for late in (0, 1):
            steps = [['open'], ['adv', 20], ['req', 1, 0], ['adv', 10], ['reply', 0], ['adv', 10],
                     ['stall', stall], ['req', 2, T], ['adv', gap], ['req', 3, 0], ['req', 4, T], ['adv', 1000]]
            if late:
              steps += [['reply', 0], ['reply', 0], ['adv', 10]]
            steps += [['req', 5, 0], ['adv', 10], ['reply', 2], ['reply', 1], ['reply', 0], ['adv', 100]]
            out.append({'kind': 'mux', 'fault_at': {}, 'plans': [['ok', 0]], 'steps': steps, 'rseed': stall + gap})
  if prop == 'C11':
    # recycled tags held by requests that are queued or half-written behind a blocked write, and the peer
    # repeats an old reply naming one of them (the request cannot have been answered: the peer has not got it)
    for ntag in (1, 2, 3):
      for which in range(ntag):
        for typ in (-2, -128):
          steps = [['open'], ['adv', 20]]
          for r in range(ntag):
            steps.append(['req', r + 1, 0])
          steps += [['adv', 10]] + [['reply', 0]] * ntag + [['adv', 10], ['stall', 300]]
          for r in range(ntag, 2 * ntag):
            steps.append(['req', r + 1, 0])
          steps += [['adv', 10], ['frame', typ, 2 + which], ['adv', 10], ['req', 2 * ntag + 1, 0], ['req', 2 * ntag + 2, 0], ['adv', 400]]
          steps += [['reply', 0]] * (ntag + 2) + [['adv', 50]]
          out.append({'kind': 'mux', 'fault_at': {}, 'plans': [['ok', 0]], 'steps': steps, 'rseed': ntag})
    # replies read in small pieces with 100+ requests outstanding (a frame mis-assembled from its pieces names
    # some other tag: with many tags in use that tag is likely to be one of them)
    for chunk in (5, 8, 11):
      for nreq in (127, 130):
        steps = [['open'], ['adv', 20]] + [['req', r + 1, 0] for r in range(nreq)] + \
                [['adv', 10], ['reply', 0], ['adv', 10], ['reply', 3], ['adv', 10], ['req', nreq + 1, 0], ['req', nreq + 2, 0], ['adv', 10]] + \
                [['reply', 0]] * 6 + [['adv', 100]]
        out.append({'kind': 'mux', 'fault_at': {}, 'plans': [['ok', 0]], 'steps': steps, 'rseed': nreq, 'chunk': chunk})
    # a burst of n requests in flight at once, every one answered (the connection is fully idle, every tag ever
    # handed out is free again), then a few more requests, overlapping: whatever the pool does with a large idle
    # free set (trimming, resetting, compacting) must not hand out a reserved tag or a tag twice
    for nreq in (3, 64, 129, 130, 200, 260):
      for more in (1, 4):
        steps = [['open'], ['adv', 20]] + [['req', r + 1, 0] for r in range(nreq)] + [['adv', 10]] + \
                [['reply', 0]] * nreq + [['adv', 20]] + [['req', nreq + 1 + j, 0] for j in range(more)] + [['adv', 10]] + \
                [['reply', 0]] * more + [['adv', 20]] + [['req', nreq + 10 + j, 0] for j in range(more + 1)] + [['adv', 10]] + \
                [['reply', 0]] * (more + 1) + [['adv', 50]]
        out.append({'kind': 'mux', 'fault_at': {}, 'plans': [['ok', 0]], 'steps': steps, 'rseed': nreq})
    # a long-lived connection whose tag counter is near a boundary of the 24-bit tag space (or of a narrower
    # field): requests in flight below the boundary, then the counter is fast-forwarded, then more requests
    for k in (254, 255, 32766, 65533, 65534, 65535, 8388606, 16777210, 16777211, 16777212):
      for pre in (0, 3):
        for post in (3, 6):
          steps = [['open'], ['adv', 20]]
          r = 0
          for _ in range(pre):
            r += 1
            steps.append(['req', r, 0])
          steps += [['adv', 10], ['age', k]]
          for _ in range(post):
            r += 1
            steps.append(['req', r, rng.choice([0, 0, 53])])
          steps += [['adv', 10]]
          for _ in range(r):
            steps.append(['reply', rng.choice([0, 0, 1, 5])])
          steps += [['adv', 100], ['req', r + 1, 0], ['req', r + 2, 0], ['adv', 10], ['reply', 1], ['reply', 0], ['adv', 100]]
          out.append({'kind': 'mux', 'fault_at': {}, 'plans': [['ok', 0]], 'steps': steps, 'rseed': k})
  for i in range(n):
    out.append(_gen_random(rng, i, kafka=(prop == 'C11')))
  return out


# ------------------------------------------------------------------ driver
def run_case(script):
  loop = common.boot()
  cuts = common.cpu_watchdog(20)
  import gevent
  from harness.simgevent import simnet, peers
  from harness.simgevent.vloop import EPOCH
  from harness.engines.stack import patch_random
  from scales.constants import SinkProperties, MessageProperties, ChannelState
  from scales.loadbalancer.zookeeper import Endpoint
  from scales.message import MethodCallMessage, Deadline
  from scales.sink import ClientMessageSink, ClientMessageSinkStack, TimeoutSinkProvider
  from test.scales.thrift.gen_py.hello import Hello

  loop.run_until(EPOCH + T0 / 1000.0)
  loop.settle()
  net = simnet.SimNet(loop).install()
  patch_random(script.get('rseed', 0))
  kind = script['kind']
  ev = []

  def ms():
    return int(round((loop.now() - EPOCH) * 1000))

  if kind == 'thrift':
    from scales.thrift.sink import SocketTransportSink, ThriftSerializerSink
    peer = peers.ThriftPeer(net)
    ser = ThriftSerializerSink.Builder()
  elif kind == 'kafka':
    from scales.kafka.sink import KafkaTransportSink
    from scales.sink import SocketTransportSinkProvider, SinkProvider
    from scales.constants import TransportHeaders
    from scales.compat import BytesIO
    from scales.message import MethodReturnMessage
    SocketTransportSink = type('KafkaT', (), {'Builder': SocketTransportSinkProvider(KafkaTransportSink)})
    peer = peers.KafkaPeer(net)

    class RawSerializer(ClientMessageSink):
      """Harness-side stand-in for the Kafka serializer: payload = the call's unique argument."""
      def __init__(self, next_provider, sink_properties, global_properties):
        super(RawSerializer, self).__init__()
        self.next_sink = next_provider.CreateSink(global_properties)

      def AsyncProcessRequest(self, sink_stack, msg, stream, headers):
        buf = BytesIO()
        buf.write(msg.args[0].encode('ascii'))
        sink_stack.Push(self)
        self.next_sink.AsyncProcessRequest(sink_stack, msg, buf, {TransportHeaders.MessageType: 0})

      def AsyncProcessResponse(self, sink_stack, context, stream, msg):
        if msg is None:
          msg = MethodReturnMessage(return_value=stream.read())
        sink_stack.AsyncProcessResponseMessage(msg)
    ser = SinkProvider(RawSerializer)()
  else:
    from scales.thriftmux.sink import SocketTransportSink, ThriftMuxMessageSerializerSink
    peer = peers.MuxPeer(net)
    ser = ThriftMuxMessageSerializerSink.Builder()
  net.peer_factory = lambda c: peer
  plans = [list(p) for p in script.get('plans', [])] + [['ok', 0]] * 50
  fault_at = script.get('fault_at', {})

  def on_connect_start(conn):
    p = plans[min(conn.idx, len(plans) - 1)]
    conn.connect_plan = ('hang',) if p[0] == 'hang' else (p[0], p[1] / 1000.0)
    fa = fault_at.get(str(conn.idx))
    if fa:
      conn.fault_at = {int(k): v for k, v in fa.items()}
    if script.get('chunk'):
      conn.chunk = script['chunk']       # the client gets at most that many bytes per recv: reads end mid-frame
  net.on_connect_start = on_connect_start

  tprov = SocketTransportSink.Builder()
  ser.next_provider = tprov
  top_prov = TimeoutSinkProvider()
  top_prov.next_provider = ser
  props = {SinkProperties.Endpoint: Endpoint('10.0.0.1', 9090), SinkProperties.Label: 'svc',
           SinkProperties.ServiceInterface: Hello.Iface}
  top = top_prov.CreateSink(props)
  transport = top.next_sink.next_sink

  state = {'owner_closed': False, 'opened': False, 'connected': 0, 'env_faults': 0, 'pending_fault': False}
  reqs = {}       # r -> dict(delivered, arg)

  class Terminal(ClientMessageSink):
    def AsyncProcessRequest(self, *a):
      raise NotImplementedError()

    def AsyncProcessResponse(self, sink_stack, context, stream, msg):
      r = context
      reqs[r]['delivered'] += 1
      is_err = 1 if (msg is None or getattr(msg, 'error', None) is not None) else 0
      ev.append({'e': 'Deliver', 'r': r, 'isErr': is_err, 't': ms()})
  terminal = Terminal()

  def on_faulted(_v):
    ev.append({'e': 'Faulted', 't': ms()})
  transport.on_faulted.Subscribe(on_faulted)

  def replied(r):
    a = 'r%d' % r
    return any(p.answered and p.call.get('arg') == a for p in peer.requests)

  def fail_seen():
    must = sorted(r for r, st in reqs.items() if st['delivered'] == 0)
    errs = [r for r in must if not replied(r)]
    ev.append({'e': 'FailSeen', 'must': must, 'errs': errs, 't': ms()})

  def on_net(e):
    k = e['kind']
    if k in ('recv_failed', 'recv_eof', 'send_failed', 'connect_failed'):
      state['env_faults'] += 1
      state['pending_fault'] = False
      fail_seen()
    elif k == 'close':
      # mux: a shutdown that was not preceded by an I/O error is the ping timeout (silence).
      # serial: the transport closes its socket itself before re-connecting after a timeout;
      # that is not a failure (a failed re-connect is logged as connect_failed).
      if not state['owner_closed'] and kind in ('mux', 'kafka'):
        fail_seen()
    elif k == 'connected':
      state['connected'] += 1
      if state['connected'] > 1:
        ev.append({'e': 'Reopen', 't': ms()})
      ev.append({'e': 'Opened', 'ok': 1, 't': ms()})
    elif k == 'recv_hang' and kind == 'mux':
      ev.append({'e': 'Silence', 'on': 1, 't': ms()})
    elif k == 'srv_frame':
      ev.append({'e': 'FrameOut', 'type': e['mtype'], 'tag': e['tag'], 't': ms()})
    elif k == 'consumed' and kind in ('mux', 'kafka'):
      # a frame from the peer counts from the moment the client has read it off the socket
      ev.append({'e': 'FrameIn', 'type': e['mark']['mtype'], 'tag': e['mark']['tag'], 't': ms()})
  net.listeners.append(on_net)

  def issue(r, T):
    arg = 'r%d' % r
    reqs[r] = {'delivered': 0, 'arg': arg}
    msg = MethodCallMessage(Hello.Iface, 'hi', (arg,), {})
    msg.properties[MessageProperties.Endpoint] = None
    if T:
      msg.properties[Deadline.KEY] = loop.now() + T / 1000.0
    stack = ClientMessageSinkStack()
    stack.Push(terminal, r)
    ev.append({'e': 'Req', 'r': r, 't': ms()})
    gevent.spawn(top.AsyncProcessRequest, stack, msg, None, {})
    if kind == 'mux':
      untagged.append((r, msg))

  untagged = []
  escaped = []

  def watch_tags(_k=None):
    # the multiplexed transport publishes the tag it gives a request on the message's properties
    for item in list(untagged):
      tag = item[1].properties.get('__Tag')
      if isinstance(tag, int) and tag > 0:
        untagged.remove(item)
        ev.append({'e': 'Tagged', 'r': item[0], 'tag': tag, 't': ms()})
  loop.on_quantum = watch_tags

  def quiet():
    loop.settle()
    try:
      st = int(transport.state)
    except Exception:
      st = 0
    ev.append({'e': 'Quiet', 'st': st, 't': ms()})
    return st

  probe_n = [1000]

  for op in script['steps']:
    k = op[0]
    if k == 'open':
      if state['opened']:
        continue          # Open() "may only be called once" per transport sink
      state['opened'] = True

      def do_open():
        try:
          ar = top.Open()
          ar.wait()
          if ar.exception is not None:
            ev.append({'e': 'Opened', 'ok': 0, 't': ms()})
        except Exception:
          ev.append({'e': 'Opened', 'ok': 0, 't': ms()})
      gevent.spawn(do_open)
      loop.run_until_idle()
    elif k == 'req':
      # the serial transport is only ever handed requests after its Open() has completed (the pool
      # waits for it); the mux transport parks early requests itself
      early = kind == 'thrift' and state['connected'] == 0 and any(c.waiting == 'connect' for c in net.conns)
      if op[1] not in reqs and not early:
        issue(op[1], op[2])
    elif k == 'reply':
      un = [p for p in peer.unanswered() if not p.conn.closed and p.reply is not None]
      if un:
        peer.release(un[op[1] % len(un)])
    elif k == 'badreply':
      un = [p for p in peer.unanswered() if not p.conn.closed and p.reply is not None]
      if un:
        peer.release(un[op[1] % len(un)], payload=peers.tbin_encode_appexc('hi', 'boom'))
    elif k == 'replyas':
      # the peer answers an outstanding request with another reply type (Rerr -128, legacy Rerr 127)
      un = [p for p in peer.unanswered() if not p.conn.closed and p.reply is not None]
      if un and kind in ('mux', 'kafka'):
        p = un[op[1] % len(un)]
        if kind == 'kafka' or op[2] == -2:
          peer.release(p)
        else:
          p.answered = True
          peer.send_frame(p.conn, op[2], p.tag, b'server error')
    elif k == 'stall':
      for c in net.conns:
        if c.connected and not c.closed:
          c.stall_until = max(c.stall_until, loop.now() + op[1] / 1000.0)
    elif k == 'frame':
      live = [c for c in net.conns if c.connected and not c.closed]
      if live and kind in ('mux', 'kafka'):
        peer.send_frame(live[-1], op[1], op[2], b'\x00\x00\x00' if op[1] == -2 else b'')
    elif k == 'frameor':
      # a frame naming a tag the client never issued that differs from an outstanding one in a single high bit
      un = [p for p in peer.unanswered() if not p.conn.closed and p.tag is not None]
      if un and kind == 'mux':
        p = un[op[2] % len(un)]
        peer.send_frame(p.conn, op[1], p.tag | op[3], b'\x00\x00\x00' if op[1] == -2 else b'')
    elif k == 'silent':
      if kind == 'mux':
        peer.ping_mode = 'silent' if op[1] else 'answer'
        # the silence clause is about an established connection whose peer stops answering
        if not op[1] or any(c.connected and not c.closed for c in net.conns):
          ev.append({'e': 'Silence', 'on': 1 if op[1] else 0, 't': ms()})
    elif k == 'stepq':
      loop.step(op[1])
    elif k == 'age':
      if kind == 'mux' and common.age_tag_pools(op[1]):
        ev.append({'e': 'Age', 'k': op[1], 't': ms()})
    elif k == 'adv':
      loop.run_for(op[1] / 1000.0)
      quiet()
    elif k == 'fault':
      live = [c for c in net.conns if c.connected and not c.closed]
      if live:
        state['pending_fault'] = True
        if op[1] == 'err':
          live[-1].feed_error()
        else:
          live[-1].feed_eof()
    elif k == 'close':
      state['owner_closed'] = True
      ev.append({'e': 'OwnerClose', 't': ms()})
      try:
        top.Close()
      except Exception as ex:     # an exception escaping from Close() is not judged by itself; what it leaves undone is
        escaped.append(repr(ex)[:200])
      loop.run_until_idle()
    elif k == 'probe':
      st = quiet()
      inflight = [r for r, s_ in reqs.items() if s_['delivered'] == 0]
      connecting = any(c.waiting == 'connect' for c in net.conns) or \
          any(c.stall_until > loop.now() and not c.closed for c in net.conns)   # blocked writes: back-pressure, not a failure
      if st == 2 and not inflight and not state['owner_closed'] and not state['pending_fault'] and not connecting:
        probe_n[0] += 1
        r = probe_n[0]
        before = len(peer.requests)
        faults0 = state['env_faults']
        issue(r, 0)
        loop.settle()
        wrote = any(p.call.get('arg') == 'r%d' % r for p in peer.requests[before:])
        if state['env_faults'] == faults0:
          # no environment fault hit the connection during the probe: the verdict is the transport's own
          ev.append({'e': 'Probe', 'written': 1 if wrote else 0, 't': ms()})
        for p in peer.requests[before:]:
          if p.call.get('arg') == 'r%d' % r:
            peer.release(p)
        loop.settle()
  quiet()
  ev.append({'e': 'End', 't': ms()})
  return {'cfg': {'t0': T0, 'kind': kind}, 'ev': ev,
          'meta': {'errors': [list(e[1:3]) for e in loop.errors][:4], 'escaped': escaped[:4]}}


def trace_for_tlc(t):
  return {'cfg': {'t0': t['cfg']['t0']}, 'ev': t['ev']}


def nontrivial(prop, t):
  ev = t['ev']
  if prop == 'C08':
    if not any(e['e'] == 'FailSeen' and e['must'] for e in ev):
      return None
  else:
    if sum(1 for e in ev if e['e'] == 'FrameOut' and e['type'] == 2) < 2:
      return None
  return common.canon([{k: v for k, v in e.items() if k != 't'} for e in ev])


def witness(prop, t, consumed, clause):
  ev = t['ev']
  w = {'kind': t['cfg'].get('kind')}
  e = ev[consumed] if consumed < len(ev) else {}
  w['event'] = e.get('e')
  if prop == 'C08':
    prior = [x for x in ev[:consumed] if x['e'] in ('FailSeen',)]
    w['after_connect_failure'] = any(x['e'] == 'Opened' and x['ok'] == 0 for x in ev[:consumed + 1])
    w['inflight_at_failure'] = len(prior[0]['must']) if prior else 0
  if prop == 'C11' and e.get('e') == 'FrameOut':
    w['tag_le_1'] = e.get('tag', 9) <= 1
    w['peer_named_unissued_tag'] = any(x['e'] == 'FrameIn' and x['type'] in (-2, -128, 127) and
                                       not any(y['e'] == 'FrameOut' and y['type'] == 2 and y['tag'] == x['tag'] for y in ev[:ev.index(x)])
                                       for x in ev[:consumed])
  return w


# ------------------------------------------------------------------ direction A (serial transport)
def _replay_serial(beh):
  """Step the real thrift SocketTransportSink through one TLC behaviour of SerialTransport.tla.
  Model steps 'spawned' and 'wrote' are one real state (the transaction greenlet writes as soon as it
  runs); everything else maps one to one.  Projection: reported state, _processing set, deliveries,
  error deliveries, fault signals."""
  loop = common.boot()
  import gevent
  from harness.simgevent import simnet, peers
  from harness.simgevent.vloop import EPOCH
  from scales.constants import SinkProperties, MessageProperties
  from scales.loadbalancer.zookeeper import Endpoint
  from scales.message import MethodCallMessage, Deadline
  from scales.sink import ClientMessageSink, ClientMessageSinkStack
  from scales.thrift.sink import SocketTransportSink, ThriftSerializerSink
  from test.scales.thrift.gen_py.hello import Hello
  loop.settle()
  net = simnet.SimNet(loop).install()
  peer = peers.ThriftPeer(net)
  net.peer_factory = lambda c: peer
  net.on_connect_start = lambda conn: setattr(conn, 'connect_plan', ('manual',))
  ser = ThriftSerializerSink.Builder()
  ser.next_provider = SocketTransportSink.Builder()
  top = ser.CreateSink({SinkProperties.Endpoint: Endpoint('10.0.0.1', 9090), SinkProperties.Label: 'svc',
                        SinkProperties.ServiceInterface: Hello.Iface})
  transport = top.next_sink
  got, errs, sig = {}, {}, [0]
  deadlines = {}

  class Terminal(ClientMessageSink):
    def AsyncProcessRequest(self, *a):
      raise NotImplementedError()

    def AsyncProcessResponse(self, sink_stack, context, stream, msg):
      got[context] = got.get(context, 0) + 1
      if msg is None or getattr(msg, 'error', None) is not None:
        errs[context] = errs.get(context, 0) + 1
  terminal = Terminal()
  transport.on_faulted.Subscribe(lambda v: sig.__setitem__(0, sig[0] + 1))
  drift = None
  steps = 0

  def live_conn():
    cs = [c for c in net.conns if c.connected and not c.closed]
    return cs[-1] if cs else None

  def pending_connect():
    cs = [c for c in net.conns if c.waiting == 'connect']
    return cs[-1] if cs else None

  prev = beh[0][1]
  for (act, st) in beh[1:]:
    name, params = act
    ok = True
    if name == 'Open':
      gevent.spawn(lambda: top.Open().wait())
    elif name in ('ConnectOk', 'ReopenOk'):
      c = pending_connect()
      ok = c is not None
      if ok:
        c.resolve_connect(True)
    elif name in ('ConnectRefused', 'ReopenRefused'):
      c = pending_connect()
      ok = c is not None
      if ok:
        c.resolve_connect(False)
    elif name == 'Request':
      r = params[0]
      msg = MethodCallMessage(Hello.Iface, 'hi', ('r%d' % r,), {})
      msg.properties[MessageProperties.Endpoint] = None
      deadlines[r] = loop.now() + 50.0
      msg.properties[Deadline.KEY] = deadlines[r]
      stack = ClientMessageSinkStack()
      stack.Push(terminal, r)
      gevent.spawn(top.AsyncProcessRequest, stack, msg, None, {})
    elif name == 'TxnOk':
      if prev['step'] == 'wrote':
        un = [p for p in peer.unanswered() if not p.conn.closed and p.reply is not None]
        ok = bool(un)
        if ok:
          body = un[-1].reply
          un[-1].conn.user['body'] = body
          un[-1].conn.feed(len(body).to_bytes(4, 'big'))
      elif prev['step'] == 'hdr':
        c = live_conn()
        ok = c is not None and 'body' in c.user
        if ok:
          for p in peer.unanswered():
            if p.conn is c:
              p.answered = True
          c.feed(c.user.pop('body'))
    elif name == 'TxnFault':
      c = live_conn()
      if c is not None:
        c.feed_error()
      else:
        ok = prev['sock'] != 'open'     # nothing to break: the write itself fails on the dead socket
    elif name == 'TxnTimeout':
      r = prev['proc']
      loop.run_until(deadlines.get(r, loop.now()))
    elif name == 'OwnerClose':
      top.Close()
    loop.settle()
    steps += 1
    prev = st
    if not ok:
      drift = drift or {'step': steps, 'action': [name, params], 'spec': 'action applicable', 'real': 'no counterpart'}
      break
    try:
      rs = int(transport.state)
      real = {'reported': {1: 'Idle', 2: 'Open', 3: 'Open', 4: 'Closed'}[rs],
              'proc': transport._processing is not None, 'signals': sig[0],
              'got': sorted(got.items()), 'errs': sorted(errs.items())}
    except Exception:
      real = None
    if real is not None and drift is None:
      reported = 'Open' if st['sock'] == 'open' else st['tstate']
      spec = {'reported': reported, 'proc': st['proc'] != 0, 'signals': st['signals'],
              'got': sorted((i + 1, v) for i, v in enumerate(st['got']) if v),
              'errs': sorted((i + 1, v) for i, v in enumerate(st['errs']) if v)}
      if spec != real:
        drift = {'step': steps, 'action': [name, params], 'spec': spec, 'real': real}
  return {'steps': steps, 'drift': drift}


# ------------------------------------------------------------------ direction A (mux transport)
def _replay_mux(beh):
  """Step the real ThriftMux SocketTransportSink through one TLC behaviour of MuxTransportQ.tla.
  Caller steps (Request, Timeout) are plain synchronous calls, peer steps feed the socket, and the
  event loop runs to quiescence where the model says Quiesced.  Tags are compared modulo renaming
  (TagPool picks from its free set in an order the model leaves open): per request, not per number.
  Projection at every quiescent point: reported state, TagPool._next, size of the free set, the
  requests in the tag map, the requests still carrying a tag, the requests that got an outcome."""
  loop = common.boot()
  import gevent
  from harness.simgevent import simnet, peers
  from scales.constants import SinkProperties, MessageProperties
  from scales.loadbalancer.zookeeper import Endpoint
  from scales.message import MethodCallMessage, MethodReturnMessage, Deadline, TimeoutError
  from scales.observable import Observable
  from scales.sink import ClientMessageSink, ClientMessageSinkStack
  from scales.thriftmux.sink import SocketTransportSink, ThriftMuxMessageSerializerSink
  from test.scales.thrift.gen_py.hello import Hello
  loop.settle()
  net = simnet.SimNet(loop).install()
  peer = peers.MuxPeer(net)
  net.peer_factory = lambda c: peer
  ser = ThriftMuxMessageSerializerSink.Builder()
  ser.next_provider = SocketTransportSink.Builder()
  top = ser.CreateSink({SinkProperties.Endpoint: Endpoint('10.0.0.1', 9090), SinkProperties.Label: 'svc',
                        SinkProperties.ServiceInterface: Hello.Iface})
  transport = top.next_sink
  gevent.spawn(lambda: top.Open().wait())
  loop.settle()
  max_tag = beh[0][1].get('_maxtag', 8)
  transport._tag_pool._max_tag = max_tag
  got = {}
  msgs, stacks, evts, realtag = {}, {}, {}, {}

  class Terminal(ClientMessageSink):
    def AsyncProcessRequest(self, *a):
      raise NotImplementedError()

    def AsyncProcessResponse(self, sink_stack, context, stream, msg):
      got[context] = got.get(context, 0) + 1
  terminal = Terminal()

  def live_conn():
    cs = [c for c in net.conns if c.connected and not c.closed]
    return cs[-1] if cs else None

  def project_real():
    rs = int(transport.state)
    by_props = {id(m.properties): r for r, m in msgs.items()}
    return {'st': 'Open' if rs in (2, 3) else 'Closed',
            'next': transport._tag_pool._next, 'nfree': len(transport._tag_pool._set),
            'inmap': sorted(by_props.get(id(t[2]), -1) for t in transport._tag_map.values()),
            'keyed': sorted(r for r, m in msgs.items() if m.properties.get('__Tag')),
            'got': sorted(r for r, n in got.items() if n > 0)}

  def project_spec(s):
    tm = s['tagmap'] if isinstance(s['tagmap'], dict) else {}
    return {'st': s['st'], 'next': s['pool']['next'], 'nfree': len(s['pool']['free']),
            'inmap': sorted(tm.values()),
            'keyed': sorted(i + 1 for i, v in enumerate(s['tagkey']) if v),
            'got': sorted(i + 1 for i, v in enumerate(s['got']) if v)}

  drift = None
  steps = compared = 0
  prev = beh[0][1]
  for (act, s) in beh[1:]:
    name = act[0]
    steps += 1
    ptm = prev['tagmap'] if isinstance(prev['tagmap'], dict) else {}
    if name == 'Caller':
      newreq = [i + 1 for i, v in enumerate(s['tagkey']) if v and not prev['tagkey'][i]]
      newto = [i + 1 for i, v in enumerate(s['evt']) if v and not prev['evt'][i]]
      if newreq:
        r = newreq[0]
        msg = MethodCallMessage(Hello.Iface, 'hi', ('r%d' % r,), {})
        msg.properties[MessageProperties.Endpoint] = None
        msg.properties[Deadline.KEY] = loop.now() + 500.0
        evts[r] = msg.properties[Deadline.EVENT_KEY] = Observable()
        stack = ClientMessageSinkStack()
        stack.Push(terminal, r)
        msgs[r], stacks[r] = msg, stack
        from_free = bool(prev['pool']['free'])
        real_free = bool(transport._tag_pool._set)
        top.AsyncProcessRequest(stack, msg, None, {})
        realtag[r] = msg.properties.get('__Tag')
        if from_free != real_free and drift is None:
          drift = {'step': steps, 'action': ['Request', r], 'spec': 'tag from free set: %s' % from_free,
                   'real': 'tag from free set: %s' % real_free}
      elif newto:
        # what ClientTimeoutSink._TimeoutHelper does when the call's timer fires
        r = newto[0]
        evts[r].Set(True)
        stacks[r].AsyncProcessResponseMessage(MethodReturnMessage(error=TimeoutError()))
    elif name == 'PeerStep':
      c = live_conn()
      if s['st'] == 'Closed' and prev['st'] == 'Open':
        if c is not None:
          c.feed_error()
      elif len(s['inbound']) > len(prev['inbound']) and c is not None:
        typ, tag = s['inbound'][-1]
        if typ == -2:
          r = ptm.get(tag)
          un = [p for p in peer.unanswered() if p.tag == realtag.get(r) and not p.conn.closed]
          if not un:
            drift = drift or {'step': steps, 'action': ['PeerAnswer', tag], 'spec': 'tag %d (request %s) is on the wire' % (tag, r),
                              'real': 'the peer holds no unanswered request with tag %s' % realtag.get(r)}
            break
          peer.release(un[-1])
        else:
          # a stray frame: names a tag that is not on the wire (free, never allocated, reserved)
          free_m = sorted(prev['pool']['free'])
          free_r = sorted(transport._tag_pool._set)
          if tag in free_m and len(free_r) == len(free_m):
            rt = free_r[free_m.index(tag)]
          elif tag in ptm:
            rt = realtag.get(ptm[tag], tag)
          elif tag > prev['pool']['next']:
            rt = tag + 40          # never allocated in either
          else:
            rt = tag
          peer.send_frame(c, -2, rt, b'\x00\x00\x00')
    elif name == 'Run':
      pass
    elif name == 'Quiesced':
      loop.settle()
      compared += 1
      try:
        real = project_real()
      except Exception as ex:
        real = {'error': repr(ex)[:200]}
      spec = project_spec(s)
      if drift is None and real != spec:
        drift = {'step': steps, 'action': ['Quiesced'], 'spec': spec, 'real': real}
    prev = s
    if drift:
      break
  return {'steps': steps, 'compared': compared, 'drift': drift}


def replay_behaviours(prop, tier, seed, _mux_part=None):
  from harness import tlc
  if prop == 'C11' or (prop == 'C08' and _mux_part is None):
    num = 300 if tier == 'quick' else 3000
    r, behs = tlc.simulate_behaviours('MuxTransportQ', 'MuxTransportQ_sim.cfg', num=num, depth=60, seed=int(seed) + 5)
    if not behs:
      raise RuntimeError('no behaviours from TLC simulate:\n' + r.stdout[-1500:])
    res = common.run_forked(_replay_mux, behs)
    errs_ = [x['err'] for x in res if 'err' in x]
    if errs_:
      raise RuntimeError('mux replay failed: ' + errs_[0])
    drift = [x['ok']['drift'] for x in res if x['ok']['drift']]
    out = {'summary': {'model': 'MuxTransportQ', 'behaviours_replayed': len(behs),
                       'steps_replayed': sum(x['ok']['steps'] for x in res),
                       'quiescent_points_compared': sum(x['ok']['compared'] for x in res), 'drift': len(drift)},
           'traces': [], 'drift': drift}
    if prop == 'C11':
      return out
    ser = replay_behaviours(prop, tier, seed, _mux_part=out)
    return {'summary': {'serial': ser['summary'], 'mux': out['summary']}, 'traces': [], 'drift': ser['drift'] + out['drift']}
  if prop != 'C08':
    return {'summary': {}, 'traces': [], 'drift': []}
  num = 300 if tier == 'quick' else 3000
  r, behs = tlc.simulate_behaviours('SerialTransport', 'SerialTransport_sim.cfg', num=num, depth=30, seed=int(seed) + 3)
  if not behs:
    raise RuntimeError('no behaviours from TLC simulate:\n' + r.stdout[-1500:])
  res = common.run_forked(_replay_serial, behs)
  errs_ = [x['err'] for x in res if 'err' in x]
  if errs_:
    raise RuntimeError('serial replay failed: ' + errs_[0])
  drift = [x['ok']['drift'] for x in res if x['ok']['drift']]
  return {'summary': {'model': 'SerialTransport', 'behaviours_replayed': len(behs),
                      'steps_compared': sum(x['ok']['steps'] for x in res), 'drift': len(drift)},
          'traces': [], 'drift': drift}
