"""Engine `thriftwire` (C14): framed Thrift calls and replies agree with the Thrift library's codec.

Specs: TBinaryWire (reference codec, classification, stream -> frame function), TBinaryWireCheck (its bounded
self-consistency and the classification case table), ThriftWireAbs (oracle, named clauses), ThriftWireTrace
(batched validation), ReadAll (code-shaped model of the chunked
header-then-body reads, model-checked; every chunking TLC enumerates is replayed on the real code),
ThriftWireWrite (code-shaped model of the length-then-payload write over sockets whose send() accepts only
part of the buffer, model-checked; every split TLC enumerates is replayed on the real code).

Code under test (always the real classes from /repo): scales.thrift.serializer.MessageSerializer via
ThriftSerializerSink, scales.thrift.sink.SocketTransportSink, scales.varz.VarzSocketWrapper,
scales.scales_socket.ScalesSocket, MessageDispatcher/_AsyncResponseSink and the generated proxy.
Only `scales.scales_socket.gsocket` is replaced (FakeSocket: gevent-free, scripted chunking of reads, scripted
/ bounded acceptance per send(): `send()` takes 1..len bytes and returns the count, `sendall()` is the socket
library's loop over send(); the peer receives exactly the accepted bytes) and `ScalesSocket._resolveAddr` stubbed.

(a) direction A: `ReadAll` is model-checked; TLC prints every complete chunking of every bounded
    stream (history variable); each is replayed on the real transport ("varz" variant: real
    SocketTransportSink over VarzSocketWrapper over ScalesSocket) and on ScalesSocket.readAll ("raw"),
    the sequence of (requested, delivered) sizes and the outcomes are compared with the model (drift)
    and the recorded Read event is judged by ThriftWireAbs.  Likewise `ThriftWireWrite`: every complete
    sequence of per-send() accepted sizes of every bounded payload is replayed on the real transport (both
    variants), the (offered, accepted) log and the bytes the peer received are compared with the model
    (drift) and the recorded Write event is judged by ThriftWireAbs (C14.framePrefix).
(b)(c) direction B: seeded calls over the Hello interface of the repo's tests and the hand-written
    gen_py_x interfaces through the real client stack; the peer is the Thrift library's generated
    Processor over the pure-Python TBinaryProtocol; reply streams are delivered with scripted
    chunkings (and truncated at arbitrary points); one Call and one Reply event per call.
(d) direction B under partial sends: the same, over connections whose send() accepts at most 1 / 3 / 7 / 64 /
    1000 bytes per call, arguments from empty to a few KiB (ASCII and non-ASCII), through the real client
    stack (VarzSocketWrapper.write), the transport directly over ScalesSocket (the ScalesSocket.write loop)
    and concurrently on one client (a cut-short send() blocks, the other callers' writes run meanwhile).
    The Call event's `bytes` are what the peer received on the call's connection (the concatenation of the
    accepted pieces, listed in `tx`) up to the end of the call (reply, error or timeout).
(e) a deadline that expires inside a blocked write: the peer stops reading after a scripted number of bytes
    (inside the length word, inside the header, inside the payload): send() blocks (FakeSocket.room, like
    SimConn.stall_until), the call's deadline (real ClientTimeoutSink + the transport's gevent.Timeout) passes,
    the peer reads again and 1-3 further calls go through the SAME client (stacks min / raw / full), and the
    concurrent form on one full-stack client (groups of 2-3 calls, some connections stalled).  One Wire event
    per scenario: per connection the stream the peer received, its lengths at the quiescent points and what
    the Processor decoded from every complete frame; ThriftWireAbs!WireCheck: complete frames of calls that
    were made, an unfinished frame only where nothing is sent after it.  The same scenario at transport level
    is the code-shaped model ThriftWireTxn (WireCheck embedded, model-checked; the variant that keeps the
    connection is a counterexample generator), every scenario replayed on the real SocketTransportSink.
(f) deeper interface hierarchies: gen_py_x/deep (Deep extends Derived extends Base) and gen_py_x/app (an
    application-side Python subclass of Derived.Iface): methods of the interface itself, of its parent and of
    its grandparent through the real stack.
(g) large replies through the builder's default protocol factory: texts of 1 MiB-1 / 1 MiB / 1 MiB+1 UTF-8
    bytes (ASCII, 2-, 3-, 4-byte code points: bytes != characters), lists of 65535 / 65536 / 65537 (and
    200000) elements, declared and application exceptions carrying such texts, a struct carrying both.  Long
    texts / lists / reply streams travel in RUN FORM in the traces ([{p: pattern, n: count}, ...]; to_runs is a
    lossless syntactic compression); the oracle encodes the run form exactly (TBinaryWire Rep / Utf8Runs,
    RunLaw in TBinaryWireCheck) and TLC decides every verdict on the full megabyte streams (about 1-2 s each).
"""
import random
import struct

from harness import common, tlc

NAME = 'thriftwire'
PROPS = ['C14']
LEVEL = {'C14': 'model_checking'}
TRACE_MODULE = 'ThriftWireTrace'
TRACE_CFG = 'ThriftWireTrace.cfg'
TRACE_CHUNK = 250        # set per tier in cases()
ASSUMPTIONS = [
  'the peer is the Thrift library\'s generated Processor over the pure-Python TBinaryProtocol (thrift 0.24); '
  'gen_py_x interfaces are hand-written in the style of the compiler output (no thrift compiler offline)',
  'FakeSocket stands in for a TCP socket: in-order byte stream, a read returns 1..requested bytes, 0 bytes = EOF; '
  'a send() accepts 1..offered bytes and returns the count, sendall() returns when everything was accepted; '
  'connections stay open and writable (no send faults): a call\'s bytes are everything its connection '
  'accepted until the call ended',
  'a call whose writer was thrown out of a send() that the environment kept blocked (peer not reading until the '
  'deadline) has no Call event: nothing is prescribed for its own bytes; the per-connection Wire clauses apply. '
  'Quiescent points (cuts) are taken when every call made so far has returned, failed or timed out. No EOF / '
  'truncated replies in these scenarios (an EOF legitimately faults the sink of a single-endpoint client)',
  'large replies: 8 boundary cases per quick run (6 fixed + 2 drawn from a catalogue of 24), all 24 in thorough; '
  'maps / sets at the 64 Ki boundary are not covered (65537 distinct keys cannot be run-compressed; the codec '
  'applies one and the same container limit to lists, sets and maps)',
  'partial sends are exhaustive (TLC) for payloads up to 4 (quick) / 8 (thorough) bytes: every split of the '
  'frame across send() calls; real calls (up to ~4 KiB frames) are sampled with a fixed per-send() limit '
  'in {1, 3, 7, 64, 1000}',
  'chunk-independence is exhaustive (TLC) for streams up to 8 (quick) / 12 (thorough) bytes and two '
  'transactions per connection; longer (real reply) streams are sampled: every single split point, '
  'byte-by-byte, header splits and seeded random chunkings',
  'codec agreement is sampled over seeded argument/return values (exploration level), i64 values travel as '
  '8-byte sequences in traces (TLC integers are 32 bit)',
  'replies outside the property (non-void reply without result, two exceptions set, malformed payloads) are '
  'recorded but only chunk-independence is asserted for them',
]
RULE = {'C14': 'direction A: every chunking of every bounded stream and every split of every bounded frame across '
               'partial sends and every bounded scenario of consecutive transactions with deadlines (stall inside the '
               'write / no reply / reply) enumerated by TLC (distinct by stream+chunks / payload+accepted sizes / script); '
               'direction B: batches of seeded calls (interface x method x argument values x positional/keyword '
               'form x sync/async proxy form x server behaviour x chunking x truncation x per-send() limit x '
               'argument size x transport variant); a trace is non-trivial '
               'if it contains a Reply whose stream was delivered in more than one read, a Call whose frame was '
               'accepted in more than one send(), a Read with more than one socket read or a Write with more '
               'than one send(), or a Wire scenario with more than one connection or an unfinished frame; distinct by '
               'canonical event list'}
EXHAUSTIVE = {('C14', 'quick'): False, ('C14', 'thorough'): False}
CASE_TIMEOUT = 300

ENUM_CFG = {'quick': 'ReadAll_enum_q.cfg', 'thorough': 'ReadAll_enum_t.cfg'}
WENUM_CFG = {'quick': 'ThriftWireWrite_enum_q.cfg', 'thorough': 'ThriftWireWrite_enum_t.cfg'}
XENUM_CFG = {'quick': 'ThriftWireTxn_enum_q.cfg', 'thorough': 'ThriftWireTxn_enum_t.cfg'}


# the variant that keeps the connection when the deadline expires before write() has returned: TLC must find
# the next transaction written behind the unfinished frame (the per-connection clauses are not vacuous)
TXN_KEEP = dict(module='ThriftWireTxn', cfg='ThriftWireTxn_keep.cfg', workers=2, expect_violation='NoViolation',
                what='counterexample generator: connection kept after a deadline inside write() -> C14.framePrefix')


def models(prop, tier):
  codec = dict(module='TBinaryWireCheck', cfg='TBinaryWireCheck.cfg', workers=4,
               what='reference codec laws (ints, UTF-8, Skip/EncVal, ParseMsg/MsgBegin inverse) and the reply '
                    'classification as an exhaustive case table over (method kind, message type, fields present)')
  if tier == 'quick':
    return [dict(module='ReadAll', cfg='ReadAll_q.cfg', coverage=True, workers=4,
                 what='header-then-body reads, streams <= 8 bytes, 2 transactions, both readAll variants, all chunkings'),
            dict(module='ThriftWireWrite', cfg='ThriftWireWrite_q.cfg', coverage=True, workers=2,
                 what='length-then-payload write, payloads <= 4 bytes, both write variants (sendall / the '
                      'ScalesSocket.write loop), every split of the frame across partial send() calls'),
            dict(module='ThriftWireTxn', cfg='ThriftWireTxn_q.cfg', coverage=True, workers=4,
                 what='2 consecutive transactions with deadlines on one sink, payloads <= 1 byte: partial sends {1, 3}, '
                      'deadline expiring inside a blocked write / while waiting for the reply, close+reopen; '
                      'ThriftWireAbs!WireCheck on the per-connection streams after every transaction'),
            TXN_KEEP,
            codec]
  return [dict(module='ReadAll', cfg='ReadAll_q.cfg', coverage=True, workers=4,
               what='streams <= 8 bytes, 2 transactions, all chunkings'),
          dict(module='ReadAll', cfg='ReadAll_t.cfg', coverage=True, workers=8,
               what='streams <= 12 bytes, 2 transactions, all chunkings'),
          dict(module='ThriftWireWrite', cfg='ThriftWireWrite_t.cfg', coverage=True, workers=4,
               what='payloads <= 8 bytes, both write variants, every split across partial send() calls'),
          dict(module='ThriftWireTxn', cfg='ThriftWireTxn_t.cfg', coverage=True, workers=6,
               what='2 transactions with deadlines, payloads <= 2 bytes, every split / stall point / reply outcome'),
          dict(module='ThriftWireTxn', cfg='ThriftWireTxn_t3.cfg', coverage=True, workers=6,
               what='3 transactions with deadlines, payloads <= 1 byte, partial sizes {1, 3}'),
          TXN_KEEP,
          codec]


# =================================================================== typed values
# Mirrors the value shapes documented in specs/TBinaryWire.tla.
# Long texts / lists / byte streams travel in run form (see specs/TBinaryWire.tla): `r` = [{'p': pattern,
# 'n': count}, ...] instead of `v`.  The compression is lossless and purely syntactic; the oracle works on it.
RUN_MIN = 2048          # sequences shorter than this stay plain


def to_runs(seq, key=None):
  """greedy run-length form of a sequence: periodic stretches (period 1..4) of at least 64 items become one
  run, everything between them literal runs (n = 1)"""
  seq = list(seq)
  ks = seq if key is None else [key(x) for x in seq]
  out, lit, i, n = [], [], 0, len(seq)

  def reps_at(i, per):
    # number of whole repetitions of ks[i:i+per] starting at i (galloping, slice comparisons)
    pat = ks[i:i + per]
    if len(pat) < per or ks[i:i + 64] != (pat * 64)[:min(64, n - i)] or n - i < 64:
      return 0
    lo, hi = 64 // per, (n - i) // per
    step = lo
    while lo < hi:
      k = min(hi, lo + step)
      if ks[i + lo * per:i + k * per] == pat * (k - lo):
        lo, step = k, step * 2
      elif step == 1:
        break
      else:
        step = max(1, step // 2)
    return lo

  while i < n:
    best = None
    for per in (1, 2, 3, 4):
      reps = reps_at(i, per)
      if reps * per >= 64:
        best = (reps, per)
        break
    if best is None:
      lit.append(seq[i])
      i += 1
      continue
    if lit:
      out.append({'p': lit, 'n': 1})
      lit = []
    out.append({'p': seq[i:i + best[1]], 'n': best[0]})
    i += best[0] * best[1]
  if lit:
    out.append({'p': lit, 'n': 1})
  return out


def from_runs(runs):
  out = []
  for r in runs:
    out.extend(list(r['p']) * r['n'])
  return out


def text_tv(text):
  """typed value of a Python str (run form when long)"""
  cps = [ord(c) for c in text]
  if len(cps) < RUN_MIN:
    return {'t': 'str', 'v': cps}
  return {'t': 'str', 'v': [], 'r': to_runs(cps)}


def tv_none():
  return {'t': 'none'}


def _is_none(tv):
  return tv.get('t') == 'none'


def _struct_classes():
  from harness.gen_py_x.base import ttypes as bt
  return {'Item': bt.Item, 'Boom': bt.Boom, 'Bust': bt.Bust}


def from_tv(tv):
  """typed value -> Python object handed to the proxy / returned by the handler."""
  t = tv['t']
  if t == 'none':
    return None
  if t == 'bool':
    return bool(tv['v'])
  if t == 'i32':
    return int(tv['v'])
  if t == 'i64':
    return struct.unpack('!q', bytes(tv['v']))[0]
  if t == 'str':
    if 'r' in tv:
      return ''.join(''.join(chr(c) for c in r['p']) * r['n'] for r in tv['r'])
    return ''.join(chr(c) for c in tv['v'])
  if t == 'list':
    if 'r' in tv:
      return [from_tv(x) for x in from_runs(tv['r'])]
    return [from_tv(x) for x in tv['v']]
  if t == 'struct':
    cls = _struct_classes()[tv['n']]
    spec = {s[0]: s for s in cls.thrift_spec if s}
    kw = {}
    for f in tv['f']:
      kw[spec[f['id']][2]] = from_tv(f['v'])
    return cls(**kw)
  raise ValueError(t)


_TT = {2: 'bool', 8: 'i32', 10: 'i64', 11: 'str', 12: 'struct', 15: 'list'}


class _Opaque(Exception):
  pass


def _to_tv(val, ttype, extra):
  if val is None:
    raise _Opaque()
  k = _TT.get(ttype)
  if k == 'bool':
    if not isinstance(val, bool):
      raise _Opaque()
    return {'t': 'bool', 'v': 1 if val else 0}
  if k == 'i32':
    if isinstance(val, bool) or not isinstance(val, int) or not -2 ** 31 <= val < 2 ** 31:
      raise _Opaque()
    return {'t': 'i32', 'v': val}
  if k == 'i64':
    if isinstance(val, bool) or not isinstance(val, int) or not -2 ** 63 <= val < 2 ** 63:
      raise _Opaque()
    return {'t': 'i64', 'v': list(struct.pack('!q', val))}
  if k == 'str':
    if isinstance(val, bytes):
      try:
        val = val.decode('utf8')
      except UnicodeDecodeError:
        raise _Opaque()
    if not isinstance(val, str):
      raise _Opaque()
    return text_tv(val)
  if k == 'list':
    if not isinstance(val, (list, tuple)):
      raise _Opaque()
    et, eextra = extra[0], extra[1]
    elems = [_to_tv(x, et, eextra) for x in val]
    if len(elems) < RUN_MIN:
      return {'t': 'list', 'et': _TT[et], 'v': elems}
    return {'t': 'list', 'et': _TT[et], 'v': [], 'r': to_runs(elems, key=common.canon)}
  if k == 'struct':
    cls = extra[0]
    if not isinstance(val, cls):
      raise _Opaque()
    return struct_tv(val)
  raise _Opaque()


def struct_tv(obj):
  """Thrift struct / exception object -> typed value (set fields only, in field-id order)."""
  from thrift.Thrift import TApplicationException
  if isinstance(obj, TApplicationException):
    f = []
    if obj.message is not None:
      f.append({'id': 1, 'v': _to_tv(obj.message, 11, 'UTF8')})
    if obj.type is not None:
      f.append({'id': 2, 'v': _to_tv(obj.type, 8, None)})
    return {'t': 'struct', 'n': 'TApplicationException', 'f': f}
  spec = getattr(type(obj), 'thrift_spec', None)
  if spec is None:
    raise _Opaque()
  f = []
  for s in spec:
    if not s:
      continue
    v = getattr(obj, s[2], None)
    if v is not None:
      f.append({'id': s[0], 'v': _to_tv(v, s[1], s[3])})
  return {'t': 'struct', 'n': type(obj).__name__, 'f': f}


def to_tv(val, ttype, extra):
  try:
    return _to_tv(val, ttype, extra)
  except _Opaque:
    return {'t': 'opaque'}


# =================================================================== interfaces (harness-side description)
# Only used to *generate* inputs; the oracle's description is Idl in TBinaryWire.tla.
def _ifaces():
  from test.scales.thrift.gen_py.hello import Hello
  from harness.gen_py_x.base import Base
  from harness.gen_py_x.derived import Derived
  from harness.gen_py_x.other import Other
  from harness.gen_py_x.deep import Deep
  from harness.gen_py_x.app import DerivedApi
  # deep: Deep extends Derived extends Base (three modules); derivedapi: an application-side Python subclass of
  # Derived.Iface handed to the client builder (its own module has no args/result classes at all)
  return {'hello': Hello, 'base': Base, 'derived': Derived, 'other': Other, 'deep': Deep, 'derivedapi': DerivedApi}


def mkey(iface, m):
  """key of the method in the oracle's interface table (Idl in TBinaryWire.tla): Other's methods are named
  like the other interfaces' methods, so their keys carry the interface."""
  return 'other_' + m if iface == 'other' else m


ITEM = ('struct', 'Item')
METHODS = {
  'hello': {'hi': dict(args=[('test_data', 'str')], ret='str', exc=[])},
  'base': {
    'echo': dict(args=[('s', 'str')], ret='str', exc=[]),
    'add': dict(args=[('a', 'i32'), ('b', 'i64')], ret='i64', exc=[]),
    'ping': dict(args=[], ret=None, exc=[]),
    'put': dict(args=[('item', ITEM), ('note', 'str')], ret=ITEM, exc=['Boom', 'Bust']),
    'reset': dict(args=[('level', 'i32')], ret=None, exc=['Boom']),
    'fire': dict(args=[('s', 'str')], ret=None, exc=[], oneway=True),
    'count': dict(args=[('names', ('list', 'str'))], ret='i32', exc=[]),
    'check': dict(args=[('b', 'bool'), ('item', ITEM)], ret='bool', exc=[]),
  },
}
METHODS['derived'] = dict(METHODS['base'])
METHODS['derived'].update({
  'twice': dict(args=[('x', 'i32')], ret='i32', exc=[]),
  'drop': dict(args=[('key', 'str')], ret=None, exc=['Boom']),
})
METHODS['derivedapi'] = dict(METHODS['derived'])
METHODS['deep'] = dict(METHODS['derived'])
METHODS['deep'].update({
  'label': dict(args=[('s', 'str')], ret='str', exc=[]),
  'names': dict(args=[('n', 'i32'), ('prefix', 'str')], ret=('list', 'str'), exc=[]),
})
# same method names as above, different argument lists and result types (gen_py_x/other)
METHODS['other'] = {
  'hi': dict(args=[('n', 'i32')], ret='i64', exc=[]),
  'echo': dict(args=[('v', 'i64'), ('tag', 'str')], ret='i64', exc=[]),
  'add': dict(args=[('a', 'str'), ('b', 'str')], ret='str', exc=[]),
  'ping': dict(args=[('token', 'str')], ret='str', exc=[]),
  'count': dict(args=[('upto', 'i32')], ret=('list', 'str'), exc=[]),
  'reset': dict(args=[('name', 'str'), ('hard', 'bool')], ret='bool', exc=[]),
  'twice': dict(args=[('x', 'i64')], ret='i64', exc=[]),
  'drop': dict(args=[('key', 'i32'), ('count', 'i32')], ret=None, exc=[]),
}

_CPS = [0x61, 0x62, 0x7a, 0x41, 0x30, 0x20, 0x5f, 0x0a, 0x00, 0x7f,          # 1-byte (incl. NUL, DEL)
        0x80, 0xe9, 0x3b1, 0x7ff,                                              # 2-byte
        0x800, 0x20ac, 0x4e2d, 0xd7ff, 0xe000, 0xfffd, 0xffff,                 # 3-byte (surrogate neighbours)
        0x10000, 0x1f600, 0x10ffff]                                            # 4-byte
_I32 = [0, 1, -1, 2, 127, 128, 255, 256, -128, -129, 32767, 32768, 65535, 65536, -65536, 16777215, 16777216,
        2 ** 31 - 1, -2 ** 31, -2 ** 31 + 1, 305419896, -19088744]
_I64 = [0, 1, -1, 255, 256, 2 ** 31 - 1, 2 ** 31, -2 ** 31 - 1, 2 ** 32, 2 ** 40 + 7, -2 ** 40, 2 ** 53 + 1,
        2 ** 63 - 1, -2 ** 63, -2 ** 63 + 1, 0x0102030405060708, -0x0102030405060708]


def gen_value(rng, ty, depth=0):
  if ty == 'str':
    r = rng.random()
    if r < 0.15:
      return {'t': 'str', 'v': []}
    n = rng.choice([1, 1, 2, 3, 5, 8, 13, 30]) if r < 0.95 else rng.choice([127, 128, 255, 256, 300])
    return {'t': 'str', 'v': [rng.choice(_CPS) for _ in range(n)]}
  if ty == 'i32':
    return {'t': 'i32', 'v': rng.choice(_I32) if rng.random() < 0.7 else rng.randint(-2 ** 31, 2 ** 31 - 1)}
  if ty == 'i64':
    v = rng.choice(_I64) if rng.random() < 0.7 else rng.randint(-2 ** 63, 2 ** 63 - 1)
    return {'t': 'i64', 'v': list(struct.pack('!q', v))}
  if ty == 'bool':
    return {'t': 'bool', 'v': rng.randint(0, 1)}
  if ty[0] == 'list':
    n = rng.choice([0, 0, 1, 2, 3, 5])
    return {'t': 'list', 'et': ty[1] if isinstance(ty[1], str) else ty[1][0],
            'v': [gen_value(rng, ty[1], depth + 1) for _ in range(n)]}
  if ty[0] == 'struct':
    n = ty[1]
    if n == 'Item':
      spec = [(1, 'i32'), (2, 'str'), (3, 'i64'), (4, ('list', 'str')), (5, 'bool')]
    elif n == 'Boom':
      spec = [(1, 'str'), (2, 'i32')]
    elif n == 'Bust':
      spec = [(1, ITEM)]
    f = []
    for (i, t) in spec:
      if rng.random() < 0.75:
        f.append({'id': i, 'v': gen_value(rng, t, depth + 1)})
    return {'t': 'struct', 'n': n, 'f': f}
  raise ValueError(ty)


def _gen_chunks(rng, n):
  """Chunk script for a stream of n bytes: list of per-read sizes (exhausted -> every read is full)."""
  r = rng.random()
  if r < 0.2:
    return [1] * n                                   # byte by byte
  if r < 0.4:
    k = rng.randint(1, max(1, n - 1))                # one split point anywhere
    return [k] if k <= 4 else [4, k - 4]
  if r < 0.55:
    return [rng.randint(1, 3) for _ in range(4)]     # split the length word
  if r < 0.7:
    return [4, rng.randint(1, max(1, n - 5))]        # header whole, body split once
  out = []
  left = n
  while left > 0:
    k = rng.choice([0, 1, 1, 2, 3, 5, 8, 13, 64])   # 0 = full read
    out.append(k)
    left -= k or 4
  return out


def _gen_call(rng, iface, m=None):
  ms = METHODS[iface]
  if m is None:
    m = rng.choice(sorted(ms))
  d = ms[m]
  pos, kw = [], []
  nargs = len(d['args'])
  npos = rng.randint(0, nargs)
  form = rng.random()
  if form < 0.5:
    npos = nargs
  for i, (name, ty) in enumerate(d['args']):
    if rng.random() < 0.06:
      v = tv_none()          # argument left unset
    else:
      v = gen_value(rng, ty)
    if i < npos:
      pos.append(v)
    elif rng.random() < 0.85:
      kw.append({'k': name, 'v': v})
  rng.shuffle(kw)
  # server behaviour
  srv = {'do': 'return', 'v': gen_value(rng, d['ret']) if d['ret'] else tv_none()}
  r = rng.random()
  if d.get('oneway'):
    srv = {'do': 'return', 'v': tv_none()}
  elif d['exc'] and r < 0.35:
    cls = rng.choice(d['exc'])
    srv = {'do': 'raise', 'v': gen_value(rng, ('struct', cls))}
  elif r < 0.47:
    srv = {'do': 'appexc', 'type': rng.choice([0, 1, 2, 5, 6, 7, 10, 2 ** 31 - 1, -1]),
           'msg': gen_value(rng, 'str')['v']}
  elif r < 0.52:
    srv = {'do': 'crash'}                       # generic exception -> INTERNAL_ERROR
  elif r < 0.56:
    srv = {'do': 'unknown'}                     # processor that does not know the method
  elif r < 0.60 and d['ret']:
    srv = {'do': 'return', 'v': tv_none()}      # non-void returning None: outside the property
  elif r < 0.66:
    srv = {'do': 'extra', 'v': srv['v']}        # normal result + an unknown extra field (must be skipped)
  call = {'iface': iface, 'm': m, 'pos': pos, 'kw': kw, 'srv': srv,
          'form': rng.choice(['sync', 'async']), 'stack': 'min' if rng.random() < 0.8 else 'full',
          'proto': 'accel' if rng.random() < 0.7 else 'pure',
          'chunks': None, 'cut': -1}
  call['chunkseed'] = rng.randint(0, 2 ** 30)
  if rng.random() < 0.12:
    call['cut'] = rng.randint(0, 40)            # truncate the reply stream (EOF at any point)
  return call


# ---- calls for the write path under partial sends: one send() accepts at most `smax` bytes
_SMAX = [1, 3, 7, 64, 1000]
_BIGLEN = [0, 1, 2, 5, 30, 40, 50, 60, 64, 70, 130, 300, 700, 960, 980, 1000, 1024, 1500, 2048, 3000, 4096]
_TXMETH = {'hello': ['hi'], 'base': ['echo', 'put', 'fire', 'count', 'echo', 'ping', 'add'],
           'derived': ['echo', 'put', 'drop', 'count', 'twice', 'fire'],
           'other': ['add', 'ping', 'echo', 'reset', 'hi']}


def _big_str(rng, n):
  """text of about n UTF-8 bytes: ASCII, mixed widths, or 3-byte code points only"""
  r = rng.random()
  if r < 0.45:
    return {'t': 'str', 'v': [rng.choice(_CPS[:7]) for _ in range(n)]}
  if r < 0.8:
    out, left = [], n
    while left > 0:
      c = rng.choice(_CPS)
      out.append(c)
      left -= 1 if c < 0x80 else 2 if c < 0x800 else 3 if c < 0x10000 else 4
    return {'t': 'str', 'v': out}
  return {'t': 'str', 'v': [rng.choice([0x4e2d, 0x20ac, 0xfffd, 0x800]) for _ in range(max(n // 3, 1 if n else 0))]}


def _grow(rng, v, n):
  """the typed value v with its text parts grown to about n bytes in total"""
  if v.get('t') == 'str':
    return _big_str(rng, n)
  if v.get('t') == 'list' and v.get('et') == 'str':
    k = rng.choice([1, 2, 5, 9]) if n else rng.choice([0, 1, 3])
    return {'t': 'list', 'et': 'str', 'v': [_big_str(rng, n // k) for _ in range(k)]}
  if v.get('t') == 'struct':
    return {'t': 'struct', 'n': v['n'], 'f': [{'id': f['id'], 'v': _grow(rng, f['v'], n // 2)} for f in v['f']]}
  return v


def _gen_tx_call(rng, iface, smax, size):
  """a call whose text arguments are grown to about `size` bytes (None: as generated, tiny)"""
  c = _gen_call(rng, iface, rng.choice(_TXMETH[iface]))
  while c['srv']['do'] == 'unknown':
    c = _gen_call(rng, iface, c['m'])
  if size is not None:
    nstr = sum(1 for v in c['pos'] + [x['v'] for x in c['kw']] if v.get('t') in ('str', 'list', 'struct')) or 1
    c['pos'] = [_grow(rng, v, size // nstr) for v in c['pos']]
    c['kw'] = [{'k': x['k'], 'v': _grow(rng, x['v'], size // nstr)} for x in c['kw']]
  c['smax'] = smax
  if rng.random() < 0.9:
    c['cut'] = -1
  return c


_STALLMETH = {'hello': ['hi'], 'base': ['echo', 'put', 'count'], 'derived': ['echo', 'put', 'drop', 'count'],
              'other': ['add', 'ping', 'echo', 'reset']}


def _gen_stall_call(rng, iface, smax, size, big=False):
  """like _gen_tx_call, never oneway; big: a method with text arguments, none of them left unset"""
  if size is None:
    big = False
  for _ in range(50):
    if not big:
      c = _gen_tx_call(rng, iface, smax, size)
    else:
      c = _gen_call(rng, iface, rng.choice(_STALLMETH[iface]))
      if c['srv']['do'] == 'unknown' or any(v.get('t') == 'none' for v in c['pos'] + [x['v'] for x in c['kw']]):
        continue
      nstr = sum(1 for v in c['pos'] + [x['v'] for x in c['kw']] if v.get('t') in ('str', 'list', 'struct')) or 1
      c['pos'] = [_grow(rng, v, size // nstr) for v in c['pos']]
      c['kw'] = [{'k': x['k'], 'v': _grow(rng, x['v'], size // nstr)} for x in c['kw']]
      c['smax'] = smax
    if not METHODS[iface][c['m']].get('oneway'):
      break
  # no truncated reply streams here: an EOF legitimately faults the sink (single endpoint: the client is dead
  # from then on), and these scenarios are about the calls that follow on the same client
  c['cut'] = -1
  return c


def _gen_room(rng, size):
  """bytes the peer still takes before it stops reading: inside the length word, inside the message header,
  anywhere inside the payload"""
  r = rng.random()
  if r < 0.3:
    return rng.randint(0, 3)
  if r < 0.5:
    return rng.choice([4, 5, 8, 11, 12, 16, 20])
  return max(4, int(size * rng.choice([0.05, 0.2, 0.5, 0.8, 0.95, 1.0])))


def _reply_event(m, run, ref, same):
  stream = run['stream']
  e = {'e': 'Reply', 'm': m, 'stream': list(stream) if len(stream) < RUN_MIN else [],
       'same_stream': 1 if same else 0,
       'chunks': [k for (_r, k) in run['reads'][:64]], 'out': run['out'], 'ref': ref['out']}
  if len(stream) >= RUN_MIN:
    e['streamr'] = to_runs(stream)
  return e


# ---- large replies: texts around 1 MiB of UTF-8, lists around 64 Ki elements, exceptions carrying such texts
MIB = 1 << 20


def _run_text(parts):
  """typed text value in run form from [(code points, count), ...]"""
  return {'t': 'str', 'v': [], 'r': [{'p': list(p), 'n': n} for (p, n) in parts if n > 0]}


def _run_list(elem, n):
  return {'t': 'list', 'et': 'str', 'v': [], 'r': [{'p': [elem], 'n': n}]}


def _big_replies():
  """catalogue: (label, iface, method, server behaviour); bytes != characters for the non-ASCII ones"""
  a, ue, zh = [0x61], [0xfc], [0x4e2d]
  texts = [
    ('ascii-1MiB-1', _run_text([(a, MIB - 1)])), ('ascii-1MiB', _run_text([(a, MIB)])),
    ('ascii-1MiB+1', _run_text([(a, MIB + 1)])), ('ascii-3MiB', _run_text([([0x61, 0x62, 0x63], MIB)])),
    ('2byte-1MiB', _run_text([(ue, MIB // 2)])), ('2byte-1MiB-1', _run_text([(a, 1), (ue, MIB // 2 - 1)])),
    ('2byte-1MiB+1', _run_text([(ue, MIB // 2), (a, 1)])), ('2byte-1.2MB', _run_text([(ue, 600000)])),
    ('3byte-1MiB', _run_text([(zh, 349525), (a, 1)])), ('3byte-1MiB+2', _run_text([(zh, 349526)])),
    ('mixed-1MiB+1', _run_text([([0x61, 0xfc, 0x4e2d, 0x1f600], 104857), ([0x62], 7)])),
  ]
  out = []
  rets = [('hello', 'hi'), ('base', 'echo'), ('deep', 'label'), ('other', 'add'), ('derived', 'echo'), ('other', 'ping')]
  for i, (lab, tv) in enumerate(texts):
    iface, m = rets[i % len(rets)]
    out.append(('text/' + lab, iface, m, {'do': 'return', 'v': tv}))
  lists = [('list-65535', 65535, []), ('list-65536', 65536, []), ('list-65537', 65537, []),
           ('list-65536x', 65536, [0x78]), ('list-65537x', 65537, [0xfc, 0x79]), ('list-200000', 200000, [])]
  for i, (lab, n, cps) in enumerate(lists):
    iface, m = [('other', 'count'), ('deep', 'names')][i % 2]
    out.append(('list/' + lab, iface, m, {'do': 'return', 'v': _run_list({'t': 'str', 'v': cps}, n)}))
  boom = lambda tv: {'t': 'struct', 'n': 'Boom', 'f': [{'id': 1, 'v': tv}, {'id': 2, 'v': {'t': 'i32', 'v': 7}}]}
  out.append(('exc/boom-1MiB', 'base', 'put', {'do': 'raise', 'v': boom(_run_text([(a, MIB)]))}))
  out.append(('exc/boom-1MiB+1', 'derived', 'drop', {'do': 'raise', 'v': boom(_run_text([(a, MIB + 1)]))}))
  out.append(('exc/boom-2byte-1MiB+1', 'deep', 'reset', {'do': 'raise', 'v': boom(_run_text([(ue, MIB // 2), (a, 1)]))}))
  out.append(('exc/app-1MiB+1', 'base', 'ping', {'do': 'appexc', 'type': 6, 'msg': [], 'msgtv': _run_text([(a, MIB + 1)])}))
  out.append(('exc/app-1MiB', 'hello', 'hi', {'do': 'appexc', 'type': 0, 'msg': [], 'msgtv': _run_text([(ue, MIB // 2)])}))
  item = {'t': 'struct', 'n': 'Item', 'f': [{'id': 1, 'v': {'t': 'i32', 'v': 1}}, {'id': 2, 'v': _run_text([(a, MIB + 1)])},
                                            {'id': 4, 'v': _run_list({'t': 'str', 'v': [0x7a]}, 65537)}]}
  out.append(('struct/item-1MiB+1-65537', 'base', 'put', {'do': 'return', 'v': item}))
  return out


_BIG_ALWAYS = ['text/ascii-1MiB', 'text/ascii-1MiB+1', 'text/2byte-1MiB+1', 'list/list-65536', 'list/list-65537',
               'exc/boom-1MiB+1']
_BIG_CHUNKS = [[4, 0], [1, 1, 1, 1, 1000, 0], [2, 2, 65536, 1, 0], [4, 524288, 0], [3, 1, 12, 1, 0], [0]]


def _gen_big_calls(rng, tier):
  cat = _big_replies()
  if tier == 'quick':
    rest = [c for c in cat if c[0] not in _BIG_ALWAYS]
    rng.shuffle(rest)
    cat = [c for c in cat if c[0] in _BIG_ALWAYS] + rest[:2]
  out = []
  for (lab, iface, m, srv) in cat:
    c = _gen_call(rng, iface, m)
    c['srv'], c['cut'], c['proto'] = srv, -1, 'accel'          # the default protocol factory of the builder
    c['stack'] = 'min' if rng.random() < 0.6 else 'full'
    c['chunks'] = rng.choice(_BIG_CHUNKS)
    c['big'] = lab
    out.append(c)
  return out


def _wire_key(iface, call):
  """(method, set arguments by name): equal keys = equal request payloads"""
  names = [n for (n, _t) in METHODS[iface][call['m']]['args']]
  vals = dict(zip(names, call['pos']))
  for x in call['kw']:
    vals[x['k']] = x['v']
  return common.canon([call['m'], sorted((k, v) for k, v in vals.items() if v.get('t') != 'none')])


def cases(prop, tier, seed):
  global TRACE_CHUNK
  TRACE_CHUNK = 450 if tier == 'quick' else 1500
  rng = random.Random(7919 * int(seed) + 14)
  nb = 110 if tier == 'quick' else 2000
  per = 10
  out = []
  for b in range(nb):
    iface = ['hello', 'base', 'base', 'derived'][b % 4]
    out.append({'kind': 'rpc', 'calls': [_gen_call(rng, iface) for _ in range(per)], 'reuse': len(out) % 2})
  # interface pairs that share method names with different signatures, used one after the other through
  # separate clients in ONE process (both orders): exposes state keyed by bare generated names
  npairs = 24 if tier == 'quick' else 400
  for b in range(npairs):
    a, o = [('hello', 'other'), ('base', 'other'), ('derived', 'other')][b % 3]
    shared = sorted(set(METHODS[a]) & set(METHODS[o]))
    first, second = (a, o) if (b // 3) % 2 == 0 else (o, a)
    rng.shuffle(shared)
    calls = []
    for m in shared[:4]:
      calls.append(_gen_call(rng, first, m))
      calls.append(_gen_call(rng, second, m))
    while len(calls) < 8:
      calls.append(_gen_call(rng, rng.choice([first, second])))
    for c in calls:
      if c['srv']['do'] == 'unknown':
        c['srv'] = {'do': 'crash'}
    out.append({'kind': 'rpc', 'calls': calls, 'reuse': b % 2, 'pair': [first, second]})
  # concurrent groups: 2-3 calls issued on ONE client (full stack: balancer + pool, one connection per call)
  # before any reply is served; the replies are then served in a scripted order
  nconc = 40 if tier == 'quick' else 700
  for b in range(nconc):
    iface = ['hello', 'base', 'derived', 'other'][b % 4]
    groups = []
    for _ in range(3):
      k = rng.choice([2, 2, 3])
      calls = []
      for _c in range(k):
        c = _gen_call(rng, iface)
        while METHODS[iface][c['m']].get('oneway') or c['srv']['do'] == 'unknown':
          c = _gen_call(rng, iface)
        c['stack'] = 'full'
        c['proto'] = 'accel'
        if rng.random() < 0.85:
          c['cut'] = -1
        # two outstanding calls that are identical on the wire cannot be told apart by the peer (nor by the
        # harness): they get the same server behaviour, so it does not matter which is which
        for prev in calls:
          if _wire_key(iface, prev) == _wire_key(iface, c):
            c['srv'], c['cut'] = prev['srv'], prev['cut']
        calls.append(c)
      order = list(range(k))
      rng.shuffle(order)
      groups.append({'calls': calls, 'order': order})
    out.append({'kind': 'conc', 'iface': iface, 'groups': groups})
  # the write path under partial sends: every send() accepts at most smax bytes; payloads from tiny to a few
  # KiB; through the real client stack ('min' / 'full': VarzSocketWrapper.write) and through the transport
  # directly over ScalesSocket ('raw': the ScalesSocket.write loop); replies chunked as above
  nplain = len(out)
  ntx = 100 if tier == 'quick' else 600
  for b in range(ntx):
    iface = ['hello', 'base', 'derived', 'other'][b % 4]
    smax = _SMAX[b % 5]
    calls = []
    for j in range(6):
      if j == 0:
        size = None
      elif j == 1:
        size = rng.choice([0, 1, 2, 5, 30, 60, 64])
      elif j == 5:
        size = rng.choice([1500, 2048, 3000, 4096])
      else:
        size = rng.choice(_BIGLEN)
      c = _gen_tx_call(rng, iface, smax if rng.random() < 0.9 else rng.choice(_SMAX), size)
      c['stack'] = ['min', 'raw', 'full', 'raw', 'min'][(b // 5 + j) % 5]
      if c['stack'] == 'full':
        c['proto'] = 'accel'
      calls.append(c)
    rng.shuffle(calls)
    out.append({'kind': 'rpc', 'calls': calls, 'reuse': (b // 2) % 2, 'tx': 1})
  # concurrent calls under partial sends: a send() that was cut short blocks until the socket has drained, the
  # other callers' writes run meanwhile (each on its own pooled connection)
  nctx = 40 if tier == 'quick' else 250
  for b in range(nctx):
    iface = ['hello', 'base', 'derived', 'other'][b % 4]
    groups = []
    for g in range(2):
      k = rng.choice([2, 3, 3])
      smax = _SMAX[(b + g) % 5]
      calls = []
      for _c in range(k):
        size = rng.choice([None, 0, 40, 300] + _BIGLEN)
        c = _gen_tx_call(rng, iface, smax, size)
        while METHODS[iface][c['m']].get('oneway'):
          c = _gen_tx_call(rng, iface, smax, size)
        c['stack'] = 'full'
        c['proto'] = 'accel'
        for prev in calls:
          if _wire_key(iface, prev) == _wire_key(iface, c):
            c['srv'], c['cut'] = prev['srv'], prev['cut']
        calls.append(c)
      order = list(range(k))
      rng.shuffle(order)
      groups.append({'calls': calls, 'order': order, 'smax': smax})
    out.append({'kind': 'conc', 'iface': iface, 'groups': groups, 'tx': 1})
  # a deadline that expires while the write is blocked part-way (the peer stops reading), then further calls
  # through the same client once the peer reads again
  nst = 60 if tier == 'quick' else 900
  for b in range(nst):
    iface = ['hello', 'base', 'derived', 'other'][b % 4]
    stack = ['min', 'raw', 'full'][b % 3]
    proto = 'accel' if stack == 'full' or rng.random() < 0.7 else 'pure'
    smax = [None, None, 1000, 64, 7, 1][(b // 3) % 6]
    size = rng.choice([60, 130, 300, 700, 1000, 1500, 3000])
    stalled = _gen_stall_call(rng, iface, smax, size, big=True)
    warm = [_gen_stall_call(rng, iface, smax, rng.choice([None, 0, 30, 300])) for _ in range(rng.choice([0, 1, 1, 2]))]
    after = []
    for j in range(rng.choice([1, 2, 2, 3])):
      # small ones disappear into an unfinished frame, large ones run over its end
      after.append(_gen_stall_call(rng, iface, smax, rng.choice([None, 0, 30, 130, size, 2 * size]),
                                   big=rng.random() < 0.5))
    for c in warm + [stalled] + after:
      c['stack'], c['proto'] = stack, proto
    out.append({'kind': 'stall', 'iface': iface, 'stack': stack, 'proto': proto, 'warm': warm, 'stalled': stalled,
                'room': _gen_room(rng, size), 'after': after, 'tx': 1})
  ncst = 24 if tier == 'quick' else 360
  for b in range(ncst):
    iface = ['hello', 'base', 'derived', 'other'][b % 4]
    smax = [None, 1000, 64, 7][(b // 4) % 4]
    size = rng.choice([60, 300, 700, 1500, 3000])
    groups = []
    for g in range(rng.choice([2, 2, 3])):
      k = rng.choice([2, 3, 3])
      calls = []
      for _c in range(k):
        c = _gen_stall_call(rng, iface, smax, size if g == 0 else rng.choice([None, 0, 30, 130, size, 2 * size]),
                            big=(g == 0 or rng.random() < 0.4))
        c['stack'], c['proto'] = 'full', 'accel'
        for prev in calls:
          if _wire_key(iface, prev) == _wire_key(iface, c):
            c['srv'], c['cut'] = prev['srv'], prev['cut']
        calls.append(c)
      order = list(range(k))
      rng.shuffle(order)
      grp = {'calls': calls, 'order': order, 'smax': smax}
      if g == 0:
        rooms = [_gen_room(rng, size) if rng.random() < 0.7 else None for _ in range(k)]
        if all(r is None for r in rooms):
          rooms[rng.randrange(k)] = _gen_room(rng, size)
        grp['rooms'] = rooms
      groups.append(grp)
    out.append({'kind': 'cstall', 'iface': iface, 'groups': groups, 'tx': 1})
  # every level of deeper interface hierarchies: Deep extends Derived extends Base, and an application-side
  # subclass of Derived.Iface (methods of the interface itself, of its parent and of its grandparent)
  ndeep = 16 if tier == 'quick' else 240
  for b in range(ndeep):
    iface = ['deep', 'derivedapi'][b % 2]
    own = {'deep': ['label', 'names'], 'derivedapi': []}[iface]
    levels = [own, ['twice', 'drop'], sorted(METHODS['base'])]
    calls = []
    for j in range(9):
      ms = levels[j % 3] or levels[2]
      calls.append(_gen_call(rng, iface, rng.choice(ms)))
    rng.shuffle(calls)
    out.append({'kind': 'rpc', 'calls': calls, 'reuse': b % 2, 'tx': 1})
  # large replies through the default protocol factory of the builder: one call per script
  for c in _gen_big_calls(rng, tier):
    out.append({'kind': 'rpc', 'calls': [c], 'reuse': 0, 'tx': 1, 'big': c['big']})
  # spread the (larger) partial-send traces evenly over the validation batches
  plain, txs = out[:nplain], out[nplain:]
  stride = max(1, len(plain) // max(1, len(txs)))
  out = []
  for i, c in enumerate(plain):
    out.append(c)
    if i % stride == stride - 1 and txs:
      out.append(txs.pop(0))
  return out + txs


# =================================================================== fake socket
class FakeNet(object):
  """Creates FakeSockets; `on_request(sock, payload)` returns the bytes the peer sends back."""

  def __init__(self):
    self.sockets = []
    self.on_connect = None
    self.on_frame = None
    self.hold = False
    self.send_max = None        # one send() call accepts at most this many bytes (None = everything)
    self.accept_script = None   # per-send() accepted sizes for the next socket (direction A replays)
    self.stall_room = None      # the peer is not reading: every connection accepts this many more bytes, then
                                # send() blocks until resume() (None = the peer reads)
    self.room_script = None     # per-connection rooms for the next connections (in order of creation)

  def stall(self, room):
    """the peer stops reading: every connection (present and future) takes `room` more bytes, then blocks"""
    self.stall_room = room
    for sk in self.sockets:
      if not sk.closed:
        sk.room = room

  def resume(self):
    """the peer reads again: blocked writers continue"""
    self.stall_room = None
    self.room_script = None
    for sk in self.sockets:
      sk.room = None
      if sk.wevt is not None:
        sk.wevt.set()


class FakeSocket(object):
  """gevent-free stand-in for gevent.socket.socket: in-order byte stream with a scripted chunking."""
  net = None

  def __init__(self, *a, **kw):
    self.rx = bytearray()       # bytes the peer has sent
    self.rpos = 0
    self.tx = bytearray()       # bytes written by the client, not yet framed
    self.script = None          # list of chunk sizes; None / exhausted = full reads
    self.sidx = 0
    self.log = []               # (requested, delivered)
    self.sent = bytearray()     # everything the client wrote
    self.closed = False
    self.eofs = 0
    self.hold = bool(getattr(FakeSocket.net, 'hold', False))   # reads wait for the peer instead of seeing EOF
    self.peer_closed = False
    self.evt = None
    self.last_raw = b''         # the bytes of the last complete frame the client wrote, with its prefix
    # partial sends: one send() call accepts 1..len(data) bytes and returns the count (socket buffer space);
    # sendall() is the socket library's own loop over send() and returns when everything was accepted.
    # The peer receives exactly the accepted bytes, in order (`sent` is the peer's receive buffer).
    self.accepts = None         # scripted accepted sizes per send() (exhausted -> net.send_max applies)
    self.aidx = 0
    self.txlog = []             # (offered, accepted) per send()
    self.full = False           # the last send() was partial: the socket buffer is full
    if getattr(FakeSocket.net, 'accept_script', None) is not None:
      self.accepts = list(FakeSocket.net.accept_script)
    # back-pressure: `room` = bytes the socket still accepts while the peer is not reading (None: unlimited);
    # with no room left send() blocks (cooperatively) until the peer resumes or the socket is closed; a
    # writer that is thrown out of that wait (its deadline, a kill) is counted in `winter`
    self.room = getattr(FakeSocket.net, 'stall_room', None)
    if getattr(FakeSocket.net, 'room_script', None):
      self.room = FakeSocket.net.room_script.pop(0)
    self.wevt = None
    self.winter = 0
    self.cuts = []              # len(sent) at the quiescent points of a scenario (no call in flight)
    self.decoded = []           # what the peer's Processor decoded from each complete frame, in order
    FakeSocket.net.sockets.append(self)

  def connect(self, addr):
    if FakeSocket.net.on_connect:
      FakeSocket.net.on_connect(self)

  def setsockopt(self, *a):
    pass

  def close(self):
    self.closed = True
    if self.evt is not None:
      self.evt.set()
    if self.wevt is not None:
      self.wevt.set()

  def peer_send(self, data, close=False):
    """the peer writes `data` (and optionally closes its side)"""
    self.rx += data
    if close:
      self.peer_closed = True
    if self.evt is not None:
      self.evt.set()

  def _written(self, data):
    data = bytes(data)
    self.sent += data
    self.tx += data
    while len(self.tx) >= 4:
      n = struct.unpack('!i', bytes(self.tx[:4]))[0]
      if n < 0 or len(self.tx) < 4 + n:
        break
      payload = bytes(self.tx[4:4 + n])
      self.last_raw = bytes(self.tx[:4 + n])
      del self.tx[:4 + n]
      if FakeSocket.net.on_frame:
        d = FakeSocket.net.on_frame(self, payload)
        self.decoded.append(d if isinstance(d, dict) else {'ok': 0, 'm': [], 'mtype': 0, 'seq': 0, 'args': []})

  def _wait_room(self):
    from gevent.event import Event
    if self.wevt is None:
      self.wevt = Event()
    try:
      while self.room is not None and self.room <= 0 and not self.closed:
        self.wevt.clear()
        self.wevt.wait()
    except BaseException:
      self.winter += 1          # the writer did not get to finish: interrupted while the socket was full
      raise
    if self.closed:
      raise OSError(9, 'Bad file descriptor (fake: closed during wait)')

  def _accept(self, data):
    """one send(): the socket takes 1..len(data) bytes (scripted, else at most net.send_max)"""
    data = bytes(data)
    if self.closed:
      raise OSError(9, 'Bad file descriptor (fake: socket closed)')
    if self.full and self.hold:
      # the socket buffer was full: a real send() waits for it to drain, other greenlets run meanwhile
      import gevent
      gevent.sleep(0)
      if self.closed:
        raise OSError(9, 'Bad file descriptor (fake: closed during wait)')
    if self.room is not None and self.room <= 0:
      self._wait_room()
    k = len(data)
    if self.room is not None:
      k = min(k, self.room)
    if self.accepts is not None and self.aidx < len(self.accepts):
      if self.accepts[self.aidx] > 0:
        k = min(k, self.accepts[self.aidx])
      self.aidx += 1
    elif FakeSocket.net.send_max is not None:
      k = min(k, FakeSocket.net.send_max)
    if self.room is not None:
      self.room -= k
    self.full = k < len(data)
    self.txlog.append((len(data), k))
    if k:
      self._written(data[:k])
    return k

  def sendall(self, data):
    data = bytes(data)
    while data:
      k = self._accept(data)
      data = data[k:]

  def send(self, data):
    return self._accept(data)

  def _next(self, n):
    avail = len(self.rx) - self.rpos
    if avail <= 0 and self.hold:
      # concurrent mode: the peer answers later; wait (cooperatively) like a real socket would
      from gevent.event import Event
      if self.evt is None:
        self.evt = Event()
      while len(self.rx) - self.rpos <= 0 and not self.peer_closed and not self.closed:
        self.evt.clear()
        self.evt.wait()
      avail = len(self.rx) - self.rpos
    if avail <= 0:
      self.eofs += 1
      if self.eofs > 50:
        raise RuntimeError('harness: reader spins on EOF')
      self.log.append((n, 0))
      return b''
    k = min(n, avail)
    if self.script is not None and self.sidx < len(self.script):
      if self.script[self.sidx] > 0:        # 0 = a full read: everything that was asked for
        k = min(k, self.script[self.sidx])
      self.sidx += 1
    out = bytes(self.rx[self.rpos:self.rpos + k])
    self.rpos += k
    self.log.append((n, k))
    return out

  def recv(self, n, *flags):
    return self._next(n)

  def recv_into(self, buf, nbytes=0, *flags):
    n = nbytes or len(buf)
    data = self._next(n)
    buf[:len(data)] = data
    return len(data)


def _limit_memory(extra=384 << 20):
  """A corrupted length word can make the code under test allocate gigabytes; bound the child's
  address space so that such a request fails with MemoryError (an ordinary error outcome) instead of
  the kernel killing children."""
  try:
    import resource
    with open('/proc/self/statm') as f:
      cur = int(f.read().split()[0]) * resource.getpagesize()
    resource.setrlimit(resource.RLIMIT_AS, (cur + extra, cur + extra))
  except Exception:
    pass


def _install_net():
  import scales.scales_socket as ss
  net = FakeNet()
  FakeSocket.net = net
  ss.gsocket = FakeSocket
  ss.ScalesSocket._resolveAddr = lambda self: [(2, 1, 6, '', (self.host, self.port))]
  return net


# =================================================================== rpc cases (direction B)
class _Handler(object):
  """Generic handler: records the decoded arguments, then behaves as scripted."""

  def __init__(self, module_chain, srv, rec):
    self._mods = module_chain
    self._srv = srv
    self._rec = rec

  def _find(self, name):
    for m in self._mods:
      c = getattr(m, name, None)
      if c is not None:
        return c
    return None

  def __getattr__(self, name):
    if name.startswith('_'):
      raise AttributeError(name)

    def method(*args):
      from thrift.Thrift import TApplicationException
      args_cls = self._find('%s_args' % name)
      spec = [s for s in args_cls.thrift_spec if s]
      fields = []
      for s, v in zip(spec, args):
        if v is not None:
          fields.append({'id': s[0], 'v': to_tv(v, s[1], s[3])})
      self._rec['args'] = fields
      srv = self._srv
      if callable(srv):
        srv = self._srv = srv(name, fields)      # concurrent mode: which of the outstanding calls is this?
      do = srv['do']
      if do in ('return', 'extra', 'unknown'):
        return from_tv(srv.get('v', tv_none()))
      if do == 'raise':
        raise from_tv(srv['v'])
      if do == 'appexc':
        if 'msgtv' in srv:
          raise TApplicationException(srv['type'], from_tv(srv['msgtv']))
        raise TApplicationException(srv['type'], ''.join(chr(c) for c in srv['msg']))
      if do == 'crash':
        raise RuntimeError('handler crashed')
      raise AssertionError(do)
    return method


def _serve(iface_mod, chain, srv, payload, rec):
  """Run the Thrift library's generated Processor on one request payload. Returns reply payload or None."""
  from thrift.protocol.TBinaryProtocol import TBinaryProtocol
  from thrift.transport.TTransport import TMemoryBuffer
  handler = _Handler(chain, srv, rec)
  proc = iface_mod.Processor(handler)

  def begin(name, mtype, seqid):
    rec['m'] = [c for c in name.encode('utf8')] if isinstance(name, str) else list(name)
    rec['mtype'] = int(mtype)
    rec['seq'] = int(seqid)
  proc.on_message_begin(begin)
  ib = TMemoryBuffer(payload)
  ob = TMemoryBuffer()
  try:
    proc.process(TBinaryProtocol(ib), TBinaryProtocol(ob))
    rec['ok'] = 1 if ib.cstringio_buf.tell() == len(payload) else 0   # consumed exactly the payload
  except Exception as ex:  # the library could not decode the request
    rec['ok'] = 0
    rec['err'] = repr(ex)[:200]
    return None
  srv = handler._srv
  if callable(srv):        # the handler was never reached (e.g. the processor skipped an unknown method)
    srv = srv(None, None)
  if srv['do'] == 'unknown':
    # the reply comes from a processor of another service, which does not know the method
    from test.scales.thrift.gen_py.hello import Hello
    from harness.gen_py_x.derived import Derived
    other = Derived if (iface_mod is Hello or rec.get('m') == [104, 105]) else Hello
    ob = TMemoryBuffer()
    other.Processor(object()).process(TBinaryProtocol(TMemoryBuffer(payload)), TBinaryProtocol(ob))
  rep = ob.getvalue()
  if srv['do'] == 'extra' and rep:
    # append an unknown field (id 77, i32) to the result struct: readers must skip it
    rep = rep[:-1] + b'\x08' + struct.pack('!h', 77) + struct.pack('!i', 123456) + b'\x00'
  return rep


def _module_chain(iface_mod):
  import inspect
  import sys
  return [sys.modules[c.__module__] for c in inspect.getmro(iface_mod.Iface) if c is not object]


def _build_client(iface_mod, stack, proto='accel'):
  from scales.constants import SinkProperties
  from scales.core import ClientProxyBuilder
  from scales.dispatch import MessageDispatcher
  from scales.loadbalancer.zookeeper import Endpoint
  from scales.sink import TimeoutSinkProvider
  from scales.thrift.sink import ThriftSerializerSink, SocketTransportSink
  if stack == 'full':
    from scales.thrift import Thrift
    b = Thrift.NewBuilder(iface_mod.Iface).SetUri('tcp://10.0.0.1:9090').SetTimeout(10).SetOpenTimeout(0)
    return b.Build()
  if proto == 'pure':
    # the pure-Python binary protocol (generated read()/write() code paths instead of fastbinary)
    from thrift.protocol.TBinaryProtocol import TBinaryProtocolFactory
    ser = ThriftSerializerSink.Builder(protocol_factory=TBinaryProtocolFactory())
  else:
    ser = ThriftSerializerSink.Builder()     # default: TBinaryProtocolAcceleratedFactory
  if stack == 'raw':
    # the transport directly over ScalesSocket (as the repo's own tests compose it): ScalesSocket.write /
    # ScalesSocket.readAll instead of the VarzSocketWrapper methods
    from scales.scales_socket import ScalesSocket
    from scales.constants import SinkRole
    from scales.sink import SinkProviderBase

    class _RawTransportProvider(SinkProviderBase):
      Role = SinkRole.Transport

      def CreateSink(self, properties):
        server = properties[SinkProperties.Endpoint]
        return SocketTransportSink(ScalesSocket(server.host, server.port), properties[SinkProperties.Label])

      @property
      def sink_class(self):
        return SocketTransportSink
    tr = _RawTransportProvider()
  else:
    tr = SocketTransportSink.Builder()
  ser.next_provider = tr
  ts = TimeoutSinkProvider()
  ts.next_provider = ser
  disp = MessageDispatcher(iface_mod.Iface, ts, 10, {
    SinkProperties.Label: 'svc', SinkProperties.ServiceInterface: iface_mod.Iface,
    SinkProperties.Endpoint: Endpoint('10.0.0.1', 9090)})
  proxy = ClientProxyBuilder.CreateServiceClient(iface_mod.Iface)(disp)
  proxy.DispatcherOpen()
  return proxy


def _outcome(kind, val, result_spec):
  """What the caller observed -> uniform outcome record."""
  if kind == 'pending':
    return {'kind': 'pending', 'wrapped': 0, 'cls': '', 'v': tv_none()}
  if kind == 'value':
    if val is None:
      return {'kind': 'none', 'wrapped': 0, 'cls': '', 'v': tv_none()}
    if result_spec is None:
      v = {'t': 'opaque'}
    else:
      v = to_tv(val, result_spec[1], result_spec[3])
    return {'kind': 'value', 'wrapped': 0, 'cls': type(val).__name__, 'v': v}
  ex = val
  wrapped = 1 if hasattr(ex, 'inner_exception') else 0
  inner = ex.inner_exception if wrapped else ex
  try:
    v = struct_tv(inner)
  except _Opaque:
    v = {'t': 'opaque'}
  return {'kind': 'error', 'wrapped': wrapped, 'cls': type(inner).__name__, 'v': v}


def _one_call(loop, net, call, chunks, cut, cache=None, fixed=None):
  """Issue `call` once; deliver the reply stream with `chunks` (None = full reads).  With `cache` the
  client of an earlier call of the same script is re-used while it is healthy (state kept between calls,
  e.g. buffers, sequence ids, the pooled connection), otherwise a fresh client is built.  With `fixed` the
  call goes through that client whatever happened before, and the client is left as it is afterwards."""
  import gevent
  iface_mod = _ifaces()[call['iface']]
  chain = _module_chain(iface_mod)
  rec = {'ok': 0, 'm': [], 'mtype': 0, 'seq': 0, 'args': []}
  st = {'sock': None, 'stream': None}

  def on_frame(sock, payload):
    st['sock'] = sock
    rep = _serve(iface_mod, chain, call['srv'], payload, rec)
    dec = dict(rec)
    dec.pop('err', None)
    if rep is None:
      st['stream'] = b''
      return dec
    stream = struct.pack('!i', len(rep)) + rep
    if cut >= 0:
      stream = stream[:min(cut, len(stream))]
    st['stream'] = stream
    sock.rx += stream
    sock.script = list(chunks) if chunks is not None else None
    sock.sidx = 0
    return dec

  net.on_frame = on_frame
  key = (call['iface'], call['stack'], call.get('proto', 'accel'))
  proxy = fixed if fixed is not None else cache.get(key) if cache is not None else None
  if proxy is None:
    if cache is None:
      del net.sockets[:]
    proxy = _build_client(iface_mod, call['stack'], call.get('proto', 'accel'))
  net.send_max = call.get('smax')
  marks = [(sk, len(sk.sent), len(sk.txlog)) for sk in net.sockets]
  winter0 = sum(sk.winter for sk in net.sockets)
  loop.settle()
  args = [from_tv(v) for v in call['pos']]
  kwargs = dict((x['k'], from_tv(x['v'])) for x in call['kw'])
  res = {}
  if call['form'] == 'async':
    ar = getattr(proxy, call['m'] + '_async')(*args, **kwargs)
  else:
    def runner():
      try:
        res['v'] = ('value', getattr(proxy, call['m'])(*args, **kwargs))
      except Exception as ex:
        res['v'] = ('error', ex)
    gevent.spawn(runner)
  loop.settle()
  oneway = bool(METHODS[call['iface']][call['m']].get('oneway'))
  if not oneway:
    # let a transport/dispatch timeout fire if the reply never completes
    if (call['form'] == 'async' and not ar.ready()) or (call['form'] == 'sync' and 'v' not in res):
      loop.run_for(11.0)
      loop.settle()
  if call['form'] == 'async':
    if not ar.ready():
      out = ('pending', None)
    elif ar.exception is not None and not ar.successful():
      out = ('error', ar.exception)
    else:
      out = ('value', ar.value)
  else:
    out = res.get('v', ('pending', None))
  result_cls = None
  for m in chain:
    result_cls = getattr(m, '%s_result' % call['m'], None)
    if result_cls is not None:
      break
  rspec = None
  if result_cls is not None and result_cls.thrift_spec and result_cls.thrift_spec[0]:
    rspec = result_cls.thrift_spec[0]
  # the bytes the peer received for this call: what the connection(s) accepted since the call was issued
  known = dict((id(sk), n) for sk, n, _k in marks)
  knownk = dict((id(sk), k) for sk, _n, k in marks)
  sent = b''.join(bytes(sk.sent[known.get(id(sk), 0):]) for sk in net.sockets)
  tx = [k for sk in net.sockets for (_o, k) in sk.txlog[knownk.get(id(sk), 0):]]
  sock = st['sock']
  healthy = cut < 0 and out[0] in ('value',) and not oneway
  if fixed is not None:
    pass
  elif cache is not None and healthy:
    cache[key] = proxy
  else:
    if cache is not None:
      cache.pop(key, None)
    try:
      proxy.DispatcherClose()
    except Exception:
      pass
  loop.settle()
  net.send_max = None
  # the writer of this call was thrown out of a send() that the environment kept blocked (peer not reading)
  stalled = sum(sk.winter for sk in net.sockets) > winter0
  return {'sent': sent, 'tx': tx, 'srv': rec, 'stream': st['stream'], 'out': _outcome(out[0], out[1], rspec),
          'reads': list(sock.log) if sock is not None else [], 'stalled': stalled}


def _run_rpc(script):
  loop = common.boot()
  net = _install_net()
  import scales.thrift.sink  # noqa: load everything before the address space is bounded
  _ifaces()
  _limit_memory()
  ev = []
  meta = []
  # half of the scripts keep their clients between calls (cross-call state: buffers, pooled connection)
  cache = {} if script.get('reuse') else None
  for call in script['calls']:
    ref = _one_call(loop, net, call, None, call['cut'], cache)
    n = len(ref['stream'] or b'')
    chunks = call['chunks']
    if chunks is None:
      chunks = _gen_chunks(random.Random(call['chunkseed']), max(n, 1))
    run = _one_call(loop, net, call, chunks, call['cut'], cache)
    srv = dict(ref['srv'])
    srv.pop('err', None)
    ev.append({'e': 'Call', 'm': mkey(call['iface'], call['m']), 'pos': call['pos'], 'kw': call['kw'],
               'bytes': list(ref['sent']), 'tx': ref['tx'], 'srv': srv})
    oneway = bool(METHODS[call['iface']][call['m']].get('oneway'))
    if not oneway and ref['stream'] is not None and run['stream'] is not None:
      ev.append(_reply_event(mkey(call['iface'], call['m']), run, ref,
                             run['stream'] == ref['stream'] and run['sent'] == ref['sent']))
    meta.append({'iface': call['iface'], 'srv': call['srv']['do'], 'form': call['form'], 'stack': call['stack'],
                 'proto': call.get('proto', 'accel'), 'smax': call.get('smax')})
  return {'cfg': {'kind': 'rpc'}, 'ev': ev, 'meta': meta, 'errors': [list(e[1:3]) for e in loop.errors][:3]}


# =================================================================== concurrent calls on one client
def _expected_fields(chain, call):
  """argument fields of `call` as the handler will report them (only used to tell the outstanding calls of
  a group apart when their requests arrive; the oracle does not use it)."""
  for m in chain:
    args_cls = getattr(m, '%s_args' % call['m'], None)
    if args_cls is not None:
      break
  else:
    return None
  try:
    obj = args_cls(*[from_tv(v) for v in call['pos']], **dict((x['k'], from_tv(x['v'])) for x in call['kw']))
    return struct_tv(obj)['f']
  except Exception:
    return None


def _result_spec(chain, m):
  for mod in chain:
    result_cls = getattr(mod, '%s_result' % m, None)
    if result_cls is not None:
      if result_cls.thrift_spec and result_cls.thrift_spec[0]:
        return result_cls.thrift_spec[0]
      return None
  return None


def _conc_round(loop, net, iface, group, chunked, proxy=None):
  """One client (Thrift.NewBuilder stack); all calls of the group are issued before any reply is served;
  replies are served in group['order'] (among the requests that have arrived), each on the connection its
  request came in on.  Returns per call: raw request bytes, what the Processor decoded, reply stream, outcome.
  With `proxy` the round runs on that (already used) client and leaves it open; group['rooms'] then says how
  many bytes each connection (in order of creation, idle ones first) accepts before its peer stops reading."""
  import gevent
  iface_mod = _ifaces()[iface]
  chain = _module_chain(iface_mod)
  calls = group['calls']
  n = len(calls)
  expect = [_expected_fields(chain, c) for c in calls]
  arrivals = []          # (sock, payload, raw, index among the frames of the connection) in arrival order
  net.on_frame = lambda sock, payload: arrivals.append((sock, payload, sock.last_raw, len(sock.decoded)))
  own = proxy is None
  hold0 = net.hold
  net.hold = True
  net.send_max = group.get('smax')
  if own:
    del net.sockets[:]
  base = dict((id(sk), (len(sk.sent), len(sk.txlog), sk.winter)) for sk in net.sockets)
  per = [{'sent': b'', 'tx': None, 'srv': {'ok': 0, 'm': [], 'mtype': 0, 'seq': 0, 'args': []}, 'stream': None, 'reads': [],
          'sock': None} for _ in calls]
  try:
    if own:
      proxy = _build_client(iface_mod, 'full')
      loop.settle()
    rooms = list(group.get('rooms') or [])
    if rooms:
      for sk in net.sockets:
        if rooms and not sk.closed:
          sk.room = rooms.pop(0)
      net.room_script = rooms
    ars, res = {}, {}
    for i, call in enumerate(calls):
      args = [from_tv(v) for v in call['pos']]
      kwargs = dict((x['k'], from_tv(x['v'])) for x in call['kw'])
      if call['form'] == 'async':
        try:
          ars[i] = getattr(proxy, call['m'] + '_async')(*args, **kwargs)
        except Exception as ex:
          res[i] = ('error', ex)
      else:
        def runner(i=i, call=call, args=args, kwargs=kwargs):
          try:
            res[i] = ('value', getattr(proxy, call['m'])(*args, **kwargs))
          except Exception as ex:
            res[i] = ('error', ex)
        gevent.spawn(runner)
    loop.settle()            # every request that can be on the wire is on the wire; nothing is answered yet
    onwire = len(arrivals)
    matched = {}             # arrival index -> call index
    served = set()
    nframes = {}             # socket -> complete frames received on it

    def serve(ai):
      sock, payload, raw, fidx = arrivals[ai]
      rec = {'ok': 0, 'm': [], 'mtype': 0, 'seq': 0, 'args': []}
      if fidx < len(sock.decoded):
        sock.decoded[fidx] = rec          # what the Processor decodes from this frame (filled in by _serve)
      pick = {}

      def choose(name, fields):
        free = [i for i in range(n) if i not in matched.values()]
        cand = [i for i in free if name is not None and calls[i]['m'] == name and expect[i] == fields]
        cand = cand or [i for i in free if name is not None and calls[i]['m'] == name] or free
        pick['i'] = cand[0] if cand else None
        return calls[cand[0]]['srv'] if cand else {'do': 'crash'}
      rep = _serve(iface_mod, chain, choose, payload, rec)
      i = pick.get('i')
      if i is None:
        return
      matched[ai] = i
      rec.pop('err', None)
      per[i]['sent'] = raw
      per[i]['srv'] = rec
      per[i]['sock'] = sock
      nframes[id(sock)] = nframes.get(id(sock), 0) + 1
      if rep is None:
        per[i]['stream'] = b''
        sock.peer_send(b'', close=True)
        return
      stream = struct.pack('!i', len(rep)) + rep
      cut = calls[i]['cut']
      if cut >= 0:
        stream = stream[:min(cut, len(stream))]
      per[i]['stream'] = stream
      if chunked:
        sock.script = _gen_chunks(random.Random(calls[i]['chunkseed']), max(len(stream), 1))
      else:
        sock.script = None
      sock.sidx = 0
      sock.peer_send(stream, close=(cut >= 0))

    order = list(group['order'])
    for _round in range(4 * n + 4):
      todo = [ai for ai in range(len(arrivals)) if ai not in served]
      if not todo:
        break
      # the scripted order picks among the requests that have arrived and are not yet answered
      k = order.pop(0) if order else 0
      ai = todo[k % len(todo)]
      served.add(ai)
      serve(ai)
      loop.settle()
    # a call whose reply never completes is ended by its timeout
    if any((i in ars and not ars[i].ready()) or (i not in ars and i not in res) for i in range(n)):
      loop.run_for(11.0)
      loop.settle()
    # What the peer received on each connection, attributed to calls: a connection that carried exactly one
    # complete frame belongs to the call matched with that frame, and everything the peer received on it counts
    # (the frame and whatever came after it).  Bytes on connections without a complete frame (a frame that was
    # announced but never completed: the Processor never saw a call) go to the calls no frame was matched
    # with, in order of connection creation.
    # Only what a connection accepted in this round counts (a connection may have served earlier rounds).  A
    # call whose writer was thrown out of a send() that the environment kept blocked is marked `stalled`.
    def since(sk):
      b = base.get(id(sk), (0, 0, 0))
      return bytes(sk.sent[b[0]:]), [k for (_o, k) in sk.txlog[b[1]:]], sk.winter > b[2]
    orphan = [sk for sk in net.sockets if nframes.get(id(sk), 0) == 0 and (since(sk)[0] or since(sk)[2])]
    for i in range(n):
      sk = per[i]['sock']
      if sk is not None and nframes.get(id(sk), 0) == 1:
        per[i]['sent'], per[i]['tx'], per[i]['stalled'] = since(sk)
      elif sk is None and orphan:
        osk = orphan.pop(0)
        per[i]['sent'], per[i]['tx'], per[i]['stalled'] = since(osk)
    for i, call in enumerate(calls):
      if i in ars:
        ar = ars[i]
        if not ar.ready():
          o = ('pending', None)
        elif ar.exception is not None and not ar.successful():
          o = ('error', ar.exception)
        else:
          o = ('value', ar.value)
      else:
        o = res.get(i, ('pending', None))
      per[i]['out'] = _outcome(o[0], o[1], _result_spec(chain, call['m']))
      per[i]['onwire'] = onwire
      if per[i]['sock'] is not None:
        per[i]['reads'] = list(per[i]['sock'].log)
    if own:
      try:
        proxy.DispatcherClose()
      except Exception:
        pass
      for sk in net.sockets:
        sk.peer_send(b'', close=True)
      loop.settle()
  finally:
    net.hold = hold0
    net.send_max = None
    net.room_script = None
  return per


def _run_conc(script):
  loop = common.boot()
  net = _install_net()
  import scales.thrift.sink  # noqa
  import scales.thrift.builder  # noqa
  _ifaces()
  _limit_memory()
  ev, meta = [], []
  iface = script['iface']
  for group in script['groups']:
    ref = _conc_round(loop, net, iface, group, False)
    run = _conc_round(loop, net, iface, group, True)
    for i, call in enumerate(group['calls']):
      key = mkey(iface, call['m'])
      ce = {'e': 'Call', 'm': key, 'pos': call['pos'], 'kw': call['kw'],
            'bytes': list(ref[i]['sent']), 'srv': ref[i]['srv'], 'inflight': ref[i].get('onwire', 0)}
      if ref[i]['tx'] is not None:
        ce['tx'] = ref[i]['tx']
      ev.append(ce)
      if ref[i]['stream'] is not None and run[i]['stream'] is not None:
        ev.append({'e': 'Reply', 'm': key, 'stream': list(run[i]['stream']),
                   'same_stream': 1 if run[i]['stream'] == ref[i]['stream'] else 0,
                   'chunks': [k for (_r, k) in run[i]['reads']], 'out': run[i]['out'], 'ref': ref[i]['out'],
                   'inflight': run[i].get('onwire', 0)})
      meta.append({'iface': iface, 'srv': call['srv']['do'], 'form': call['form'], 'stack': 'full-concurrent',
                   'proto': 'accel', 'smax': group.get('smax')})
  return {'cfg': {'kind': 'conc'}, 'ev': ev, 'meta': meta, 'errors': [list(e[1:3]) for e in loop.errors][:3]}


# =================================================================== a deadline that expires inside a blocked write
def _wire_event(net, calls):
  """What the peer received on every connection of the scenario (stream, its lengths at the quiescent points,
  what the Processor decoded from each complete frame) and the calls that were made."""
  conns = []
  for sk in net.sockets:
    conns.append({'stream': list(sk.sent), 'cuts': list(sk.cuts), 'closed': 1 if sk.closed else 0,
                  'srv': [dict((k, v) for k, v in d.items() if k != 'err') for d in sk.decoded]})
  return {'e': 'Wire', 'calls': [{'m': mkey(c['iface'], c['m']), 'pos': c['pos'], 'kw': c['kw']} for c in calls],
          'conns': conns}


def _cut_all(net):
  for sk in net.sockets:
    sk.cuts.append(len(sk.sent))


def _stall_round(loop, net, script, lens):
  """One client; warm-up calls, then the peer stops reading after `room` more bytes and a call is made whose
  deadline passes while its write is blocked, then the peer reads again and further calls are made through
  the same client.  lens = reply stream lengths of the reference round (None: this is the reference round,
  full reads)."""
  iface_mod = _ifaces()[script['iface']]
  del net.sockets[:]
  proxy = _build_client(iface_mod, script['stack'], script.get('proto', 'accel'))
  loop.settle()
  seq = [('warm', c) for c in script['warm']] + [('stalled', script['stalled'])] + \
        [('after', c) for c in script['after']]
  out = []
  for idx, (role, call) in enumerate(seq):
    chunks = None
    if lens is not None:
      chunks = call['chunks'] or _gen_chunks(random.Random(call['chunkseed']), max(lens[idx], 1))
    if role == 'stalled':
      net.stall(script['room'])
    r = _one_call(loop, net, call, chunks, call['cut'], fixed=proxy)
    _cut_all(net)
    if role == 'stalled':
      net.resume()
      loop.settle()
      _cut_all(net)
    out.append(r)
  wire = _wire_event(net, [c for (_r, c) in seq])
  try:
    proxy.DispatcherClose()
  except Exception:
    pass
  loop.settle()
  return out, wire


def _call_events(ev, meta, call, ref, run, stack, extra=None):
  """Call (+ Reply) events of one call from its reference and its chunked run; a call whose writer the
  environment kept blocked until it gave up has no Call event (nothing is prescribed for its bytes beyond
  the per-connection Wire clauses)."""
  key = mkey(call['iface'], call['m'])
  if not ref.get('stalled'):
    srv = dict(ref['srv'])
    srv.pop('err', None)
    ce = {'e': 'Call', 'm': key, 'pos': call['pos'], 'kw': call['kw'], 'bytes': list(ref['sent']), 'srv': srv}
    if ref.get('tx') is not None:
      ce['tx'] = ref['tx']
    ce.update(extra or {})
    ev.append(ce)
  oneway = bool(METHODS[call['iface']][call['m']].get('oneway'))
  if not oneway and ref['stream'] is not None and run['stream'] is not None:
    re_ = {'e': 'Reply', 'm': key, 'stream': list(run['stream']),
           'same_stream': 1 if run['stream'] == ref['stream'] else 0,
           'chunks': [k for (_r, k) in run['reads']], 'out': run['out'], 'ref': ref['out']}
    re_.update(extra or {})
    ev.append(re_)
  meta.append({'iface': call['iface'], 'srv': call['srv']['do'], 'form': call['form'], 'stack': stack,
               'proto': call.get('proto', 'accel'), 'smax': call.get('smax')})


def _run_stall(script):
  loop = common.boot()
  net = _install_net()
  import scales.thrift.sink  # noqa
  import scales.thrift.builder  # noqa
  _ifaces()
  _limit_memory()
  ev, meta = [], []
  ref, wref = _stall_round(loop, net, script, None)
  run, wrun = _stall_round(loop, net, script, [len(r['stream'] or b'') for r in ref])
  calls = script['warm'] + [script['stalled']] + script['after']
  for call, a, b in zip(calls, ref, run):
    _call_events(ev, meta, call, a, b, call['stack'] + '-stall')
  ev.append(wref)
  ev.append(wrun)
  return {'cfg': {'kind': 'stall'}, 'ev': ev, 'meta': meta, 'errors': [list(e[1:3]) for e in loop.errors][:3],
          'stalled': sum(1 for r in ref if r.get('stalled'))}


def _cstall_round(loop, net, script, chunked):
  """The concurrent form: one client (full stack); a group of calls is issued at once while the peers of some
  connections stop reading after a few bytes (those calls' deadlines pass inside their writes); the peers
  read again; further groups are issued on the same client."""
  iface_mod = _ifaces()[script['iface']]
  del net.sockets[:]
  net.hold = True
  try:
    proxy = _build_client(iface_mod, 'full')
    loop.settle()
    pers = []
    for group in script['groups']:
      per = _conc_round(loop, net, script['iface'], group, chunked, proxy=proxy)
      _cut_all(net)
      net.resume()
      loop.settle()
      _cut_all(net)
      pers.append(per)
    wire = _wire_event(net, [dict(c, iface=script['iface']) for g in script['groups'] for c in g['calls']])
    try:
      proxy.DispatcherClose()
    except Exception:
      pass
    for sk in net.sockets:
      sk.peer_send(b'', close=True)
    loop.settle()
  finally:
    net.hold = False
  return pers, wire


def _run_cstall(script):
  loop = common.boot()
  net = _install_net()
  import scales.thrift.sink  # noqa
  import scales.thrift.builder  # noqa
  _ifaces()
  _limit_memory()
  ev, meta = [], []
  ref, wref = _cstall_round(loop, net, script, False)
  run, wrun = _cstall_round(loop, net, script, True)
  nst = 0
  for group, pa, pb in zip(script['groups'], ref, run):
    for call, a, b in zip(group['calls'], pa, pb):
      call = dict(call, iface=script['iface'])
      nst += 1 if a.get('stalled') else 0
      _call_events(ev, meta, call, a, b, 'full-concurrent-stall', {'inflight': a.get('onwire', 0)})
  ev.append(wref)
  ev.append(wrun)
  return {'cfg': {'kind': 'cstall'}, 'ev': ev, 'meta': meta, 'errors': [list(e[1:3]) for e in loop.errors][:3],
          'stalled': nst}


# =================================================================== chunk cases (direction A replays)
def _read_transport(loop, stream, chunks, ntxn):
  """Real SocketTransportSink over VarzSocketWrapper over ScalesSocket; harness-owned sink stack."""
  from scales.message import MethodCallMessage
  from scales.scales_socket import ScalesSocket
  from scales.sink import ClientMessageSinkStack, ClientMessageSink
  from scales.thrift.sink import SocketTransportSink
  from scales.varz import VarzSocketWrapper
  from scales.compat import BytesIO

  got = []

  class Top(ClientMessageSink):
    def AsyncProcessRequest(self, sink_stack, msg, stream, headers):
      pass

    def AsyncProcessResponse(self, sink_stack, context, stream, msg):
      if msg is not None:
        got.append({'kind': 'error', 'bytes': [], 'cls': type(msg.error).__name__})
      else:
        got.append({'kind': 'frame', 'bytes': list(bytearray(stream.getvalue())), 'cls': ''})

  sink = SocketTransportSink(VarzSocketWrapper(ScalesSocket('10.0.0.1', 9090), 'svc'), 'svc')
  ar = sink.Open()
  loop.settle()
  sock = FakeSocket.net.sockets[-1]
  sock.rx += bytes(stream)
  sock.script = list(chunks) if chunks is not None else None
  rets = []
  for _ in range(ntxn):
    del got[:]
    stack = ClientMessageSinkStack()
    stack.Push(Top())
    msg = MethodCallMessage(None, 'm', (), {})
    sink.AsyncProcessRequest(stack, msg, BytesIO(b'req'), {})
    loop.settle()
    if not got:
      rets.append({'kind': 'error', 'bytes': [], 'cls': 'pending'})
      break
    rets.append(got[0])
    if got[0]['kind'] == 'error':
      break
  try:
    sink.Close()
  except Exception:
    pass
  return rets, list(sock.log)


def _read_raw(stream, chunks, ntxn):
  """ScalesSocket.readAll driven as the transaction drives it (header, then body)."""
  from scales.scales_socket import ScalesSocket
  s = ScalesSocket('10.0.0.1', 9090)
  s.open()
  sock = FakeSocket.net.sockets[-1]
  sock.rx += bytes(stream)
  sock.script = list(chunks) if chunks is not None else None
  rets = []
  for _ in range(ntxn):
    try:
      sz, = struct.unpack('!i', s.readAll(4))
      body = s.readAll(sz)
      rets.append({'kind': 'frame', 'bytes': list(bytearray(body)), 'cls': ''})
    except Exception as ex:
      rets.append({'kind': 'error', 'bytes': [], 'cls': type(ex).__name__})
      break
  s.close()
  return rets, list(sock.log)


def _write_transport(loop, variant, payload, accepts):
  """Real SocketTransportSink over VarzSocketWrapper over ScalesSocket ("varz") or directly over ScalesSocket
  ("raw"); one transaction with `payload`; the socket accepts the scripted sizes per send().  Returns what the
  peer received and the (offered, accepted) log."""
  from scales.message import MethodCallMessage
  from scales.scales_socket import ScalesSocket
  from scales.sink import ClientMessageSinkStack, ClientMessageSink
  from scales.thrift.sink import SocketTransportSink
  from scales.varz import VarzSocketWrapper
  from scales.compat import BytesIO

  class Top(ClientMessageSink):
    def AsyncProcessRequest(self, sink_stack, msg, stream, headers):
      pass

    def AsyncProcessResponse(self, sink_stack, context, stream, msg):
      pass

  net = FakeSocket.net
  net.accept_script = list(accepts)
  try:
    sock_obj = ScalesSocket('10.0.0.1', 9090)
    if variant == 'varz':
      sock_obj = VarzSocketWrapper(sock_obj, 'svc')
    sink = SocketTransportSink(sock_obj, 'svc')
    sink.Open()
    loop.settle()
  finally:
    net.accept_script = None
  sock = net.sockets[-1]
  stack = ClientMessageSinkStack()
  stack.Push(Top())
  sink.AsyncProcessRequest(stack, MethodCallMessage(None, 'm', (), {}), BytesIO(bytes(payload)), {})
  loop.settle()       # the peer never answers and then closes: whatever was going to be sent has been sent
  try:
    sink.Close()
  except Exception:
    pass
  return bytes(sock.sent), [list(x) for x in sock.txlog]


def _txn_scenario(loop, variant, pays, script):
  """Real SocketTransportSink ("varz": over VarzSocketWrapper, "raw": directly over ScalesSocket); consecutive
  transactions whose messages carry a deadline; per transaction the socket accepts the scripted sizes, then
  the transaction ends as scripted: the reply arrives ("reply"), never arrives ("noreply": the deadline
  expires while waiting for it) or the peer stops reading after the accepted bytes ("stall": the deadline
  expires inside the blocked write).  Returns the streams the peer received per connection, the per-
  transaction (offered, accepted) logs and the Wire event."""
  import time as _time
  from scales.message import Deadline, MethodCallMessage
  from scales.scales_socket import ScalesSocket
  from scales.sink import ClientMessageSinkStack, ClientMessageSink
  from scales.thrift.sink import SocketTransportSink
  from scales.varz import VarzSocketWrapper
  from scales.compat import BytesIO

  class Top(ClientMessageSink):
    def AsyncProcessRequest(self, sink_stack, msg, stream, headers):
      pass

    def AsyncProcessResponse(self, sink_stack, context, stream, msg):
      pass

  net = FakeSocket.net
  del net.sockets[:]
  net.hold = True
  logs = []
  try:
    sock_obj = ScalesSocket('10.0.0.1', 9090)
    if variant == 'varz':
      sock_obj = VarzSocketWrapper(sock_obj, 'svc')
    sink = SocketTransportSink(sock_obj, 'svc')
    sink.Open()
    loop.settle()
    for pay, t in zip(pays, script):
      live = [sk for sk in net.sockets if not sk.closed]
      if not live:
        break
      sock = live[-1]
      sock.accepts, sock.aidx = [a[1] if a[1] < a[0] else 0 for a in t['acc']], 0
      if t['end'] == 'stall':
        sock.room = sum(a[1] for a in t['acc'])     # the peer takes these bytes and then stops reading
      k0 = len(sock.txlog)
      stack = ClientMessageSinkStack()
      stack.Push(Top())
      msg = MethodCallMessage(None, 'm', (), {})
      msg.properties[Deadline.KEY] = _time.time() + 1.0
      sink.AsyncProcessRequest(stack, msg, BytesIO(bytes(pay)), {})
      loop.settle()
      if t['end'] == 'reply':
        sock.peer_send(struct.pack('!i', 1) + b'r')
        loop.settle()
      else:
        loop.run_for(1.5)
        loop.settle()
      logs.append([list(x) for x in sock.txlog[k0:]])
      net.resume()
      loop.settle()
      _cut_all(net)
    conns = [list(sk.sent) for sk in net.sockets]
    wire = {'e': 'Wire', 'calls': [{'raw': list(p)} for p in pays],
            'conns': [{'stream': list(sk.sent), 'cuts': list(sk.cuts), 'closed': 1 if sk.closed else 0, 'srv': []}
                      for sk in net.sockets]}
    try:
      sink.Close()
    except Exception:
      pass
    for sk in net.sockets:
      sk.peer_send(b'', close=True)
    loop.settle()
  finally:
    net.hold = False
  return conns, logs, wire


def _txn_one(loop, c):
  conns, logs, wire = _txn_scenario(loop, c['variant'], c['pays'], c['script'])
  drift = None
  if 'spec_conns' in c:
    spec_logs = [[list(a) for a in t['acc']] for t in c['script']]
    if conns != [list(x) for x in c['spec_conns']] or logs != spec_logs:
      drift = {'variant': c['variant'], 'pays': c['pays'], 'script': c['script'],
               'spec_conns': c['spec_conns'], 'real_conns': conns, 'real_accepts': logs}
  return [wire], sum(len(x) for x in logs) + len(logs), drift


def _write_one(loop, c):
  rx, log = _write_transport(loop, c['variant'], bytes(c['payload']), c['accepts'])
  ev = [{'e': 'Write', 'variant': c['variant'], 'payload': list(c['payload']), 'accepts': log, 'rx': list(rx)}]
  drift = None
  if 'spec_accepts' in c:
    spec = [list(x) for x in c['spec_accepts']]
    if log != spec or list(rx) != list(c['spec_rx']):
      drift = {'variant': c['variant'], 'payload': list(c['payload']), 'spec_accepts': spec, 'real_accepts': log,
               'spec_rx': list(c['spec_rx']), 'real_rx': list(rx)}
  return ev, len(log), drift


def _chunk_one(loop, c):
  if c['kind'] == 'write':
    return _write_one(loop, c)
  if c['kind'] == 'txn':
    return _txn_one(loop, c)
  stream = bytes(c['stream'])
  if c['variant'] == 'varz':
    rets, log = _read_transport(loop, stream, c['chunks'], c['ntxn'])
    refs, _ = _read_transport(loop, stream, None, c['ntxn'])
  else:
    rets, log = _read_raw(stream, c['chunks'], c['ntxn'])
    refs, _ = _read_raw(stream, None, c['ntxn'])
  ev = [{'e': 'Read', 'variant': c['variant'], 'stream': list(stream), 'rets': rets, 'refs': refs}]
  drift = None
  if 'spec_reads' in c:
    spec_reads = [tuple(x) for x in c['spec_reads']]
    spec_outs = [(o['k'], list(o['b'])) for o in c['spec_outs']]
    real_outs = [('frame' if r['kind'] == 'frame' else 'error', r['bytes']) for r in rets]
    if [tuple(x) for x in log] != spec_reads or real_outs != spec_outs:
      drift = {'variant': c['variant'], 'stream': list(stream), 'spec_reads': c['spec_reads'],
               'real_reads': [list(x) for x in log], 'spec_outs': spec_outs, 'real_outs': real_outs}
  return ev, len(log), drift


def _run_chunks(script):
  loop = common.boot()
  _install_net()
  import scales.thrift.sink  # noqa
  _limit_memory()
  out = []
  for c in script['items']:
    ev, steps, drift = _chunk_one(loop, c)
    out.append({'ev': ev, 'steps': steps, 'drift': drift})
  return out


def run_case(script):
  if script['kind'] == 'rpc':
    return _run_rpc(script)
  if script['kind'] == 'conc':
    return _run_conc(script)
  if script['kind'] == 'stall':
    return _run_stall(script)
  if script['kind'] == 'cstall':
    return _run_cstall(script)
  if script['kind'] in ('chunk', 'write', 'txn'):
    loop = common.boot()
    _install_net()
    import scales.thrift.sink  # noqa
    _limit_memory()
    ev, _steps, _drift = _chunk_one(loop, script)
    return {'cfg': {'kind': script['kind']}, 'ev': ev}
  raise ValueError(script['kind'])


def _parse_emitted(stdout, tag='B'):
  """PrintT'd `<<"B", variant, stream, chunks, outs>>` tuples (TLC wraps long values over lines)."""
  vals = []
  cur = None
  depth = 0
  for line in stdout.split('\n'):
    if cur is None:
      if line.startswith('<<"%s"' % tag) or line.startswith('<< "%s"' % tag):
        cur = []
        depth = 0
      else:
        continue
    cur.append(line)
    depth += line.count('<<') + line.count('[') - line.count('>>') - line.count(']')
    if depth <= 0:
      vals.append(tlc.parse_tla('\n'.join(cur)))
      cur = None
  return vals


def replay_behaviours(prop, tier, seed):
  r = tlc.run_tlc('ReadAll', ENUM_CFG[tier], workers=1, timeout=3000, heap='8g')
  if not r.ok:
    raise RuntimeError('ReadAll enumeration failed: %r %r\n%s' % (r.violated, r.error, r.stdout[-2000:]))
  behs = _parse_emitted(r.stdout)
  if not behs:
    raise RuntimeError('no behaviours emitted by TLC:\n' + r.stdout[-2000:])
  items = []
  seen = set()
  for b in behs:
    _tag, variant, stream, chunks, outs = b
    key = common.canon([variant, stream, chunks])
    if key in seen:
      continue
    seen.add(key)
    items.append({'kind': 'chunk', 'variant': variant, 'stream': stream, 'ntxn': 2,
                  # a read that got all it asked for is replayed as "deliver everything requested" (0), so
                  # code that asks for more than the model does is given more, as a real socket would
                  'chunks': [(c[1] if c[1] < c[0] else 0) for c in chunks if c[1] > 0],
                  'spec_reads': chunks, 'spec_outs': outs})
  nread = len(items)
  # the write side: every complete acceptance sequence of every bounded payload (ThriftWireWrite)
  rw = tlc.run_tlc('ThriftWireWrite', WENUM_CFG[tier], workers=1, timeout=3000, heap='4g')
  if not rw.ok:
    raise RuntimeError('ThriftWireWrite enumeration failed: %r %r\n%s' % (rw.violated, rw.error, rw.stdout[-2000:]))
  wbehs = _parse_emitted(rw.stdout, 'W')
  if not wbehs:
    raise RuntimeError('no write behaviours emitted by TLC:\n' + rw.stdout[-2000:])
  for b in wbehs:
    _tag, variant, payload, accepts, rx = b
    key = common.canon(['W', variant, payload, accepts])
    if key in seen:
      continue
    seen.add(key)
    items.append({'kind': 'write', 'variant': variant, 'payload': payload,
                  # a send() that took all it was offered is replayed as "accept everything offered" (0), so
                  # code that offers more than the model does is not cut short by the script
                  'accepts': [(a[1] if a[1] < a[0] else 0) for a in accepts],
                  'spec_accepts': accepts, 'spec_rx': rx})
  nwrite = len(items) - nread
  # consecutive transactions with deadlines: every scenario of ThriftWireTxn (partial sends, a deadline that
  # expires inside a blocked write or while waiting for the reply, the next transaction on the same sink)
  rx = tlc.run_tlc('ThriftWireTxn', XENUM_CFG[tier], workers=1, timeout=3000, heap='8g')
  if not rx.ok:
    raise RuntimeError('ThriftWireTxn enumeration failed: %r %r\n%s' % (rx.violated, rx.error, rx.stdout[-2000:]))
  xbehs = _parse_emitted(rx.stdout, 'X')
  if not xbehs:
    raise RuntimeError('no transaction scenarios emitted by TLC:\n' + rx.stdout[-2000:])
  for b in xbehs:
    _tag, variant, pays, script, conns = b
    key = common.canon(['X', variant, pays, script])
    if key in seen:
      continue
    seen.add(key)
    items.append({'kind': 'txn', 'variant': variant, 'pays': pays, 'script': script, 'spec_conns': conns})
  per = 150
  batches = [{'kind': 'chunks', 'items': items[i:i + per]} for i in range(0, len(items), per)]
  res = common.run_forked(_run_chunks, batches, timeout_s=600)
  errs = [x['err'] for x in res if 'err' in x]
  if errs:
    raise RuntimeError('replay failed: ' + errs[0])
  traces, drift, steps = [], [], 0
  flat = [o for x in res for o in x['ok']]
  for it, o in zip(items, flat):
    steps += o['steps']
    if o['drift']:
      drift.append(o['drift'])
    if it['kind'] == 'txn':
      script = {'kind': 'txn', 'variant': it['variant'], 'pays': it['pays'], 'script': it['script']}
      traces.append({'cfg': {'kind': 'txn'}, 'ev': o['ev'], 'script': script})
      continue
    if it['kind'] == 'write':
      script = {'kind': 'write', 'variant': it['variant'], 'payload': it['payload'], 'accepts': it['accepts']}
      traces.append({'cfg': {'kind': 'write'}, 'ev': o['ev'], 'script': script, 'nsends': len(it['spec_accepts'])})
      continue
    script = {'kind': 'chunk', 'variant': it['variant'], 'stream': it['stream'], 'ntxn': it['ntxn'],
              'chunks': it['chunks']}
    traces.append({'cfg': {'kind': 'chunk'}, 'ev': o['ev'], 'script': script, 'nreads': len(it['spec_reads'])})
  return {'summary': {'behaviours_replayed': len(items), 'read_chunkings_replayed': nread,
                      'write_splits_replayed': nwrite, 'txn_scenarios_replayed': len(items) - nread - nwrite,
                      'steps_compared': steps, 'drift': len(drift),
                      'tlc_enum_distinct_states': r.distinct + rw.distinct + rx.distinct,
                      'tlc_enum_wall_s': round(r.wall_s + rw.wall_s + rx.wall_s, 1)},
          'traces': traces, 'drift': drift}


def trace_for_tlc(t):
  return {'cfg': t['cfg'], 'ev': t['ev']}


def _unfinished(stream):
  """the stream ends inside a frame (only used to count scenarios as non-trivial)"""
  p = 0
  while p + 4 <= len(stream):
    n = struct.unpack('!i', bytes(stream[p:p + 4]))[0]
    if n < 0 or p + 4 + n > len(stream):
      return True
    p += 4 + n
  return p < len(stream)


def nontrivial(prop, t):
  for e in t['ev']:
    if e['e'] == 'Reply' and len(e.get('chunks', [])) > 2:
      return common.canon(t['ev'])
    if e['e'] == 'Call' and len(e.get('tx') or []) > 1:
      return common.canon(t['ev'])
    if e['e'] == 'Read':
      s = t.get('script') or {}
      if t.get('nreads', len(s.get('chunks', []))) > 1:
        return common.canon([e['variant'], e['stream'], s.get('chunks')])
    if e['e'] == 'Wire':
      # more than one connection, or a connection that ends in an unfinished frame
      if len(e['conns']) > 1 or any(_unfinished(c['stream'])
                                    for c in e['conns']):
        return common.canon(t['ev'])
    if e['e'] == 'Write':
      s = t.get('script') or {}
      if t.get('nsends', len(s.get('accepts', []))) > 1:
        return common.canon(['W', e['variant'], e['payload'], s.get('accepts')])
  return None


def witness(prop, t, consumed, clause):
  e = t['ev'][consumed] if consumed < len(t['ev']) else {}
  w = {'event': e.get('e')}
  if e.get('e') in ('Call', 'Reply'):
    w['method'] = e.get('m')
  if e.get('e') == 'Reply':
    w['out_kind'] = e['out']['kind']
    w['out_cls'] = e['out']['cls']
  return w


def extra_coverage(prop, tier, traces):
  calls = sum(1 for t in traces for e in t['ev'] if e['e'] == 'Call')
  replies = sum(1 for t in traces for e in t['ev'] if e['e'] == 'Reply')
  reads = sum(1 for t in traces for e in t['ev'] if e['e'] == 'Read')
  writes = sum(1 for t in traces for e in t['ev'] if e['e'] == 'Write')
  partial = sum(1 for t in traces for e in t['ev'] if e['e'] == 'Call' and len(e.get('tx') or []) > 1)
  big = sum(1 for t in traces for e in t['ev'] if e['e'] == 'Call' and len(e['bytes']) > 1000)
  wires = sum(1 for t in traces for e in t['ev'] if e['e'] == 'Wire')
  unfinished = sum(1 for t in traces for e in t['ev'] if e['e'] == 'Wire'
                   for c in e['conns'] if _unfinished(c['stream']))
  stalled = sum(t.get('stalled', 0) for t in traces)
  kinds = {}
  for t in traces:
    for m in t.get('meta', []) or []:
      k = '%s/%s/%s/%s/%s/%s' % (m['iface'], m['srv'], m['form'], m['stack'], m.get('proto'), m.get('smax'))
      kinds[k] = kinds.get(k, 0) + 1
  return {'calls': calls, 'replies': replies, 'chunkings_replayed': reads, 'write_splits_replayed': writes,
          'calls_sent_in_several_partial_sends': partial, 'calls_over_1000_bytes': big, 'wire_scenarios': wires,
          'connections_ending_in_unfinished_frame': unfinished, 'calls_whose_deadline_expired_in_write': stalled, 'call_classes': len(kinds)}
