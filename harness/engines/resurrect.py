"""Engine `resurrect` (C09): ResurrectorSink over the real pools / transports over the simulated
network, for one endpoint whose reachability the script controls; component chains
[ClientTimeoutSink -> serializer -> ResurrectorSink -> (WatermarkPool ->) transport] and complete
clients built by Thrift.NewBuilder / ThriftMux.NewBuilder with a single-member server set; and (level
'multi') complete clients over 2-4 endpoints behind the real Aperture / heap balancer, every order of
endpoints going away and coming back, projected on one focus endpoint.

Oracle: specs/ResurrectAbs.tla via ResurrectAbsTrace.  Code-shaped model: specs/Resurrector.tla.
"""
import random

from harness import common

NAME = 'resurrect'
PROPS = ['C09']
LEVEL = {'C09': 'model_checking'}
TRACE_MODULE = 'ResurrectAbsTrace'
TRACE_CFG = 'ResurrectAbsTrace.cfg'
TRACE_CHUNK = 600
CASE_TIMEOUT = 400
ASSUMPTIONS = [
  'an unreachable endpoint refuses connects (or, for ThriftMux, accepts and never answers pings) and resets established connections, '
  'or (blackhole) drops everything sent on established connections and refuses new ones',
  'C09.failFast is asserted only for requests issued while the resurrector reports Closed and no connect attempt is in progress',
  'back-off gaps are measured from the end of one attempt to the start of the next; domain initial > 1 s, exponent > 1',
  'C09.quietAfterClose does not count the single re-open the serial transport makes for a call that was already in flight when the client '
  'was closed and then times out (straggler rule; the same rule keeps such re-opens out of the back-off judgement)',
  'C09.recovers is asserted by the driver only after the endpoint has been reachable with steady traffic for max_wait_interval + slack',
  'multi-endpoint cases: all n members are in the aperture (min_size = n, jitter off) or the heap balancer is used, and steady traffic is '
  'bursts of n + 1 concurrent calls, so a least-loaded balancer has to use every member that is up; the trace is the projection on one endpoint',
]
RULE_DEFAULT = ('seeded reachability histories (down/up at random points relative to traffic and to the retry timer, incl. '
                'unreachable at first connect) x back-off configurations x {serial+pool, mux} x {component chain, full client}; '
                'non-trivial = at least one Down and two reconnect attempts or a Recover assertion; distinct by event list without times')

T0 = 1000
CONFIGS = [(5, 60, 1.2), (2, 10, 1.5), (3, 20, 2.0)]


def models(prop, tier):
  return [dict(module='Resurrector', cfg='Resurrector_q.cfg' if tier == 'quick' else 'Resurrector_t.cfg', coverage=True,
               what='fail-fast mode, retry loop (sleep, create, open, swap in / close and back off), Close at any point, deferred fault signal'),
          dict(module='Observable', cfg='Observable_q.cfg', coverage=True,
               what='the fault-signal primitive: synchronous value, deferred notification, subscribers read when the notification runs, one-shot subscribers')]


def _gen(rng, i):
  kind = 'thrift' if i % 2 == 0 else 'mux'
  level = 'full' if i % 5 == 4 else 'chain'
  initial, mx, exp = CONFIGS[(i // 2) % len(CONFIGS)]
  s = {'kind': kind, 'level': level, 'initial': initial, 'max': mx, 'exp': exp, 'rseed': rng.randint(0, 10 ** 6),
       'down_mode': rng.choice(['refuse', 'refuse', 'refuse20', 'silent' if kind == 'mux' else 'refuse', 'blackhole', 'fin']),
       'start_up': rng.random() < 0.8, 'steps': []}
  if kind == 'thrift' and rng.random() < 0.25:
    s['pool'] = {'max_watermark': rng.choice([1, 2])}
  st = s['steps']
  up = s['start_up']
  spacing = rng.choice([200, 500, 1000])
  n = rng.randint(3, 9)
  for _ in range(n):
    k = rng.random()
    if k < 0.35:
      st.append(['traffic', rng.choice([1000, 3000, 8000, 20000]), spacing])
    elif k < 0.65:
      up = not up
      st.append(['reach', 1 if up else 0])
      if rng.random() < 0.6:
        st.append(['traffic', rng.choice([500, 7000, 30000, 70000, 150000]), spacing])
    elif k < 0.72 and up:
      # the endpoint dies and the owner closes the client k quanta later (fault notification in flight)
      up = False
      st.append(['reachq', 0, rng.randint(0, 6)])
      st.append(['close'])
      st.append(['adv', rng.choice([1000, 70000])])
    elif k < 0.8:
      st.append(['adv', rng.choice([10, 100, 4990, 5000, 5010, 6900, 30000, 61000])])
    elif k < 0.9:
      st.append(['burst', rng.randint(1, 3)])
    else:
      st.append(['stepq', rng.randint(1, 5)])
  if rng.random() < 0.6:
    if not up:
      st.append(['reach', 1])
    st.append(['recover', spacing])
  if rng.random() < 0.4:
    st.append(['close'])
    st.append(['adv', rng.choice([1000, 70000, 200000])])
  return s


def _multi_systematic():
  """Several endpoints behind the real balancer: every order in which a subset of them goes away and comes
  back, observed at each of them in turn (the focus endpoint's projection is what the oracle sees)."""
  import itertools
  out = []
  for n in (2, 3):
    for k in range(1, n + 1):
      for downs in itertools.permutations(range(n), k):
        for ups in itertools.permutations(downs):
          out.append((n, list(downs), list(ups)))
  return out


def _gen_multi(rng, i, pattern=None):
  kind = 'thrift' if i % 2 == 0 else 'mux'
  initial, mx, exp = [(2, 10, 1.5), (3, 20, 2.0), (5, 60, 1.2)][(i // 2) % 3]
  s = {'kind': kind, 'level': 'multi', 'initial': initial, 'max': mx, 'exp': exp, 'rseed': rng.randint(0, 10 ** 6),
       'balancer': rng.choice(['aperture', 'aperture', 'heap']), 'down_mode': rng.choice(['refuse', 'refuse20']), 'steps': []}
  st = s['steps']
  spacing = rng.choice([200, 500, 1000])
  if pattern is not None:
    n, downs, ups = pattern
    s['n'] = n
    s['focus'] = ups[i % len(ups)] if i % 3 else ups[-1]
    st.append(['traffic', 2000, spacing])
    for e in downs:
      st.append(['reach', 0, e])
      st.append(['traffic', rng.choice([500, 3000, mx * 1000 + 3000]), spacing])
    last_up = None
    for e in ups:
      st.append(['reach', 1, e])
      if e == s['focus']:
        st.append(['recover', spacing])
      else:
        st.append(['traffic', mx * 1000 + 9000, spacing])
    if rng.random() < 0.3:
      st.append(['close'])
      st.append(['adv', 70000])
    return s
  n = s['n'] = rng.randint(2, 4)
  s['focus'] = rng.randrange(n)
  up = [True] * n
  st.append(['traffic', 1000, spacing])
  for _ in range(rng.randint(3, 8)):
    e = rng.randrange(n)
    up[e] = not up[e]
    st.append(['reach', 1 if up[e] else 0, e])
    k = rng.random()
    if k < 0.7:
      st.append(['traffic', rng.choice([300, 2500, 8000, mx * 1000 + 9000]), spacing])
    elif k < 0.85:
      st.append(['adv', rng.choice([100, 5000, 30000])])
  if not up[s['focus']]:
    st.append(['reach', 1, s['focus']])
  st.append(['recover', spacing])
  if rng.random() < 0.3:
    st.append(['close'])
    st.append(['adv', 70000])
  return s


def _queued_fault_family(rng, thorough):
  """A bounded connection pool with requests waiting in its queue at the moment the connection dies under
  the request in flight; then the usual outage and recovery."""
  out = []
  for level in ('chain', 'full'):
    for mw in (1, 2):
      for nb in ((2, 3, 4) if thorough else (2, 3)):
        for dm in ('refuse', 'refuse20', 'blackhole'):
          initial, mx, exp = rng.choice(CONFIGS)
          st = [['traffic', 1000, 500], ['burst', nb], ['reach', 0], ['traffic', int(mx * 1000) + 12000, 500],
                ['reach', 1], ['recover', 500]]
          out.append({'kind': 'thrift', 'level': level, 'initial': initial, 'max': mx, 'exp': exp, 'rseed': rng.randint(0, 10 ** 6),
                      'down_mode': dm, 'start_up': True, 'steps': st, 'pool': {'max_watermark': mw}})
  return out


def _close_family(rng, thorough):
  """The owner closes the client exactly while a reconnect attempt is in flight (slow refusal, silent
  handshake, refused 20 ms later), after 1..3 failed attempts, then time passes and the endpoint comes back."""
  out = []
  for kind in ('thrift', 'mux'):
    for level in ('chain', 'full'):
      for dm in ('refuse3s', 'refuse20') + (('silent',) if kind == 'mux' else ()):
        for nfail in ((1, 2, 3) if thorough else (1, 2)):
          for q in ((0, 1, 3) if thorough else (0, 2)):
            initial, mx, exp = rng.choice(CONFIGS)
            # the endpoint first refuses at once (the outage becomes known, requests fail fast, nothing is left
            # in flight); from then on connects take their time to fail
            st = [['traffic', 1000, 500], ['reach', 0], ['traffic', 1000, 500], ['adv', 100], ['mode', dm]]
            for _ in range(nfail - 1):
              st.append(['adv', int(mx * 1000) + 6000])
            st += [['close_in_attempt', int(mx * 1000) + 6000, q], ['adv', 1000], ['reach', 1], ['adv', 200000]]
            out.append({'kind': kind, 'level': level, 'initial': initial, 'max': mx, 'exp': exp, 'rseed': rng.randint(0, 10 ** 6),
                        'down_mode': 'refuse', 'start_up': True, 'steps': st})
  return out


def cases(prop, tier, seed):
  rng = random.Random(15485863 * int(seed) + 3)
  n = 400 if tier == 'quick' else 8000
  out = [_gen(rng, i) for i in range(n)]
  out += _close_family(random.Random(int(seed) + 11), tier != 'quick')
  out += _queued_fault_family(random.Random(int(seed) + 17), tier != 'quick')
  pats = _multi_systematic()
  if tier == 'quick':
    rng2 = random.Random(7 * int(seed) + 1)
    pats = [p for p in pats if p[0] == 2] + rng2.sample([p for p in pats if p[0] == 3], 14)
  out += [_gen_multi(rng, i + int(seed), pat) for i, pat in enumerate(pats)]
  if tier != 'quick':
    out += [_gen_multi(rng, i + 1 + int(seed), pat) for i, pat in enumerate(pats)]
  out += [_gen_multi(rng, i) for i in range(20 if tier == 'quick' else 600)]
  # the default aperture with a reserve endpoint that cannot be reached: calls pile up on the active member for
  # a few seconds (the load average rises, nothing triggers an expansion), then the client is closed with the
  # calls still in flight: nothing may dial the reserve endpoint afterwards
  rng4 = random.Random(19 * int(seed) + 3)
  for i in range(12 if tier == 'quick' else 120):
    kind = 'mux' if i % 3 else 'thrift'
    initial, mx, exp = [(2, 10, 1.5), (3, 20, 2.0)][i % 2]
    out.append({'kind': kind, 'level': 'multi', 'initial': initial, 'max': mx, 'exp': exp, 'rseed': rng4.randint(0, 10 ** 6),
                'balancer': 'aperture1', 'down_mode': 'refuse', 'n': rng4.choice([2, 3]), 'focus': 'idle', 'auto_delay': 20000,
                'steps': [['refuse_new'], ['pile', rng4.choice([6, 8, 12]), 30000], ['adv', rng4.choice([2500, 3500, 6000])],
                          ['close'], ['adv', 60000]]})
  # the default aperture (one active member, one in reserve): the active one dies, the client moves to the reserve, that
  # dies too, then ONE of them comes back and is the only reachable member: traffic must return to it
  rng5 = random.Random(23 * int(seed) + 9)
  for i in range(12 if tier == 'quick' else 96):
    kind = 'thrift' if i % 2 else 'mux'
    initial, mx, exp = [(2, 10, 1.5), (3, 20, 2.0)][(i // 2) % 2]
    sp = rng5.choice([200, 500])
    first = rng5.choice([0, 1])
    back = rng5.choice([0, 1])
    long_ = int(mx * 1000) + 9000
    st = [['traffic', 2000, sp], ['reach', 0, first], [rng5.choice(['traffic', 'straffic']), rng5.choice([3000, long_]), sp],
          ['reach', 0, 1 - first], ['adv', rng5.choice([1000, 20000])],
          ['straffic', rng5.choice([3000, long_, 2 * long_]), rng5.choice([sp, 1000, 3000])], ['reach', 1, back], ['recover', sp]]
    out.append({'kind': kind, 'level': 'multi', 'initial': initial, 'max': mx, 'exp': exp, 'rseed': rng5.randint(0, 10 ** 6),
                'balancer': 'aperture1', 'down_mode': rng5.choice(['refuse', 'refuse20']), 'n': 2, 'focus': back, 'steps': st})
  # a member that is down (all its connections reset, or one reset and the others silent with calls still
  # outstanding on them) leaves the server set; later the client is closed: nothing dials it any more
  rng3 = random.Random(13 * int(seed) + 5)
  for i in range(16 if tier == 'quick' else 200):
    sc = _gen_multi(rng3, i, (rng3.choice([2, 3]), [0], [0]))
    sp = sc['steps'][0][2]
    e = sc['focus'] = 0
    sc['steps'] = [['traffic', 2000, sp], ['reach', 0, e, rng3.choice(['uneven', 'uneven', 'even']), rng3.choice([0, 1, 2, 3])],
                   ['traffic', rng3.choice([100, 300, 600, 1500]), rng3.choice([100, sp])], ['leave', e],
                   ['traffic', rng3.choice([0, 1000, 5000]), sp], ['close'], ['adv', 200000]]
    out.append(sc)
  return out


def run_case(script):
  if script.get('level') == 'multi':
    return run_case_multi(script)
  loop = common.boot()
  common.cpu_watchdog(30)
  import gevent
  from harness.simgevent import simnet, peers
  from harness.simgevent.vloop import EPOCH
  from harness.engines.stack import patch_random
  from scales.constants import SinkProperties, MessageProperties
  from scales.loadbalancer.zookeeper import Endpoint
  from scales.message import MethodCallMessage, Deadline, FailedFastError, TimeoutError as STimeout
  from scales.sink import ClientMessageSink, ClientMessageSinkStack, TimeoutSinkProvider
  from scales.resurrector import ResurrectorSink
  from test.scales.thrift.gen_py.hello import Hello

  loop.run_until(EPOCH + T0 / 1000.0)
  loop.settle()
  net = simnet.SimNet(loop).install()
  patch_random(script['rseed'])
  kind, level = script['kind'], script['level']
  ev = []

  def ms():
    return int(round((loop.now() - EPOCH) * 1000))

  env = {'up': bool(script['start_up']), 'closed': False, 'attempt_open': {}, 'last_up_at': T0}
  if kind == 'thrift':
    peer = peers.ThriftPeer(net, auto_delay=0.01)
  else:
    peer = peers.MuxPeer(net, auto_delay=0.01)
  net.peer_factory = lambda c: peer
  down_mode = script['down_mode']

  def on_connect_start(conn):
    down_mode = env.get('down_mode', script['down_mode'])
    if env['up']:
      conn.connect_plan = ('ok', 0.01)
    elif down_mode == 'silent':
      conn.connect_plan = ('ok', 0.01)
      conn.user['silent'] = True
    elif down_mode == 'refuse20':
      conn.connect_plan = ('refuse', 0.02)
    elif down_mode == 'refuse3s':
      conn.connect_plan = ('refuse', 3.0)     # a connect that takes its time to fail (no answer to the SYN)
    else:
      conn.connect_plan = ('refuse', 0.0)
  net.on_connect_start = on_connect_start

  # per-connection silence (the peer object is shared): mux 'silent' = accepts and never answers;
  # 'blackhole' = established connections go silent (frames are dropped) and new connects are refused
  if kind == 'mux' or down_mode == 'blackhole':
    orig_on_frame = peer.on_frame

    def on_frame(conn, frame):
      if conn.user.get('silent'):
        return
      orig_on_frame(conn, frame)
    peer.on_frame = on_frame

  rparams = dict(initial_wait_interval=script['initial'], max_wait_interval=script['max'], backoff_exponent=script['exp'])
  res = {'sink': None}
  reqs = {}

  if level == 'chain':
    if kind == 'thrift':
      from scales.thrift.sink import SocketTransportSink, ThriftSerializerSink
      from scales.pool import WatermarkPoolSink
      provs = [TimeoutSinkProvider(), ThriftSerializerSink.Builder(), ResurrectorSink.Builder(**rparams),
               WatermarkPoolSink.Builder(**(script.get('pool') or {})), SocketTransportSink.Builder()]
    else:
      from scales.thriftmux.sink import SocketTransportSink, ThriftMuxMessageSerializerSink
      provs = [TimeoutSinkProvider(), ThriftMuxMessageSerializerSink.Builder(), ResurrectorSink.Builder(**rparams),
               SocketTransportSink.Builder()]
    for a, b in zip(provs, provs[1:]):
      a.next_provider = b
    props = {SinkProperties.Endpoint: Endpoint('10.0.0.1', 9090), SinkProperties.Label: 'svc',
             SinkProperties.ServiceInterface: Hello.Iface}
    top = provs[0].CreateSink(props)
    res['sink'] = top.next_sink.next_sink

    class Terminal(ClientMessageSink):
      def AsyncProcessRequest(self, *a):
        raise NotImplementedError()

      def AsyncProcessResponse(self, sink_stack, context, stream, msg):
        err = getattr(msg, 'error', None)
        if err is None:
          k = 'value'
        elif isinstance(err, FailedFastError):
          k = 'failfast'
        elif isinstance(err, STimeout):
          k = 'timeout'
        else:
          k = 'error'
        ev.append({'e': 'Deliver', 'r': context, 'kind': k, 't': ms()})
        reqs[context] = True
    terminal = Terminal()

    def do_open():
      try:
        top.Open().wait()
      except Exception:
        pass
    gevent.spawn(do_open)

    def issue(r, T):
      msg = MethodCallMessage(Hello.Iface, 'hi', ('r%d' % r,), {})
      msg.properties[MessageProperties.Endpoint] = None
      msg.properties[Deadline.KEY] = loop.now() + T / 1000.0
      stack = ClientMessageSinkStack()
      stack.Push(terminal, r)
      gevent.spawn(top.AsyncProcessRequest, stack, msg, None, {})

    def close_client():
      try:
        top.Close()
      except Exception:
        pass      # what an escaping exception leaves undone is judged by the clauses
  else:
    from scales.loadbalancer.serverset import StaticServerSetProvider
    from scales.core import ScalesUriParser
    if kind == 'thrift':
      from scales.thrift import Thrift
      b = Thrift.NewBuilder(Hello.Iface)
    else:
      from scales.thriftmux import ThriftMux
      b = ThriftMux.NewBuilder(Hello.Iface)
    b = b.ReplaceSink(ResurrectorSink.Builder, ResurrectorSink.Builder(**rparams))
    if kind == 'thrift' and script.get('pool'):
      from scales.pool import WatermarkPoolSink
      from scales.constants import SinkRole
      b = b.ReplaceRole(SinkRole.Pool, WatermarkPoolSink.Builder(**script['pool']))
    b = b.SetUri('tcp://10.0.0.1:9090').SetTimeout(10).SetOpenTimeout(0)
    client = b.Build()

    def issue(r, T):
      d = client._dispatcher
      ar = d.DispatchMethodCall('hi', ('r%d' % r,), {}, timeout=T / 1000.0)

      def done(a):
        ex = a.exception
        inner = getattr(ex, 'inner_exception', None)
        if a.successful() and ex is None:
          k = 'value'
        elif isinstance(inner, FailedFastError) or isinstance(ex, FailedFastError):
          k = 'failfast'
        elif isinstance(ex, STimeout):
          k = 'timeout'
        else:
          k = 'error'
        ev.append({'e': 'Deliver', 'r': r, 'kind': k, 't': ms()})
      ar.rawlink(done)

    def close_client():
      try:
        client.DispatcherClose()
      except Exception:
        pass

  # ---- observation
  st_prev = {'down': False}

  def rstate():
    s = res['sink']
    if s is None:
      return 0
    try:
      return int(s.state)
    except Exception:
      return 0

  def poll(_k=None):
    d = rstate() == 4 and res['sink'] is not None and getattr(res['sink'], '_down_on', None) is not None
    if d != st_prev['down']:
      st_prev['down'] = d
      ev.append({'e': 'Down' if d else 'Up', 't': ms()})
  loop.on_quantum = poll

  def on_net(e):
    k = e['kind']
    c = e['conn']
    if k == 'connect':
      env['attempt_open'][c] = True
      ev.append({'e': 'Attempt', 't': ms()})
    elif k in ('recv_failed', 'recv_eof', 'send_failed'):
      # the client has observed the established connection failing: the outage (and the
      # resurrector's clock) starts here, whether or not the resurrector's state is visible
      ev.append({'e': 'Down', 't': ms()})
    elif k == 'connect_failed':
      if env['attempt_open'].pop(c, None):
        ev.append({'e': 'AttemptEnd', 'ok': 0, 't': ms()})
    elif k == 'connected':
      if kind == 'thrift' and env['attempt_open'].pop(c, None):
        ev.append({'e': 'AttemptEnd', 'ok': 1, 't': ms()})
    elif k == 'close':
      if env['attempt_open'].pop(c, None):
        # mux: the connection was closed before its open completed (ping unanswered / reset)
        ev.append({'e': 'AttemptEnd', 'ok': 0, 't': ms()})
    elif k == 'consumed' or k == 'feed':
      pass
    elif k == 'srv_recv':
      a = e.get('arg') or ''
      if a.startswith('r') and a[1:].isdigit():
        ev.append({'e': 'SrvRecv', 'r': int(a[1:]), 't': ms()})
    elif k == 'srv_frame' and kind == 'mux' and e.get('mtype') == 65:
      # the initial ping was written: for mux the attempt's connect part is over; it ends (ok) when the
      # ping is answered, which we take as the moment the peer answers (not silent)
      if env['attempt_open'].get(c) and not net.conns[c].user.get('silent'):
        env['attempt_open'].pop(c, None)
        ev.append({'e': 'AttemptEnd', 'ok': 1, 't': ms()})
  net.listeners.append(on_net)

  nreq = [0]

  def req(T=900):
    nreq[0] += 1
    r = nreq[0]
    busy = 1 if any(c.waiting == 'connect' for c in net.conns) or any(env['attempt_open'].values()) else 0
    ev.append({'e': 'Req', 'r': r, 'st': rstate(), 'busy': busy, 't': ms()})
    issue(r, T)

  def quiet():
    loop.settle()
    ev.append({'e': 'Quiet', 't': ms()})

  loop.settle()
  slack = 9500   # connect latency (<= 5 s: a ThriftMux attempt whose ping was lost) + request spacing + margin
  steady_since = [None]   # time since which traffic has been steady with the endpoint up
  for op in script['steps']:
    k = op[0]
    if k == 'reach' or k == 'reachq':
      up = bool(op[1])
      if up != env['up']:
        env['up'] = up
        ev.append({'e': 'Reach', 'up': 1 if up else 0, 't': ms()})
        steady_since[0] = None
        if up:
          env['last_up_at'] = ms()
          for c in net.conns:
            if c.waiting == 'connect':
              c.resolve_connect(True)
          for c in net.conns:
            if down_mode == 'blackhole':
              c.user.pop('silent', None)
        elif down_mode == 'fin':
          for c in net.conns:
            if c.connected and not c.closed:
              c.feed_eof()          # an orderly close by the peer (idle reaper, restart); new connects are refused
        elif down_mode == 'blackhole':
          for c in net.conns:
            if c.connected and not c.closed:
              c.user['silent'] = True
        else:
          for c in net.conns:
            if c.connected and not c.closed:
              c.feed_error()
        if k == 'reachq':
          if op[2]:
            loop.step(op[2])
        else:
          loop.run_until_idle()
    elif k == 'traffic':
      dur, spacing = op[1], op[2]
      t_end = ms() + dur
      if env['up'] and steady_since[0] is None:
        steady_since[0] = max(env['last_up_at'], ms())
      while ms() < t_end and not env['closed']:
        req()
        loop.run_for(spacing / 1000.0)
        loop.settle()
      quiet()
    elif k == 'burst':
      for _ in range(op[1]):
        if not env['closed']:
          req()
      quiet()
    elif k == 'adv':
      steady_since[0] = None
      loop.run_for(op[1] / 1000.0)
      quiet()
    elif k == 'stepq':
      loop.step(op[1])
    elif k == 'recover':
      if env['closed'] or not env['up']:
        continue
      spacing = op[1]
      tau = env['last_up_at']
      # keep steady traffic from now until tau + max + slack, then assert
      t_end = max(ms(), tau) + int(script['max'] * 1000) + slack + spacing + 10
      began = ms()
      while ms() < t_end:
        req()
        loop.run_for(spacing / 1000.0)
        loop.settle()
      # steady traffic is only guaranteed since `began`: assert relative to max(tau, began)
      ev.append({'e': 'Recover', 'tau': max(tau, began), 't': ms()})
    elif k == 'mode':
      env['down_mode'] = op[1]      # how the unreachable endpoint treats connects from now on
    elif k == 'close' or k == 'close_in_attempt':
      if not env['closed']:
        if k == 'close_in_attempt':
          # run until a reconnect attempt is in flight (at most op[1] ms), then op[2] more quanta, then close
          t_end = ms() + op[1]
          while ms() < t_end and not any(env['attempt_open'].values()):
            nxt = loop.next_timer_at()
            if nxt is None:
              break
            loop.run_until(min(nxt, EPOCH + t_end / 1000.0))
          if op[2]:
            loop.step(op[2])
        env['closed'] = True
        close_client()
        loop.run_until_idle()
        ev.append({'e': 'ClientClosed', 't': ms()})
  quiet()
  return {'cfg': {'t0': T0, 'initial': int(script['initial'] * 1000), 'max': int(script['max'] * 1000), 'slack': slack,
                  'kind': kind, 'level': level},
          'ev': ev, 'meta': {'errors': [list(e[1:3]) for e in loop.errors][:4]}}


def run_case_multi(script):
  """n endpoints behind the real balancer (Aperture with min_size = n, or the heap balancer) of a complete
  Thrift / ThriftMux client; traffic comes in bursts of n + 1 concurrent calls, so a least-loaded balancer
  must use every endpoint that is up.  The trace is the projection on one (focus) endpoint."""
  loop = common.boot()
  common.cpu_watchdog(30)
  import gevent
  from harness.simgevent import simnet, peers
  from harness.simgevent.vloop import EPOCH
  from harness.engines.stack import patch_random
  from scales.loadbalancer import ApertureBalancerSink, HeapBalancerSink
  from scales.resurrector import ResurrectorSink
  from test.scales.thrift.gen_py.hello import Hello

  loop.run_until(EPOCH + T0 / 1000.0)
  loop.settle()
  net = simnet.SimNet(loop).install()
  patch_random(script['rseed'])
  kind, n, focus = script['kind'], script['n'], script['focus']
  hosts = ['10.0.0.%d' % (i + 1) for i in range(n)]
  fhost = hosts[focus] if isinstance(focus, int) else None
  ev = []

  def ms():
    return int(round((loop.now() - EPOCH) * 1000))

  env = {'up': {h: True for h in hosts}, 'closed': False, 'attempt_open': {}, 'last_up_at': T0}
  adelay = script.get('auto_delay', 10) / 1000.0
  peer = peers.ThriftPeer(net, auto_delay=adelay) if kind == 'thrift' else peers.MuxPeer(net, auto_delay=adelay)
  net.peer_factory = lambda c: peer
  down_mode = script['down_mode']

  def on_connect_start(conn):
    if env['up'].get(conn.addr[0], False):
      conn.connect_plan = ('ok', 0.01)
    elif down_mode == 'refuse20':
      conn.connect_plan = ('refuse', 0.02)
    else:
      conn.connect_plan = ('refuse', 0.0)
  net.on_connect_start = on_connect_start
  orig_on_frame = peer.on_frame

  def on_frame(conn, frame):
    if conn.user.get('silent'):
      return
    orig_on_frame(conn, frame)
  peer.on_frame = on_frame

  rparams = dict(initial_wait_interval=script['initial'], max_wait_interval=script['max'], backoff_exponent=script['exp'])
  if kind == 'thrift':
    from scales.thrift import Thrift
    b = Thrift.NewBuilder(Hello.Iface)
  else:
    from scales.thriftmux import ThriftMux
    b = ThriftMux.NewBuilder(Hello.Iface)
  b = b.ReplaceSink(ResurrectorSink.Builder, ResurrectorSink.Builder(**rparams))
  if script['balancer'] == 'heap':
    b = b.ReplaceSink(ApertureBalancerSink.Builder, HeapBalancerSink.Builder())
  elif script['balancer'] == 'aperture1':
    # the default aperture: one active member, the others held in reserve
    b = b.ReplaceSink(ApertureBalancerSink.Builder, ApertureBalancerSink.Builder(min_size=1, jitter_min_sec=0, jitter_max_sec=0))
  else:
    b = b.ReplaceSink(ApertureBalancerSink.Builder, ApertureBalancerSink.Builder(min_size=n, jitter_min_sec=0, jitter_max_sec=0))
  from scales.loadbalancer.serverset import ServerSetProvider
  from scales.loadbalancer.zookeeper import Endpoint as ZkEndpoint
  from scales.core import ScalesUriParser

  class DynProvider(ServerSetProvider):
    """A server set whose members can leave (and join) while the client runs."""
    def __init__(self):
      self.members = list(hosts)
      self.on_join = self.on_leave = None

    def Initialize(self, on_join, on_leave):
      self.on_join, self.on_leave = on_join, on_leave

    def Close(self):
      pass

    def GetServers(self):
      return [ScalesUriParser.Server(ZkEndpoint(h_, 9090)) for h_ in self.members]
  provider = DynProvider()
  b = b.SetServerSetProvider(provider).SetTimeout(10).SetOpenTimeout(0)
  client = b.Build()

  def on_net(e):
    k = e['kind']
    c = e['conn']
    if net.conns[c].addr is None:
      return
    if script.get('focus') == 'idle':
      # the focus is decided at the end (the endpoint the aperture held in reserve): keep everything, tagged
      if k == 'connect':
        allev.append((net.conns[c].addr[0], len(ev)))
    elif net.conns[c].addr[0] != fhost:
      return
    if env.get('left') and not env['closed']:
      return      # the focus endpoint has left the server set: only "quiet after close" is asserted for it from here on
    if k == 'connect':
      env['attempt_open'][c] = True
      ev.append({'e': 'Attempt', 't': ms()})
    elif k in ('recv_failed', 'recv_eof', 'send_failed'):
      ev.append({'e': 'Down', 't': ms()})
    elif k == 'connect_failed':
      if env['attempt_open'].pop(c, None):
        ev.append({'e': 'AttemptEnd', 'ok': 0, 't': ms()})
    elif k == 'connected':
      if kind == 'thrift' and env['attempt_open'].pop(c, None):
        ev.append({'e': 'AttemptEnd', 'ok': 1, 't': ms()})
    elif k == 'close':
      if env['attempt_open'].pop(c, None):
        ev.append({'e': 'AttemptEnd', 'ok': 0, 't': ms()})
    elif k == 'srv_recv':
      a = e.get('arg') or ''
      if a.startswith('r') and a[1:].isdigit():
        ev.append({'e': 'SrvRecv', 'r': int(a[1:]), 't': ms()})
    elif k == 'srv_frame' and kind == 'mux' and e.get('mtype') == 65:
      if env['attempt_open'].get(c):
        env['attempt_open'].pop(c, None)
        ev.append({'e': 'AttemptEnd', 'ok': 1, 't': ms()})
  net.listeners.append(on_net)

  nreq = [0]
  allev = []

  def burst():
    d = client._dispatcher
    for _ in range(n + 1):
      nreq[0] += 1
      d.DispatchMethodCall('hi', ('r%d' % nreq[0],), {}, timeout=0.9)

  def quiet():
    loop.settle()
    ev.append({'e': 'Quiet', 't': ms()})

  loop.settle()
  slack = 9500
  for op in script['steps']:
    k = op[0]
    if k == 'reach':
      up, h = bool(op[1]), hosts[op[2]]
      if len(op) > 4 and op[4] and not up:
        # calls are in flight (written, not yet answered) on the endpoint's connections when it dies
        for _ in range(op[4]):
          burst()
        loop.run_for(0.004)
      if up != env['up'][h]:
        env['up'][h] = up
        if h == fhost:
          ev.append({'e': 'Reach', 'up': 1 if up else 0, 't': ms()})
          if up:
            env['last_up_at'] = ms()
        if not up:
          first = True
          for c in net.conns:
            if c.addr is not None and c.addr[0] == h and c.connected and not c.closed:
              if len(op) > 3 and op[3] == 'uneven' and not first:
                c.user['silent'] = True      # dies unevenly: one connection is reset, the others just go silent
              else:
                c.feed_error()
              first = False
        loop.run_until_idle()
    elif k == 'refuse_new':
      # from now on every new connect is refused; established connections keep working
      for h_ in hosts:
        env['up'][h_] = False
    elif k == 'pile':
      d = client._dispatcher
      for _ in range(op[1]):
        nreq[0] += 1
        d.DispatchMethodCall('hi', ('r%d' % nreq[0],), {}, timeout=op[2] / 1000.0)
      loop.settle()
    elif k == 'leave':
      h = hosts[op[1]]
      if h in provider.members:
        provider.members.remove(h)
        if h == fhost:
          env['left'] = True
        if provider.on_leave:
          gevent.spawn(provider.on_leave, ScalesUriParser.Server(ZkEndpoint(h, 9090)))
        loop.run_until_idle()
    elif k == 'straffic':
      # light traffic: one call at a time
      dur, spacing = op[1], op[2]
      t_end = ms() + dur
      while ms() < t_end and not env['closed']:
        nreq[0] += 1
        client._dispatcher.DispatchMethodCall('hi', ('r%d' % nreq[0],), {}, timeout=0.9)
        loop.run_for(spacing / 1000.0)
        loop.settle()
      quiet()
    elif k == 'traffic':
      dur, spacing = op[1], op[2]
      t_end = ms() + dur
      while ms() < t_end and not env['closed']:
        burst()
        loop.run_for(spacing / 1000.0)
        loop.settle()
      quiet()
    elif k == 'adv':
      loop.run_for(op[1] / 1000.0)
      quiet()
    elif k == 'recover':
      if env['closed'] or not env['up'][fhost] or env.get('left'):
        continue
      spacing = op[1]
      tau = env['last_up_at']
      t_end = max(ms(), tau) + int(script['max'] * 1000) + slack + spacing + 10
      began = ms()
      while ms() < t_end:
        burst()
        loop.run_for(spacing / 1000.0)
        loop.settle()
      ev.append({'e': 'Recover', 'tau': max(tau, began), 't': ms()})
    elif k == 'close':
      if not env['closed']:
        env['closed'] = True
        env['close_idx'] = len(ev)
        try:
          client.DispatcherClose()
        except Exception:
          pass
        loop.run_until_idle()
        ev.append({'e': 'ClientClosed', 't': ms()})
  quiet()
  if script.get('focus') == 'idle':
    # events of all endpoints were recorded; keep those of the endpoints that had not been dialled when the
    # client was closed plus the clock events (Quiet / ClientClosed): nothing may dial them afterwards
    ci = env.get('close_idx', len(ev))
    dialled_before = set(h_ for h_, i in allev if i < ci)
    keep_hosts = set(hosts) - dialled_before
    idx_host = {}
    for h_, i in allev:
      idx_host[i] = h_
    out_ev = []
    for i, e in enumerate(ev):
      if e['e'] in ('Quiet', 'ClientClosed'):
        out_ev.append(e)
      elif e['e'] == 'Attempt' and idx_host.get(i) in keep_hosts:
        out_ev.append(e)
    ev = out_ev
  return {'cfg': {'t0': T0, 'initial': int(script['initial'] * 1000), 'max': int(script['max'] * 1000), 'slack': slack,
                  'kind': kind, 'level': 'multi'},
          'ev': ev, 'meta': {'errors': [list(e[1:3]) for e in loop.errors][:4], 'n': n, 'focus': focus,
                             'balancer': script['balancer']}}


def trace_for_tlc(t):
  c = t['cfg']
  return {'cfg': {'t0': c['t0'], 'initial': c['initial'], 'max': c['max'], 'slack': c['slack']}, 'ev': t['ev']}


def nontrivial(prop, t):
  ev = t['ev']
  downs = sum(1 for e in ev if e['e'] == 'Down')
  att = sum(1 for e in ev if e['e'] == 'Attempt')
  if not ((downs >= 1 and att >= 3) or any(e['e'] == 'Recover' for e in ev)):
    return None
  return common.canon([{k: v for k, v in e.items() if k != 't' and k != 'tau'} for e in ev])


def witness(prop, t, consumed, clause):
  ev = t['ev']
  first_attempt_failed = False
  for e in ev:
    if e['e'] == 'AttemptEnd':
      first_attempt_failed = (e['ok'] == 0)
      break
  return {'kind': t['cfg']['kind'], 'level': t['cfg']['level'],
          'unreachable_at_first_connect': first_attempt_failed,
          'event': ev[consumed]['e'] if consumed < len(ev) else None}


# ------------------------------------------------------------------ direction A (Resurrector.tla on the real ResurrectorSink)
def _replay_resurrector(beh):
  """Step the real ResurrectorSink (over a scripted sink factory) through one TLC behaviour of
  Resurrector.tla; W = <<2,3,5>> corresponds to initial 2 s, exponent log2(3), max 5 s."""
  import math
  loop = common.boot()
  common.cpu_watchdog(30)
  import gevent
  from scales.asynchronous import AsyncResult
  from scales.constants import ChannelState, SinkProperties
  from scales.loadbalancer.zookeeper import Endpoint
  from scales.message import MethodCallMessage, MethodReturnMessage, FailedFastError
  from scales.resurrector import ResurrectorSink
  from scales.sink import ClientMessageSink, ClientMessageSinkStack
  loop.settle()
  base = loop.now()
  W = beh[0][1].get('_W') or [2, 3, 5]
  created = []
  env = {'reach': True}

  class Sink(ClientMessageSink):
    def __init__(self):
      super(Sink, self).__init__()
      self._st = ChannelState.Idle
      self.open_ar = None
      self.closed = 0
      self.reqs = 0

    def Open(self):
      self.open_ar = AsyncResult()
      return self.open_ar

    def Close(self):
      self.closed += 1
      self._st = ChannelState.Closed

    @property
    def state(self):
      return self._st

    def AsyncProcessRequest(self, sink_stack, msg, stream, headers):
      self.reqs += 1
      if self._st == ChannelState.Open:
        sink_stack.AsyncProcessResponseMessage(MethodReturnMessage(return_value='ok'))
      else:
        sink_stack.AsyncProcessResponseMessage(MethodReturnMessage(error=Exception('dead sink')))

    def AsyncProcessResponse(self, *a):
      pass

  class Factory(object):
    def CreateSink(self, props):
      s_ = Sink()
      created.append(s_)
      return s_
  params = ResurrectorSink.Builder(initial_wait_interval=W[0], max_wait_interval=W[-1],
                                   backoff_exponent=math.log(W[1]) / math.log(W[0])).sink_properties
  rs = ResurrectorSink(Factory(), params, {SinkProperties.Endpoint: Endpoint('10.0.0.1', 9090), SinkProperties.Label: 'svc'})
  out = []

  class Terminal(ClientMessageSink):
    def AsyncProcessRequest(self, *a):
      raise NotImplementedError()

    def AsyncProcessResponse(self, sink_stack, context, stream, msg):
      err = getattr(msg, 'error', None)
      out.append('failfast' if isinstance(err, FailedFastError) else ('error' if err is not None else 'value'))
  terminal = Terminal()
  # Init of the model: nextSink = live, subscribed
  ar = rs.Open()
  loop.settle()
  created[-1]._st = ChannelState.Open
  created[-1].open_ar.set(True)
  loop.settle()
  attempts = [0]
  drift = None
  steps = 0
  prev = beh[0][1]
  for (act, st) in beh[1:]:
    name, params_ = act
    if name != 'Tick':
      loop.advance_to(base + prev['now'])     # exactly on the tick (Tick stops just short of it), nothing runs
    if name == 'Unreach':
      env['reach'] = False
      cur = rs.next_sink
      if cur is not None and cur._st == ChannelState.Open and prev['subscribed']:
        cur._st = ChannelState.Closed
        cur.on_faulted.Set(Exception('connection lost'))      # notification is spawned (deferred)
    elif name == 'Reach':
      env['reach'] = True
    elif name == 'DeliverFault':
      loop.run_until_idle()
    elif name == 'RetryWake':
      loop.run_until(base + st['now'])
      loop.settle()
    elif name == 'AttemptDone':
      s_ = created[-1]
      if env['reach']:
        s_._st = ChannelState.Open
        s_.open_ar.set(True)
      else:
        s_._st = ChannelState.Closed
        s_.open_ar.set_exception(Exception('refused'))
      loop.settle()
    elif name == 'Request':
      stack = ClientMessageSinkStack()
      stack.Push(terminal, 0)
      msg = MethodCallMessage(None, 'hi', (), {})
      gevent.spawn(rs.AsyncProcessRequest, stack, msg, None, {})
      # gevent runs greenlets FIFO: a request spawned after a fault notification runs after it, so while
      # the model still has a notification in flight the request just stays queued
      if prev['inflight'] == 0:
        loop.step(2)
    elif name == 'OwnerClose':
      rs.Close()
    elif name == 'Tick':
      # just short of the tick, so that a retry timer due exactly at it fires in the RetryWake step
      loop.run_until(base + st['now'] - 0.001)
    steps += 1
    prev = st
    try:
      g = rs._resurrector
      alive = g is not None and not g.dead
      opening = bool(created) and created[-1].open_ar is not None and not created[-1].open_ar.ready() and alive
      real = {'downOn': rs._down_on is not None, 'none': rs.next_sink is None,
              'rpc': ('opening' if opening else 'sleeping') if alive else 'none',
              'now': int(round(loop.now() - base))}
    except Exception:
      real = None
    if real is not None and drift is None:
      spec = {'downOn': st['downOn'], 'none': st['nextSink'] == 'none', 'rpc': st['rpc'], 'now': st['now']}
      if st['inflight'] == 0 and spec != real:
        drift = {'step': steps, 'action': [name, params_], 'spec': spec, 'real': real}
  return {'steps': steps, 'drift': drift}


def replay_behaviours(prop, tier, seed):
  from harness import tlc
  # every transition of the complete state graph of the bounded model (2k states quick, 6.6k thorough)
  behs, gstats = tlc.graph_behaviours('Resurrector', 'Resurrector_q.cfg' if tier == 'quick' else 'Resurrector_t.cfg',
                                      seed=int(seed))
  if tier != 'quick':
    for b in behs:
      b[0][1]['_W'] = [2, 4, 8]
  res = common.run_forked(_replay_resurrector, behs)
  errs_ = [x['err'] for x in res if 'err' in x]
  if errs_:
    raise RuntimeError('resurrector replay failed: ' + errs_[0])
  drift = [x['ok']['drift'] for x in res if x['ok']['drift']]
  summ = {'model': 'Resurrector', 'behaviours_replayed': len(behs),
          'steps_compared': sum(x['ok']['steps'] for x in res), 'drift': len(drift)}
  summ.update(gstats)
  from harness.engines import observable
  osumm, odrift = observable.replay(int(seed))
  summ['observable'] = osumm
  drift = drift + odrift
  return {'summary': summ,
          'traces': [], 'drift': drift}
