"""Engine `proxy` (C20): generated client proxies and URI parsing are faithful.

Specs: UriProxy (reference functions + oracle clauses), ProxyCalls (the call machine of the end-to-end mode:
every call reaches the sink once, unchanged, and gets the answer to its own message), UriProxyTrace (batched
validation of recorded (input, output) pairs and end-to-end histories), UriProxyCheck (bounded
self-consistency of the reference functions: split/join inverse, format/parse round trips, name laws, the
proxy-class cache as a small state machine), ProxyDispatch (code-shaped model of the dispatcher's call path,
in particular of calls made before Open() completed, with ProxyCalls in lock-step; _shared.cfg = the
"completion closures share the loop variable" design, kept as counterexample generator).

Code under test (the real classes from /repo): scales.core.ClientProxyBuilder (CreateServiceClient /
_BuildServiceProxy / _PROXY_TYPE_CACHE), scales.core.ScalesUriParser, scales.core.Scales builder
(SetUri / Build), scales.dispatch.MessageDispatcher (level "real": the proxy is built by
Scales.NewBuilder(I).WithSink(<recording sink>).Build(), so the call passes through the real dispatcher
and reaches the recording sink as a MethodCallMessage), scales.loadbalancer.serverset providers.

Inputs (seeded): interface classes generated as real class statements (own, inherited, overridden and
aliased methods; names with and without leading/trailing underscores incl. __dunder__, _private,
trailing_, __lead, trail__; varied signatures), called through every exposed attribute with positional
and keyword arguments over (level "stub") a recording stub dispatcher or (level "real") the real
dispatcher over a recording sink; URIs tcp://h1:p1,...,hn:pn (1..n endpoints), zk://hosts/path[#name],
other schemes.

Families (cases of kind "family"): several related interfaces of ONE generated hierarchy (chain, multiple
inheritance, diamond, mixed) are each given a client in one process, in every order (all permutations, pairs,
the same interface twice): base then derived, derived then base, sibling then sibling; each of them is judged
by Iface / Fwd (C20.exposes, forwarding) exactly like a single interface.  Every case runs in a forked child:
the proxy-class cache starts empty and only the order inside the case matters.

URIs: every parsed provider is a value and is queried several times (each query one Uri event judged by the same
clause): right after the parse, again right away now and then, and once or twice more interleaved with the other
providers of the case; builder level: one SetUri followed by two Build()s over a stub in the load balancer role
that initializes the provider and asks it for its servers on Open(), as load balancers do.  Returned lists are
never modified by the driver (the statement says nothing about what a caller may do to them).

End-to-end mode (cases of kind "e2e"): one generated interface, the client built by the real
ClientProxyBuilder / Scales builder over the REAL MessageDispatcher, below it a recording sink whose Open()
result and answers the scenario controls.  Scenarios (seeded): calls made before the open completed, after,
and a mix (also between the open result being set and its continuations running); several calls outstanding
at once, each with an argument of its own; answers in a scenario-chosen order, some of them errors, some
calls left unanswered; per message the sink keeps it and answers later, or answers at once inside AsyncProcessRequest
(value or error, early and late calls), or raises inside AsyncProcessRequest (never answered); DispatcherOpen() asked again ("wait until ready") before / between / after the early
calls, after the open completed, twice; error answers of several classes (args, own __str__, raised and caught so
they carry a traceback, built as sinks do: MethodReturnMessage(error=ex)) and string values with format-hostile
texts ('%', '{}', backslashes, non-ASCII, very long, empty), falsy and large values; the loop advanced between
operations by a scenario-chosen number of quanta.  Everything of the code under test that may legitimately yield
or wait (Build(), DispatcherOpen(), both call forms, the delivery of an answer, Close()) runs in a greenlet of
its own, the loop stepped one quantum at a time until it has returned (_outside); never from the driver greenlet.
Events: Client, Reopen, Call, SinkRecv, Reply, Ret, Result, End (see specs/UriProxy.tla, specs/ProxyCalls.tla).
No timeouts are used (the call timeout is 3600 s and the clock moves by seconds at most).

Level: exploration (inputs are sampled; TLC validates every recorded pair against the
reference functions and checks the reference functions' own laws exhaustively in bounds).
"""
import random

from harness import common

NAME = 'proxy'
PROPS = ['C20']
LEVEL = {'C20': 'exploration'}
TRACE_MODULE = 'UriProxyTrace'
TRACE_CFG = 'UriProxyTrace.cfg'
TRACE_CHUNK = 40          # set per tier in cases()
ASSUMPTIONS = [
  '"public method" is read conservatively: only names without a leading underscore and not ending in "__" MUST be '
  'exposed (every reading of "public" agrees on them); names the code also proxies (_private) are checked for faithful '
  'forwarding when they reach the dispatcher, names it does not (__lead, trail__, __dunder__) are not asserted',
  'interfaces where one method is named like another one\'s _async form are outside the domain (no naming scheme can '
  'expose both); interface methods are instance methods (def / lambda / alias), as in Thrift Iface classes',
  'URIs are well-formed host:port lists (hosts over [a-z0-9._-], decimal ports); scheme names are lower case; '
  'a zk:// provider is observed through isinstance, endpoint_name and (optionally, degrading if absent) '
  '_zk_path / _zk_client.hosts; KazooClient construction is offline (no connection is made)',
  'IPv6 literals and endpoints without a port are outside "host:port" (the parser rejects them with ValueError); '
  'not asserted either way',
  'inputs are sampled (seeded), not enumerated',
  'host names are compared case-insensitively (tcp:// endpoints and zk:// ensemble hosts); ZooKeeper paths and endpoint '
  'names are compared as given (case sensitive); paths hold no whitespace, ?, ; or #',
  'end-to-end mode: every call of a scenario carries an argument of its own (a zero-argument method is called at '
  'most once per scenario), so the sink message of a call is identified by its content; the sink is directly below '
  'the dispatcher (builder path: below the timeout sink); open always succeeds; no call times out (timeouts are '
  'C01); calls of methods that need not be proxied (leading underscore) are judged only when they reach the sink; '
  'a repeated Open() of the recording sink returns the same result (as load balancers / transport sinks do), or, '
  'variant, a fresh completed one once the sink is open (as the singleton pool does); an exception escaping from '
  'the response processing into the deliverer of an answer is not judged by itself (the call it was for is)',
]
RULE = {'C20': 'each trace = either a family (2-4 related interfaces of one hierarchy proxied in a scripted order), or 2-3 generated interfaces (every exposed attribute called with positional+keyword '
               'arguments, value and error outcomes, stub or real dispatcher, cached and fresh proxy class) + 8-12 URIs, '
               'or one end-to-end scenario (2-7 calls through a generated client over the real dispatcher over a '
               'recording sink; calls before/after/around the completion of open, DispatcherOpen() repeated, answers '
               'in scenario-chosen order with format-hostile error texts / values); '
               'non-trivial = contains an interface with an inherited or underscore-decorated method, or a URI with '
               'more than one endpoint, or (end-to-end) at least two calls outstanding at once; distinct by canonical '
               'event list'}
CASE_TIMEOUT = 300


def models(prop, tier):
  ms = [dict(module='UriProxyCheck', cfg='UriProxyCheck.cfg', coverage=True, workers=4,
             what='split/join inverse over 7-symbol alphabet up to length 5, tcp/zk format-parse round trips, '
                  'name laws over 2^10 name sets, proxy-class cache machine')]
  ms[0]['what'] += ', a static provider queried three times'
  ms.append(dict(module='UriProxyCheck', cfg='UriProxyCheck_inherit.cfg', workers=2, expect_violation='CacheFaithful',
                 what='counterexample generator: proxy class kept on the interface and looked up through inheritance '
                      '(a derived interface asked after its base is handed the base\'s class)'))
  ms.append(dict(module='UriProxyCheck', cfg='UriProxyCheck_oneshot.cfg', workers=2, expect_violation='ProviderIsValue',
                 what='counterexample generator: static provider over a one-shot iterator (only the first query '
                      'answers the listed endpoints)'))
  # code-shaped model of the dispatcher's call path (calls made before / after the open completed), the call
  # machine of ProxyCalls in lock-step
  ms.append(dict(module='ProxyDispatch', cfg='ProxyDispatch_chain2.cfg', coverage=True, workers=4,
                 may_be_unused=[],
                 what='dispatcher call path as it is (ContinueWith(dispatch).Unwrap().rawlink(complete) per call), '
                      '2 calls, both forms, value and error answers'))
  if tier == 'quick':
    ms.append(dict(module='ProxyDispatch', cfg='ProxyDispatch_chain3v.cfg', workers=6,
                   what='as it is, 3 calls, both forms, one answer kind'))
  else:
    ms.append(dict(module='ProxyDispatch', cfg='ProxyDispatch_chain.cfg', workers=8,
                   what='as it is, 3 calls, both forms, value and error answers'))
    ms.append(dict(module='ProxyDispatch', cfg='ProxyDispatch_chain4v.cfg', workers=12, timeout=2400,
                   what='as it is, 4 calls, both forms, one answer kind'))
  ms.append(dict(module='ProxyDispatch', cfg='ProxyDispatch_drain3v.cfg' if tier == 'quick' else 'ProxyDispatch_drain.cfg',
                 workers=4,
                 what='alternative shape: early calls queued, one drain on open, a completion closure per call'))
  ms.append(dict(module='ProxyDispatch', cfg='ProxyDispatch_shared.cfg', workers=2, expect_violation='NoViolation',
                 what='counterexample generator: the drain shape with completion closures sharing the loop '
                      'variable (every completion sets the result of the last queued call)'))
  ms.append(dict(module='ProxyDispatch', cfg='ProxyDispatch_peel.cfg', workers=2, expect_violation='NoViolation',
                 what='counterexample generator: Unwrap peels completed nested results and takes a call result that '
                      'has already failed (the sink answered with an error at once) for the value None'))
  return ms


# =================================================================== generation
_STEMS = ['a', 'hi', 'get', 'M1', 'do_it', 'x9', 'put', 'Close', 'open', 'value', 'ready', 'asynch', 'caf\u00e9']
_SIGS = [
  ('self', []),
  ('self, a', ['a']),
  ('self, a, b', ['a', 'b']),
  ('self, a, b=None', ['a', 'b']),
  ('self, a=1, b=2, c=3', ['a', 'b', 'c']),
  ('self, *args', ['*']),
  ('self, a, *args, **kwargs', ['a', '*', '**']),
  ('self, **kwargs', ['**']),
  ('self, key, timeout=None', ['key', 'timeout']),
  ('self, method, args, kwargs', ['method', 'args', 'kwargs']),
]
_KWNAMES = ['k', 'opt', 'timeout', 'method_name', 'asynchronous', 'args', 'kwargs', 'x_1', 'ar']


def _decorate(rng, stem):
  r = rng.random()
  if r < 0.40:
    return stem
  forms = ['_' + stem, stem + '_', '__' + stem, stem + '__', '__' + stem + '__', '_' + stem + '_',
           '___' + stem, stem + '___', '_' + stem + '__', '__' + stem + '_', stem + '_async']
  return rng.choice(forms)


def _gen_iface(rng, idx, shape=None):
  """Interface spec: a small class hierarchy as source text + the calls to make.
  shape (families of related interfaces): 'chain' (each class extends the previous one), 'multi' (the last class
  extends all the others, which are unrelated), 'diamond' (1 and 2 extend 0, 3 extends 2 and 1)."""
  nclasses = rng.choice([1, 1, 2, 2, 3])
  if shape is not None:
    nclasses = 4 if shape == 'diamond' else rng.choice([2, 3, 3])
  classes = []
  used = set()
  for c in range(nclasses):
    nm = rng.randint(1, 4)
    methods = []
    for _ in range(nm):
      for _try in range(10):
        n = _decorate(rng, rng.choice(_STEMS))
        if rng.random() < 0.08:
          n = rng.choice(['_', '__', '___', '_async', '__init__', '__repr__'])
        # keep the interface inside the domain: no method named like another one's async form
        if n.endswith('_async') and n[:-6] in used:
          continue
        if (n + '_async') in used:
          continue
        break
      else:
        continue
      override = n in used and rng.random() < 0.5
      if n in used and not override:
        continue
      used.add(n)
      sig = rng.randrange(len(_SIGS))
      if n in ('__init__', '__repr__'):
        sig = 0        # special methods keep their protocol signature
      kind = 'def'
      r = rng.random()
      if r < 0.08 and n not in ('__init__', '__repr__'):
        kind = 'lambda'
      methods.append({'n': n, 'sig': sig, 'kind': kind})
    if methods and rng.random() < 0.15:
      # alias: a second attribute bound to the same function object
      src = rng.choice(methods)
      an = _decorate(rng, rng.choice(_STEMS)) + '2'
      if an not in used and not an.endswith('_async') and (an + '_async') not in used \
          and src['n'] not in ('__init__', '__repr__'):
        used.add(an)
        methods.append({'n': an, 'kind': 'alias', 'of': src['n'], 'sig': src['sig']})
    classes.append({'methods': methods})
  # hierarchy: class k inherits from a subset of earlier classes (last class is the interface)
  for k, c in enumerate(classes):
    bases = []
    if k > 0:
      if k == nclasses - 1:
        bases = list(range(k)) if rng.random() < 0.6 else [k - 1]
      elif rng.random() < 0.5:
        bases = [k - 1]
    c['bases'] = bases
  if shape == 'chain':
    for k, c in enumerate(classes):
      c['bases'] = [k - 1] if k else []
  elif shape == 'multi':
    for k, c in enumerate(classes):
      c['bases'] = list(range(k)) if k == nclasses - 1 else []
  elif shape == 'diamond':
    classes[0]['bases'], classes[1]['bases'], classes[2]['bases'], classes[3]['bases'] = [], [0], [0], [2, 1]
  # a chain must stay linearisable: if class 2 lists [0, 1] and 1 inherits 0, order as [1, 0]
  last = classes[-1]
  if len(last['bases']) > 1:
    last['bases'] = sorted(last['bases'], reverse=True)
  return {'classes': classes, 'cname': rng.choice(['Iface', 'Iface', 'Svc%d' % idx]),
          'level': 'stub' if rng.random() < 0.6 else 'real',
          'open': rng.choice(['done', 'pending']),
          'cached': rng.random() < 0.5,
          'callseed': rng.randint(0, 2 ** 30)}


_HOSTS = ['localhost', 'h1', 'h2', 'zk1.zk.com', '10.0.0.1', '192.168.1.250', 'a-b', 'a_b', 'x', 'node-7.dc.example.org',
          'h', '0', 'a.b.c.d.e']
_PORTS = ['1', '80', '8080', '2181', '9090', '65535', '10', '443', '31337']
_PATHS = ['', '/', '/a', '/test/path', '/a/b_c/d-1', '/service/prod/thrift-mux/members', '/x/',
          # znode paths are case sensitive (and may hold other characters whose case / spelling matters)
          '/Prod/UserService', '/A', '/aB/Cd_E-1', '/services/Foo.Bar/v2', '/X/y/', '/a~b/C+d', '/%41b/%e9', '/ZK']
_EPS = ['', '', 'http', 'thrift', 'thrift-mux', 'a_b', 'admin1',
        # so are endpoint names (keys of a member's additional endpoints)
        'Admin', 'HTTP', 'thriftMux', 'a_B']
_HOSTS_MIXED = ['ZK1.zk.com', 'Host-A', 'NODE7']     # host names are not case sensitive: compared as such
_OTHER = ['http://h:1', 'https://h1:443/x', 'tcps://h:1', 'xtcp://h:1', 'zks://h:1/p', 'kz://h:1/p', 'zookeeper://h:2181/p',
          'h:1', 'localhost:8080,localhost:8081', '', 'tcp', 'zk', '//h:1', 'tcp//h:1', 'udp://h:1,h2:2', 'mux://h:1',
          'tcp.x://h:1', 'file:///tmp/x', 'z://h:1']


def _gen_uri(rng):
  r = rng.random()
  if r < 0.45:
    n = rng.choice([1, 1, 2, 2, 3, 4, 6, 9])
    eps = ['%s:%s' % (rng.choice(_HOSTS if rng.random() < 0.93 else _HOSTS_MIXED), rng.choice(_PORTS)) for _ in range(n)]
    tail = rng.choice(['', '', '', '/'])
    return 'tcp://' + ','.join(eps) + tail
  if r < 0.8:
    n = rng.choice([1, 1, 2, 3, 5])
    eps = ['%s:%s' % (rng.choice(_HOSTS if rng.random() < 0.9 else _HOSTS_MIXED), rng.choice(_PORTS)) for _ in range(n)]
    ep = rng.choice(_EPS)
    return 'zk://' + ','.join(eps) + rng.choice(_PATHS) + ('#' + ep if ep else '')
  return rng.choice(_OTHER)


# ------------------------------------------------------------------- end-to-end scenarios
def _gen_e2e(rng, idx):
  """One client over the real dispatcher over a recording sink: calls before / after / around the
  completion of the client's open, several outstanding at once, answers in a scenario-chosen order."""
  for _try in range(8):
    spec = _gen_iface(rng, idx)
    # enough methods that take arguments (each call carries a marker argument of its own)
    rich = set(m['n'] for c in spec['classes'] for m in c['methods']
               if m['sig'] != 0 and not m['n'].endswith('__') and m['n'].strip('_'))
    if len(rich) >= 2:
      break
  mode = rng.choice(['early', 'early', 'early', 'mix', 'mix', 'after'])
  ncalls = rng.randint(2, 7)
  ops = [{'op': 'call', 'form': rng.choice(['sync', 'async']), 'pick': rng.randint(0, 10 ** 6),
          'aseed': rng.randint(0, 2 ** 30)} for _ in range(ncalls)]
  if mode == 'early':
    at = ncalls
  elif mode == 'mix':
    at = rng.randint(1, ncalls - 1)
  else:
    at = -1                      # open completes before the client is handed out
  if at >= 0:
    ops.insert(at, {'op': 'open'})
  # answers: from the open on, at random places (an answer with nothing outstanding is a no-op)
  first = max(at, 0) + 1
  for _ in range(rng.randint(0, ncalls)):
    ops.insert(rng.randint(first, len(ops)), {'op': 'reply', 'pick': rng.randint(0, 10 ** 6),
                                               'kind': 'value' if rng.random() < 0.6 else 'raise'})
  # DispatcherOpen() asked again ("wait until the client is ready"): before / between / after the early calls,
  # after the open completed, twice in a row
  r = rng.random()
  nre = 0 if r < 0.45 else (1 if r < 0.8 else 2)
  if nre:
    at_re = rng.randint(0, len(ops))
    for k in range(nre):
      where = at_re if (k == 0 or rng.random() < 0.4) else rng.randint(0, len(ops))
      ops.insert(where, {'op': 'reopen', 'wait': 1 if rng.random() < 0.5 else 0})
  # how far the loop runs between two operations
  steps = []
  for o in ops:
    steps.append(o)
    r = rng.random()
    if r < 0.45:
      steps.append({'op': 'settle'})
    elif r < 0.70:
      steps.append({'op': 'step', 'n': rng.choice([1, 1, 2, 3, 5])})
  # drain: open (if still pending), then answer what is outstanding in a scenario-chosen order
  drain = []
  for _ in range(ncalls + 1):
    drain.append({'op': 'reply', 'pick': rng.randint(0, 10 ** 6), 'kind': 'value' if rng.random() < 0.6 else 'raise'})
    r = rng.random()
    if r < 0.4:
      drain.append({'op': 'settle'})
    elif r < 0.6:
      drain.append({'op': 'step', 'n': rng.choice([1, 2, 3])})
  # what the sink does with the k-th message it receives: keep it and answer when the scenario says so
  # ("later"), answer at once inside AsyncProcessRequest ("now": value or error), or raise inside
  # AsyncProcessRequest ("throw": the message is never answered)
  plan = []
  for _ in range(ncalls):
    r = rng.random()
    plan.append({'how': 'later' if r < 0.55 else ('now' if r < 0.92 else 'throw'),
                 'kind': 'value' if rng.random() < 0.5 else 'raise', 'pick': rng.randint(0, 10 ** 6)})
  return {'kind': 'e2e', 'iface': spec, 'mode': mode, 'steps': steps, 'drain': drain, 'sink_plan': plan,
          'keep_unanswered': 1 if rng.random() < 0.15 else 0,
          'via': rng.choice(['builder', 'builder', 'direct']),
          'open_wait': rng.choice([0, 0, -1]),
          # a repeated Open() of the sink: the same result every time (load balancers, transport sinks), or
          # the same while opening and a fresh completed one once open (singleton pool)
          'stub_open': rng.choice(['same', 'same', 'fresh_done'])}


def _gen_families(rng, nfam):
  """Related interfaces of one generated hierarchy, each of them given a client, in one process, in every order:
  base then derived, derived then base, sibling then sibling, the same one twice (the order inside a case is
  what matters: every case starts with an empty proxy-class cache)."""
  import itertools
  out = []
  for f in range(nfam):
    spec = _gen_iface(rng, f, shape=rng.choice(['chain', 'chain', 'multi', 'multi', 'diamond', 'mixed']))
    n = len(spec['classes'])
    orders = [list(p) for p in itertools.permutations(range(n))]
    if len(orders) > 6:
      orders = rng.sample(orders, 6)
    if n >= 3:
      pairs = [list(p) for p in itertools.permutations(range(n), 2)]
      orders += rng.sample(pairs, min(3, len(pairs)))
    dup = [rng.randrange(n)]
    dup += [dup[0]] if n == 1 or rng.random() < 0.5 else [rng.randrange(n), dup[0]]
    orders.append(dup)
    for o in orders:
      out.append({'kind': 'family', 'iface': spec, 'order': o,
                  'levels': ['stub' if rng.random() < 0.7 else 'real' for _ in o],
                  'cached': [rng.random() < 0.5 for _ in o]})
  return out


def cases(prop, tier, seed):
  global TRACE_CHUNK
  TRACE_CHUNK = 85 if tier == 'quick' else 250
  rng = random.Random(104729 * int(seed) + 20)
  n = 260 if tier == 'quick' else 5200
  out = []
  for i in range(n):
    k = rng.choice([2, 2, 3])
    ifaces = [_gen_iface(rng, j) for j in range(k)]
    if rng.random() < 0.5:
      ifaces[1]['cname'] = ifaces[0]['cname']     # same class name, same module, different class object
    uris = [_gen_uri(rng) for _ in range(rng.randint(8, 12))]
    out.append({'ifaces': ifaces, 'uris': uris, 'via_builder': rng.random() < 0.5})
    # relatives of a zk:// URI of the case, parsed later in the same process: the same ensemble and path with another
    # (or no, or a differently spelled) endpoint name; the same ensemble with a path that differs only in case
    zks = [u for u in uris if u.startswith('zk://')]
    rr = random.Random(rng.randint(0, 2 ** 30))
    for _ in range(rr.choice([0, 1, 1, 2])):
      if not zks:
        break
      u = rr.choice(zks)
      body, _sep, frag = u.partition('#')
      r = rr.random()
      if r < 0.6:
        other = [e for e in _EPS if e != frag] + ([frag.swapcase()] if frag and frag.swapcase() != frag else [])
        f2 = rr.choice(other)
        rel = body + ('#' + f2 if f2 else '')
      else:
        head, slash, path = body[5:].partition('/')
        rel = 'zk://' + head + slash + path.swapcase() + ('#' + frag if frag else '')
      if rel != u:
        uris.insert(rr.randint(uris.index(u) + 1, len(uris)), rel)
  rng3 = random.Random(15485863 * int(seed) + 77)
  for c in out:
    c['requery_seed'] = rng3.randint(0, 2 ** 30)
  out.extend(_gen_families(rng3, 14 if tier == 'quick' else 220))
  rng2 = random.Random(7919 * int(seed) + 2020)
  for i in range(420 if tier == 'quick' else 6000):
    out.append(_gen_e2e(rng2, i))
  return out


# =================================================================== driver
def cps(s):
  return [ord(c) for c in s]


ORIG = object()        # what an interface's own (unproxied) method body returns


def _class_source(spec):
  """Real class statements (so name mangling etc. is as in user code)."""
  lines = []
  for k, c in enumerate(spec['classes']):
    name = spec['cname'] if k == len(spec['classes']) - 1 else 'Base%d' % k
    bases = ', '.join('Base%d' % b for b in c['bases']) or 'object'
    lines.append('class %s(%s):' % (name, bases))
    body = 0
    for m in c['methods']:
      if m['kind'] == 'def':
        lines.append('  def %s(%s):' % (m['n'], _SIGS[m['sig']][0]))
        if m['n'] == '__init__':
          lines.append('    pass')
        elif m['n'] == '__repr__':
          lines.append('    return "<iface>"')
        else:
          lines.append('    return ORIG')
      elif m['kind'] == 'lambda':
        lines.append('  %s = lambda %s: ORIG' % (m['n'], _SIGS[m['sig']][0]))
      elif m['kind'] == 'alias':
        lines.append('  %s = %s' % (m['n'], m['of']))
      body += 1
    if not body:
      lines.append('  pass')
    lines.append('')
  return '\n'.join(lines)


class _Pool(object):
  """Argument / result objects; tokens are indices."""

  def __init__(self, extra=()):
    class Obj(object):
      pass
    self.Obj = Obj
    self.objs = [None, 0, 1, -7, 2 ** 40, 3.5, '', 'text', u'caf\u00e9', b'bytes', (1, 2), (), [1, [2]], {'k': 'v'},
                 {}, Obj(), Obj(), True, False, frozenset([1]), ValueError('boom'), KeyError('k'),
                 RuntimeError('x'), Exception(), Obj]
    self.objs.extend(extra)

  def add(self, o):
    self.objs.append(o)
    return len(self.objs) - 1

  def tok(self, o):
    for i, p in enumerate(self.objs):
      if p is o:
        return i
    for i, p in enumerate(self.objs):
      try:
        if type(p) is type(o) and p == o:
          return i
      except Exception:
        pass
    return -1

  def values(self):
    return [i for i, o in enumerate(self.objs) if not isinstance(o, BaseException)]

  def errors(self):
    return [i for i, o in enumerate(self.objs) if isinstance(o, BaseException)]


def _gen_args(rng, pool, sig):
  """Positional + keyword arguments compatible with the signature."""
  params = _SIGS[sig][1]
  named = [p for p in params if p not in ('*', '**')]
  args, kw = [], {}
  vals = pool.values() + pool.errors()
  npos = rng.randint(0, len(named))
  for i, p in enumerate(named):
    if i < npos:
      args.append(rng.choice(vals))
    else:
      kw[p] = rng.choice(vals)
  if '*' in params and npos == len(named):
    for _ in range(rng.choice([0, 1, 3])):
      args.append(rng.choice(vals))
  if '**' in params:
    for k in rng.sample(_KWNAMES, rng.choice([0, 1, 2, 4])):
      if k not in named:
        kw[k] = rng.choice(vals)
  return args, kw


def _kwlist(pool, kw):
  return [{'k': cps(k), 'v': pool.tok(v)} for k, v in sorted(kw.items())]


def _function_names(cls):
  import inspect
  out = []
  for n in dir(cls):
    try:
      v = inspect.getattr_static(cls, n)
    except AttributeError:
      continue
    if inspect.isfunction(v):
      out.append(n)
  return out


def _sig_of(spec, attr, mro=None):
  """signature index of the (most derived) definition of attr; -1 if unknown.  mro: indices of the classes
  the interface is made of, most derived first (default: all classes, the last one being the interface)."""
  order = list(reversed(range(len(spec['classes'])))) if mro is None else mro
  for k in order:
    for m in spec['classes'][k]['methods']:
      if m['n'] == attr:
        return m['sig']
  # name-mangled private: _Cls__x
  for k in sorted(order):
    for m in spec['classes'][k]['methods']:
      n = m['n']
      if n.startswith('__') and not n.endswith('__') and attr.endswith(n) and attr.startswith('_'):
        return m['sig']
  return -1


def _class_name(spec, k):
  return spec['cname'] if k == len(spec['classes']) - 1 else 'Base%d' % k


def _run_iface(loop, spec, iid, ev, ns=None, k=None, salt=0):
  """A client for one interface: class k of the hierarchy (default: the last one), the class statements
  executed here or, for several related interfaces of one hierarchy, by the caller (ns)."""
  import gevent
  from scales.asynchronous import AsyncResult
  from scales.core import ClientProxyBuilder, Scales
  from scales.message import MethodReturnMessage
  from scales.sink import ClientMessageSink, SinkProvider
  from scales.constants import ChannelState

  driver = gevent.getcurrent()
  if ns is None:
    ns = {'ORIG': ORIG, '__name__': 'generated_iface_module'}
    exec(compile(_class_source(spec), '<iface %d>' % iid, 'exec'), ns)
  if k is None:
    k = len(spec['classes']) - 1
  I = ns[_class_name(spec, k)]
  by_name = dict((_class_name(spec, j), j) for j in range(len(spec['classes'])))
  mro = [by_name[c.__name__] for c in I.__mro__ if c.__name__ in by_name and ns.get(c.__name__) is c]
  names = _function_names(I)
  pool = _Pool()
  rng = random.Random(spec['callseed'] + 7919 * salt)
  calls = []         # recorded by the stub dispatcher / the recording sink
  state = {'pre': None}

  # ---------------------------------------------------------------- level "stub"
  class StubDispatcher(object):
    def Open(self):
      return AsyncResult.Complete()

    def Close(self):
      pass

    def DispatchMethodCall(self, method, args, kwargs, *more, **kwmore):
      ar = AsyncResult()
      calls.append({'m': method, 'args': args, 'kwargs': kwargs, 'ar': ar, 'more': (more, kwmore)})
      if state['pre'] is not None:       # the call completes before the dispatcher returns
        finish(calls[-1], state['pre'])
      return ar

  # ---------------------------------------------------------------- level "real"
  class RecSink(ClientMessageSink):
    def __init__(self, next_provider, sink_properties, global_properties):
      super(RecSink, self).__init__()
      self.open_ar = AsyncResult()
      if spec['open'] == 'done':
        self.open_ar.set(True)

    def Open(self):
      return self.open_ar

    def Close(self):
      pass

    @property
    def state(self):
      return ChannelState.Open

    def AsyncProcessRequest(self, sink_stack, msg, stream, headers):
      calls.append({'m': msg.method, 'args': msg.args, 'kwargs': msg.kwargs, 'stack': sink_stack})
      if state['pre'] is not None:       # the reply arrives synchronously
        finish(calls[-1], state['pre'])

    def AsyncProcessResponse(self, sink_stack, context, stream, msg):
      pass

  if spec['level'] == 'stub':
    proxy_cls = ClientProxyBuilder.CreateServiceClient(I)
    if spec['cached']:
      again = ClientProxyBuilder.CreateServiceClient(I)
      cls_same = 1 if again is proxy_cls else 0
      proxy_cls = again
    else:
      cls_same = -1
    proxy = proxy_cls(StubDispatcher())
  else:
    RecSink.Builder = SinkProvider(RecSink)
    if spec['cached']:
      ClientProxyBuilder.CreateServiceClient(I)
    b = Scales.NewBuilder(I).WithSink(RecSink.Builder()).SetTimeout(10).SetOpenTimeout(0)
    # (in a greenlet of its own: the builder may yield)
    r, bg = _outside(loop, b.Build, patient=True)
    if r[0] != 'ok':
      bg.kill(block=False)
      loop.settle()
      ev.append({'e': 'Client', 'i': iid, 'names': [cps(n) for n in names], 'built': 0})
      return {'names': names, 'inherited': len(mro) > 1}
    proxy = r[1]
    cls_same = 1 if type(proxy) is ClientProxyBuilder.CreateServiceClient(I) else 0
    loop.settle()

  def finish(rec, prog):
    """make the dispatcher side produce the programmed outcome (once)"""
    if rec.get('finished'):
      return
    rec['finished'] = True
    o = pool.objs[prog['tok']]
    if spec['level'] == 'stub':
      if prog['kind'] == 'value':
        rec['ar'].set(o)
      else:
        rec['ar'].set_exception(o)
    else:
      if prog['kind'] == 'value':
        reply = MethodReturnMessage(return_value=o)
      else:
        reply = MethodReturnMessage(error=o)
      if gevent.getcurrent() is driver:
        # delivered the way a transport's receive loop does: from a greenlet; what escapes dies there
        r, dg = _outside(loop, lambda: rec['stack'].AsyncProcessResponseMessage(reply))
        if not dg.dead:
          dg.kill(block=False)
      else:
        try:
          rec['stack'].AsyncProcessResponseMessage(reply)
        except Exception:
          pass

  def err_tok(ex):
    t = pool.tok(ex)
    if t < 0 and hasattr(ex, 'inner_exception'):
      t = pool.tok(ex.inner_exception)
    return t

  fwds = []
  sync_seen, async_seen = [], []
  attrs = []
  for n in names:
    if n in ('__init__', '__repr__', '__del__'):
      continue
    attrs.append((n, n))
    attrs.append((n + '_async', n))
  opened = spec['level'] == 'stub' or spec['open'] == 'done'
  for (attr, base) in attrs:
    if not hasattr(proxy, attr):
      fwds.append({'e': 'Fwd', 'i': iid, 'n': cps(attr), 'in': {'args': [], 'kw': []},
                   'rec': {'got': 0, 'm': [], 'args': [], 'kw': []}, 'prog': {'kind': 'value', 'tok': 0},
                   'res': {'kind': 'missing', 'tok': -1, 'same': -1, 'fkind': 'none'}})
      continue
    sig = _sig_of(spec, base, mro)
    if sig < 0:
      continue
    for _rep in range(2):
      a_tok, kw_tok = _gen_args(rng, pool, sig)
      args = [pool.objs[t] for t in a_tok]
      kwargs = dict((k, pool.objs[t]) for k, t in kw_tok.items())
      if rng.random() < 0.6:
        prog = {'kind': 'value', 'tok': rng.choice(pool.values())}
      else:
        prog = {'kind': 'raise', 'tok': rng.choice(pool.errors())}
      state['pre'] = prog if rng.random() < 0.3 else None
      del calls[:]
      box = {}

      def run():
        try:
          box['r'] = ('value', getattr(proxy, attr)(*args, **kwargs))
        except BaseException as ex:  # noqa
          box['r'] = ('raise', ex)
      g = gevent.spawn(run)
      loop.settle()
      if spec['level'] == 'real' and not opened:
        # the call was issued before the dispatcher's open completed (it is chained behind the open):
        # complete the open now
        _complete_open(proxy)
        opened = True
        loop.settle()
      rec = calls[0] if calls else None
      res = {'kind': 'none', 'tok': -1, 'same': -1, 'fkind': 'none'}
      if rec is not None:
        if 'r' in box:
          # returned without waiting: the async form (or a broken sync form)
          kind, val = box['r']
          if kind == 'value' and hasattr(val, 'rawlink') and hasattr(val, 'get'):
            same = -1
            if spec['level'] == 'stub':
              same = 1 if val is rec['ar'] else 0
            pending = not val.ready()
            finish(rec, prog)
            loop.settle()
            if val.ready():
              if val.successful():
                fk, ft = 'value', pool.tok(val.value)
              else:
                fk, ft = 'raise', err_tok(val.exception)
            else:
              fk, ft = 'never', -1
            res = {'kind': 'pending' if pending else 'completed', 'tok': ft, 'same': same, 'fkind': fk}
          else:
            res = {'kind': kind, 'tok': pool.tok(val) if kind == 'value' else err_tok(val), 'same': -1, 'fkind': 'early'}
            finish(rec, prog)
            loop.settle()
        else:
          finish(rec, prog)
          loop.settle()
          if 'r' in box:
            kind, val = box['r']
            res = {'kind': kind, 'tok': pool.tok(val) if kind == 'value' else err_tok(val), 'same': -1, 'fkind': 'none'}
          else:
            res = {'kind': 'blocked', 'tok': -1, 'same': -1, 'fkind': 'none'}
            g.kill(block=False)
            loop.settle()
        frec = {'got': 1, 'm': cps(rec['m']) if isinstance(rec['m'], str) else [], 'args': [pool.tok(x) for x in rec['args']]
                if isinstance(rec['args'], (tuple, list)) else [-1],
                'kw': _kwlist(pool, rec['kwargs']) if isinstance(rec['kwargs'], dict) else [{'k': [], 'v': -1}]}
      else:
        frec = {'got': 0, 'm': [], 'args': [], 'kw': []}
        if 'r' in box:
          kind, val = box['r']
          res = {'kind': 'orig' if (kind == 'value' and val is ORIG) else kind, 'tok': -1, 'same': -1, 'fkind': 'none'}
        else:
          g.kill(block=False)
          loop.settle()
      if frec['got'] == 1:
        if res['kind'] in ('pending', 'completed'):
          async_seen.append(attr)
        else:
          sync_seen.append(attr)
      fwds.append({'e': 'Fwd', 'i': iid, 'n': cps(attr), 'in': {'args': a_tok, 'kw': _kwlist(pool, kwargs)},
                   'rec': frec, 'prog': prog, 'res': res})
  if spec['level'] == 'real' and not opened:
    _complete_open(proxy)
    loop.settle()
  ev.append({'e': 'Iface', 'i': iid, 'names': [cps(n) for n in names],
             'sync': [cps(n) for n in sorted(set(sync_seen))], 'async': [cps(n) for n in sorted(set(async_seen))],
             'level': spec['level'], 'cls_same': cls_same,
             # diagnostic only (witness classification): names whose underlying function is named differently
             'aliases': [{'n': cps(n), 'fn': cps(getattr(getattr(I, n), '__name__', ''))} for n in names
                         if getattr(getattr(I, n), '__name__', n) != n]})
  ev.extend(fwds)
  r, cg = _outside(loop, proxy.DispatcherClose)
  if not cg.dead:
    cg.kill(block=False)
    loop.settle()
  return {'names': names, 'inherited': len(mro) > 1}


def _complete_open(proxy):
  """level "real" with a pending open: find the recording sink below the dispatcher and complete its open."""
  s = proxy._dispatcher
  for _ in range(8):
    if hasattr(s, 'open_ar'):
      if not s.open_ar.ready():
        s.open_ar.set(True)
      return
    s = s.next_sink


def _observe_provider(u, prov, ev, q):
  """One query of a parsed provider -> one Uri event (judged by the same clause every time: the provider a
  URI yields is a value)."""
  from scales.loadbalancer.serverset import StaticServerSetProvider, ZooKeeperServerSetProvider
  res = {'kind': 'other', 'eps': [], 'hosts': [], 'hostsSeen': 0, 'path': [], 'pathSeen': 0, 'hasEp': -1, 'ep': []}
  if isinstance(prov, StaticServerSetProvider):
    res['kind'] = 'static'
    try:
      res['eps'] = _endpoints(prov.GetServers())
    except Exception as ex:
      res['kind'] = 'failed'
      res['exc'] = type(ex).__name__
  elif isinstance(prov, ZooKeeperServerSetProvider):
    res['kind'] = 'zk'
    name = prov.endpoint_name
    res['hasEp'] = 0 if name is None else 1
    res['ep'] = cps(name) if name is not None else []
    try:
      res['path'] = cps(prov._zk_path)
      res['pathSeen'] = 1
    except Exception:
      pass
    try:
      res['hosts'] = [{'h': cps(str(h)), 'p': int(p)} for (h, p) in prov._zk_client.hosts]
      res['hostsSeen'] = 1
    except Exception:
      pass
  ev.append({'e': 'Uri', 'uri': cps(u), 'res': res, 'q': q})


def _endpoints(servers):
  eps = []
  for s in servers:          # (read only: the list is never modified here)
    ep = getattr(s, 'service_endpoint', s)
    eps.append({'h': cps(str(ep.host)), 'p': int(ep.port)})
  return eps


def _parse_uri(u, via_builder, ev):
  """-> the provider, or None if the URI was rejected (Uri event recorded)"""
  from scales.core import ScalesUriParser, Scales
  try:
    if via_builder:
      class _I(object):
        def m(self):
          pass
      prov = Scales.NewBuilder(_I).SetUri(u).server_set_provider
    else:
      prov = ScalesUriParser().Parse(u)
  except Exception as ex:
    res = {'kind': 'rejected', 'eps': [], 'hosts': [], 'hostsSeen': 0, 'path': [], 'pathSeen': 0, 'hasEp': -1, 'ep': [],
           'exc': type(ex).__name__}
    ev.append({'e': 'Uri', 'uri': cps(u), 'res': res, 'q': 0})
    return None
  return prov


def _run_uris(loop, script, ev):
  """Every URI is parsed and its provider queried; then, interleaved with the other parses' providers, every
  provider is queried one or two more times; then (builder level) one SetUri followed by two Build()s: each
  client's load balancer (a stub in that role) asks the provider for its servers."""
  rq = random.Random(script.get('requery_seed', 0))
  provs = []
  for u in script['uris']:
    prov = _parse_uri(u, script.get('via_builder'), ev)
    if prov is not None:
      _observe_provider(u, prov, ev, 1)
      provs.append([u, prov, 1])
      # now and then ask again right away, before anything else is parsed
      if rq.random() < 0.25:
        provs[-1][2] += 1
        _observe_provider(u, prov, ev, provs[-1][2])
  again = [p for p in provs for _ in range(rq.choice([1, 1, 2]))]
  rq.shuffle(again)
  for p in again:
    p[2] += 1
    _observe_provider(p[0], p[1], ev, p[2])
  tcp = [u for u in script['uris'] if u.startswith('tcp://')]
  if script.get('via_builder') and tcp:
    for u in rq.sample(tcp, min(2, len(tcp))):
      _two_builds(loop, u, ev)


def _two_builds(loop, u, ev):
  from scales.asynchronous import AsyncResult
  from scales.constants import ChannelState, SinkRole
  from scales.core import Scales
  from scales.sink import ClientMessageSink, SinkProvider

  seen = []

  class LbStub(ClientMessageSink):
    """stands where a load balancer stands: on Open() it initializes the server set provider it was given
    and asks it for the servers (it does not touch the list)"""
    def __init__(self, next_provider, sink_properties, global_properties):
      super(LbStub, self).__init__()
      self._provider = sink_properties.server_set_provider

    def Open(self):
      try:
        self._provider.Initialize(lambda i: None, lambda i: None)
        seen.append(('static', _endpoints(self._provider.GetServers())))
      except Exception as ex:
        seen.append(('failed', []))
      return AsyncResult.Complete()

    def Close(self):
      pass

    @property
    def state(self):
      return ChannelState.Open

    def AsyncProcessRequest(self, sink_stack, msg, stream, headers):
      pass

    def AsyncProcessResponse(self, sink_stack, context, stream, msg):
      pass

  class _I(object):
    def m(self):
      pass
  try:
    b = Scales.NewBuilder(_I).SetUri(u).WithSink(SinkProvider(LbStub, SinkRole.LoadBalancer, server_set_provider=None)())
    b.SetOpenTimeout(0)
  except Exception:
    return                 # (a rejected URI is judged where it is parsed)
  for n in (1, 2):
    before = len(seen)
    r, g = _outside(loop, b.Build, patient=True)
    if not g.dead:
      g.kill(block=False)
      loop.settle()
    kind, eps = seen[before] if len(seen) > before else ('failed', [])
    ev.append({'e': 'Uri', 'uri': cps(u), 'q': 100 + n,
               'res': {'kind': kind, 'eps': eps, 'hosts': [], 'hostsSeen': 0, 'path': [], 'pathSeen': 0, 'hasEp': -1, 'ep': []}})
    if r[0] == 'ok':
      _outside(loop, r[1].DispatcherClose)


# ------------------------------------------------------------------- end-to-end driver
# texts of errors / string values: format-hostile on purpose
_TEXTS = ['boom', 'volume is 100% full', '%s', '50%d', 'GET /files/a%20b.txt returned 404', '{}', '{0} {name}', '%%',
          '%(key)s', '%', "LIKE 'x%'", 'back\\slash \\n \\', 'tab\there\nnew line', u'café ☃ \U0001f600',
          'quote \' " `', '', ' ', 'x' * 5000, '% ' * 400, '\x00\x7f', '100%']


class _CodeError(Exception):
  """an error with several args"""
  def __init__(self, code, text):
    Exception.__init__(self, code, text)
    self.code = code


class _StrError(Exception):
  """an error with a __str__ of its own"""
  def __init__(self, text):
    Exception.__init__(self)
    self.text = text

  def __str__(self):
    return self.text


class _SubError(ValueError):
  pass


def _raise_plain(ex):
  raise ex


def _raise_formatted(cls, text):
  # the statement that produces the error contains a per cent sign (as scales/kafka/sink.py's
  # NoBrokerForTopicException("No broker for topic %s" % topic) does); it ends up in the captured stack
  raise cls('request failed: %s' % text)


def _new_error(rr):
  text = rr.choice(_TEXTS)
  k = rr.randrange(8)
  if k == 0:
    return Exception(text)
  if k == 1:
    return _SubError(text)
  if k == 2:
    return IOError(rr.choice([2, 5, 28]), text)
  if k == 3:
    return KeyError(text)
  if k == 4:
    return _CodeError(rr.choice([404, 500]), text)
  if k == 5:
    return _StrError(text)
  if k == 6:
    return RuntimeError(text, text)
  return LookupError()


def _error_reply(rr, MethodReturnMessage):
  """An error answer built the way sinks build them: MethodReturnMessage(error=ex), either for an error
  object at hand or inside `except Exception as ex` (the error then carries a traceback and the captured
  stack is the raise site's).  -> (message, error object)"""
  style = rr.choice(['plain', 'plain', 'caught', 'caught', 'caughtfmt'])
  if style == 'plain':
    ex = _new_error(rr)
    return MethodReturnMessage(error=ex), ex
  try:
    if style == 'caught':
      _raise_plain(_new_error(rr))
    else:
      _raise_formatted(rr.choice([_SubError, KeyError, _StrError, Exception]), rr.choice(_TEXTS))
  except Exception as ex:
    return MethodReturnMessage(error=ex), ex


def _new_value(rr, seq, Obj):
  r = rr.random()
  if r < 0.22:
    return rr.choice([None, None, 0, '', False, (), {}, 0.0, b'', []])
  if r < 0.55:
    t = rr.choice(_TEXTS)
    return t if rr.random() < 0.5 else t + ' #' + str(seq)
  if r < 0.65:
    return rr.choice([lambda: list(range(20000)), lambda: 'y' * 100000 + str(seq),
                      lambda: dict(('k' + str(i), [i]) for i in range(3000)), lambda: b'%s' * 1000])()
  return rr.choice([lambda: Obj(), lambda: (seq, 'v'), lambda: 300000 + seq, lambda: seq + 0.5, lambda: [seq, [2]],
                    lambda: {'%': seq}, lambda: True, lambda: frozenset([seq])])()


def _outside(loop, fn, patient=False):
  """Run a piece of the code under test that may legitimately yield or wait (Build(), DispatcherOpen(), a proxy
  method, the delivery of an answer, Close()) in a greenlet of its own and step the loop, one quantum at a time,
  until it has returned.  -> (('ok', value) | ('raise', exception) | ('blocked', None), greenlet).
  'blocked' = it has not returned although nothing is left to run at this instant (patient: nor within one
  second of virtual time)."""
  import gevent
  box = {}

  def run():
    try:
      box['r'] = ('ok', fn())
    except gevent.GreenletExit:
      raise
    except BaseException as ex:  # noqa
      box['r'] = ('raise', ex)
  g = gevent.spawn(run)
  for _ in range(100000):
    if 'r' in box:
      break
    if loop.step(1) == 'idle' and 'r' not in box:
      break
  if 'r' not in box and patient:
    loop.run_for(1.0)
    loop.settle()
  return box.get('r', ('blocked', None)), g


def _run_e2e(loop, script, ev):
  """The generated client on the REAL MessageDispatcher (Scales builder path, or ClientProxyBuilder +
  MessageDispatcher directly) over a recording sink whose Open() result and answers the scenario controls.
  Everything of the code under test is called from greenlets of their own (never from the driver greenlet)."""
  import gevent
  from scales.asynchronous import AsyncResult
  from scales.constants import ChannelState, SinkProperties
  from scales.core import ClientProxyBuilder, Scales
  from scales.dispatch import MessageDispatcher
  from scales.message import MethodCallMessage, MethodReturnMessage
  from scales.sink import ClientMessageSink, SinkProvider

  spec = script['iface']
  ns = {'ORIG': ORIG, '__name__': 'generated_iface_module'}
  exec(compile(_class_source(spec), '<iface e2e>', 'exec'), ns)
  I = ns[spec['cname']]
  names = _function_names(I)

  pool = _Pool()
  st = {'seq': 0, 'opened': False, 'early': 0, 'calls': 0, 'reopens': 0, 'escaped': 0, 'thrown': 0}
  outstanding = []        # [seq, sink_stack] received, not answered
  sinks = []
  late = script['mode'] != 'after'
  stub_open = script.get('stub_open', 'same')

  class RecordingSink(ClientMessageSink):
    def __init__(self, next_provider, sink_properties, global_properties):
      super(RecordingSink, self).__init__()
      self.open_ar = AsyncResult()
      if not late:
        self.open_ar.set(True)       # open completes before the client is handed out
      sinks.append(self)

    def Open(self):
      # a repeated Open() behaves like the real sink stacks': the same result (load balancers, transport
      # sinks), or - variant - a fresh, completed one once the sink is open (singleton pool)
      if stub_open == 'fresh_done' and self.open_ar.ready():
        ar = AsyncResult()
        ar.set(True)
        return ar
      return self.open_ar

    def Close(self):
      pass

    @property
    def state(self):
      return ChannelState.Open

    def AsyncProcessRequest(self, sink_stack, msg, stream, headers):
      if not isinstance(msg, MethodCallMessage):
        return
      st['seq'] += 1
      m, a, k = getattr(msg, 'method', None), getattr(msg, 'args', None), getattr(msg, 'kwargs', None)
      ev.append({'e': 'SinkRecv', 'seq': st['seq'], 'rec': {
        'm': cps(m) if isinstance(m, str) else [-1],
        'args': [pool.tok(x) for x in a] if isinstance(a, (tuple, list)) else [-1],
        'kw': _kwlist(pool, k) if isinstance(k, dict) else [{'k': [], 'v': -1}]}})
      plan = script.get('sink_plan') or []
      how = plan[st['seq'] - 1] if st['seq'] <= len(plan) else {'how': 'later'}
      if how['how'] == 'later':
        outstanding.append([st['seq'], sink_stack])
      elif how['how'] == 'now':
        # the sink answers at once, inside AsyncProcessRequest (a serializer error, a balancer without members,
        # a cached value ...)
        reply, tok = make_reply(how['kind'], how['pick'], st['seq'])
        ev.append({'e': 'Reply', 'seq': st['seq'], 'kind': how['kind'], 'tok': tok})
        try:
          sink_stack.AsyncProcessResponseMessage(reply)
        except Exception:
          st['escaped'] += 1
      else:
        # the sink raises inside AsyncProcessRequest: the message is never answered
        st['thrown'] += 1
        raise RuntimeError('sink failed while processing request ' + str(st['seq']))

    def AsyncProcessResponse(self, sink_stack, context, stream, msg):
      pass

  def make_reply(kind, pick, seq):
    rr = random.Random(pick)
    if kind == 'value':
      obj = _new_value(rr, seq, pool.Obj)
      reply = MethodReturnMessage(return_value=obj)
    else:
      reply, obj = _error_reply(rr, MethodReturnMessage)
    pool.add(obj)
    return reply, pool.tok(obj)

  provider = SinkProvider(RecordingSink)()

  def build():
    if script['via'] == 'builder':
      b = Scales.NewBuilder(I).WithSink(provider).SetTimeout(3600)
      b.SetOpenTimeout(0 if late or script['open_wait'] == 0 else None)
      return b.Build()
    dispatcher = MessageDispatcher(I, provider, 3600, {SinkProperties.Label: 'e2e', SinkProperties.ServiceInterface: I})
    proxy = ClientProxyBuilder.CreateServiceClient(I)(dispatcher)
    proxy.DispatcherOpen()
    return proxy
  # Build() may wait for the open result (in its own greenlet, the loop stepped until it has returned)
  r, g = _outside(loop, build, patient=True)
  greenlets = [g]
  st['opened'] = not late
  ev.append({'e': 'Client', 'i': 1, 'names': [cps(n) for n in names], 'built': 1 if r[0] == 'ok' else 0})
  info = {'names': names, 'inherited': len(spec['classes']) > 1, 'early': 0, 'calls': 0, 'reopens': 0, 'escaped': 0}
  if r[0] != 'ok':
    # no client: Build() raised, or never returned (the sink's open result is pending only if the builder
    # was told not to wait)
    g.kill(block=False)
    loop.settle()
    return info
  proxy = r[1]
  sink = sinks[0]

  # attributes the code proxies in both forms (a public method that is missing is the business of the
  # Iface / Fwd events)
  bases = [n for n in names if not n.startswith('__') and not n.endswith('__') and _sig_of(spec, n) >= 0
           and hasattr(proxy, n) and hasattr(proxy, n + '_async')]
  used_noarg = set()

  def err_tok(ex):
    t = pool.tok(ex)
    if t < 0 and hasattr(ex, 'inner_exception'):
      t = pool.tok(ex.inner_exception)
    return t

  def make_args(cid, base, rng):
    """arguments compatible with the signature, one of them a marker unique to this call"""
    sig = _sig_of(spec, base)
    params = _SIGS[sig][1]
    a_tok, kw_tok = _gen_args(rng, pool, sig)
    marker = pool.add([pool.Obj(), 100000 + cid, 'call-' + str(cid)][cid % 3])
    slots = [('a', i) for i in range(len(a_tok))] + [('k', k) for k in sorted(kw_tok)]
    if slots:
      kind, where = rng.choice(slots)
      if kind == 'a':
        a_tok[where] = marker
      else:
        kw_tok[where] = marker
    elif '*' in params:
      a_tok.append(marker)
    elif '**' in params:
      kw_tok[rng.choice(_KWNAMES)] = marker
    else:
      if base in used_noarg:
        return None
      used_noarg.add(base)
    return a_tok, kw_tok

  def do_call(op):
    if not bases:
      return
    rng = random.Random(op['aseed'])
    cid = st['calls'] + 1
    made = None
    for probe in range(len(bases)):
      base = bases[(op['pick'] + probe) % len(bases)]
      made = make_args(cid, base, rng)
      if made is not None:
        break
    if made is None:
      return
    st['calls'] = cid
    a_tok, kw_tok = made
    args = [pool.objs[t] for t in a_tok]
    kwargs = dict((k, pool.objs[t]) for k, t in kw_tok.items())
    attr = base if op['form'] == 'sync' else base + '_async'
    # tokens are taken from the objects on both sides (caller and sink) the same way: the pool grows (markers,
    # answer objects) and an interned object such as () may sit in it more than once
    call_ev = {'e': 'Call', 'i': 1, 'cid': cid, 'n': cps(attr),
               'in': {'args': [pool.tok(x) for x in args], 'kw': _kwlist(pool, kwargs)}}
    if not st['opened']:
      st['early'] += 1
    if op['form'] == 'sync':
      # the blocking form: from a greenlet of its own, started when the loop gets to it
      def run():
        ev.append(call_ev)
        try:
          v = getattr(proxy, attr)(*args, **kwargs)
        except gevent.GreenletExit:
          return
        except BaseException as ex:  # noqa
          ev.append({'e': 'Result', 'cid': cid, 'kind': 'raise', 'tok': err_tok(ex)})
          return
        ev.append({'e': 'Result', 'cid': cid, 'kind': 'value', 'tok': pool.tok(v)})
      greenlets.append(gevent.spawn(run))
      return

    # the _async form: the loop is stepped until it has handed back its result object
    def invoke():
      ev.append(call_ev)
      return getattr(proxy, attr)(*args, **kwargs)
    r, g = _outside(loop, invoke)
    greenlets.append(g)
    if r[0] != 'ok':
      # it raised, or it is still inside the call although nothing is left to run: not a pending result
      ev.append({'e': 'Ret', 'cid': cid, 'kind': 'raised' if r[0] == 'raise' else 'blocked'})
      return
    val = r[1]
    if not (hasattr(val, 'rawlink') and hasattr(val, 'ready') and hasattr(val, 'get')):
      ev.append({'e': 'Ret', 'cid': cid, 'kind': 'plain'})
      return
    ev.append({'e': 'Ret', 'cid': cid, 'kind': 'completed' if val.ready() else 'pending'})

    def yielded(ar):
      if ar.successful():
        ev.append({'e': 'Result', 'cid': cid, 'kind': 'value', 'tok': pool.tok(ar.value)})
      else:
        ev.append({'e': 'Result', 'cid': cid, 'kind': 'raise', 'tok': err_tok(ar.exception)})
    val.rawlink(yielded)

  def do_reply(op):
    if not outstanding:
      return
    seq, stack = outstanding.pop(op['pick'] % len(outstanding))
    reply, tok = make_reply(op['kind'], op['pick'], seq)
    ev.append({'e': 'Reply', 'seq': seq, 'kind': op['kind'], 'tok': tok})
    # delivered the way a transport's receive loop does: from a greenlet; what escapes from the response
    # processing dies there (the call it was for is judged by the End clause)
    r, g = _outside(loop, lambda: stack.AsyncProcessResponseMessage(reply))
    greenlets.append(g)
    if r[0] != 'ok':
      st['escaped'] += 1

  def do_reopen(op):
    # "wait until the client is ready": DispatcherOpen() again, optionally waiting on what it returns
    st['reopens'] += 1
    ev.append({'e': 'Reopen', 'wait': op['wait']})

    def again():
      ar = proxy.DispatcherOpen()
      if op['wait'] and hasattr(ar, 'wait'):
        ar.wait()
    r, g = _outside(loop, again)
    greenlets.append(g)

  def do(op):
    k = op['op']
    if k == 'call':
      do_call(op)
    elif k == 'open':
      if not sink.open_ar.ready():
        sink.open_ar.set(True)
      st['opened'] = True
    elif k == 'reply':
      do_reply(op)
    elif k == 'reopen':
      do_reopen(op)
    elif k == 'step':
      loop.step(op['n'])
    elif k == 'settle':
      loop.settle()

  for op in script['steps']:
    do(op)
  do({'op': 'open'})
  loop.settle()
  for op in script['drain']:
    if op['op'] == 'reply' and len(outstanding) <= script['keep_unanswered']:
      continue
    do(op)
  # quiescent, also for an implementation that needs a moment (virtual time; far below the call timeout)
  loop.run_for(1.0)
  loop.settle()
  ev.append({'e': 'End', 'opened': 1})
  for g in greenlets:
    if not g.dead:
      g.kill(block=False)
  loop.settle()
  r, g = _outside(loop, proxy.DispatcherClose)
  if not g.dead:
    g.kill(block=False)
    loop.settle()
  info.update(early=st['early'], calls=st['calls'], reopens=st['reopens'], escaped=st['escaped'], thrown=st['thrown'])
  return info


def run_case(script):
  loop = common.boot()
  ev = []
  info = []
  if script.get('kind') == 'e2e':
    i = _run_e2e(loop, script, ev)
    return {'cfg': {'kind': 'e2e'}, 'ev': ev,
            'meta': {'inherited': i['inherited'], 'early': i['early'], 'calls': i['calls'], 'reopens': i['reopens'],
                     'escaped': i['escaped'], 'errors': [list(e[1:3]) for e in loop.errors][:3]}}
  if script.get('kind') == 'family':
    spec = script['iface']
    ns = {'ORIG': ORIG, '__name__': 'generated_iface_module'}
    exec(compile(_class_source(spec), '<family>', 'exec'), ns)
    for pos, k in enumerate(script['order']):
      sp = dict(spec, level=script['levels'][pos], cached=script['cached'][pos])
      info.append(_run_iface(loop, sp, pos + 1, ev, ns=ns, k=k, salt=pos))
    return {'cfg': {'kind': 'family'}, 'ev': ev,
            'meta': {'inherited': any(i['inherited'] for i in info), 'errors': [list(e[1:3]) for e in loop.errors][:3]}}
  for iid, spec in enumerate(script['ifaces']):
    info.append(_run_iface(loop, spec, iid + 1, ev))
  _run_uris(loop, script, ev)
  return {'cfg': {'kind': 'proxy'}, 'ev': ev,
          'meta': {'inherited': any(i['inherited'] for i in info), 'errors': [list(e[1:3]) for e in loop.errors][:3]}}


def trace_for_tlc(t):
  return {'cfg': t['cfg'], 'ev': t['ev']}


def nontrivial(prop, t):
  if t['cfg'].get('kind') == 'e2e':
    # at least two calls outstanding at once (made, not yet answered)
    out, best = 0, 0
    for e in t['ev']:
      if e['e'] == 'Call':
        out += 1
        best = max(best, out)
      elif e['e'] == 'Reply':
        out -= 1
    return common.canon(t['ev']) if best >= 2 else None
  for e in t['ev']:
    if e['e'] == 'Uri' and (len(e['res']['eps']) > 1 or len(e['res']['hosts']) > 1):
      return common.canon(t['ev'])
    if e['e'] == 'Iface' and any(n and (n[0] == 95 or n[-1] == 95) for n in e['names']):
      return common.canon(t['ev'])
  if t.get('meta', {}).get('inherited'):
    return common.canon(t['ev'])
  return None


def witness(prop, t, consumed, clause):
  e = t['ev'][consumed] if consumed < len(t['ev']) else {}
  w = {'event': e.get('e')}
  if e.get('e') == 'Iface' and clause == 'C20.exposes':
    def txt(x):
      return ''.join(chr(c) for c in x)
    names = [txt(n) for n in e['names']]
    public = [n for n in names if n and not n.startswith('_') and not n.endswith('__')]
    sync, asy = set(txt(n) for n in e['sync']), set(txt(n) for n in e['async'])
    missing = [n for n in public if n not in sync or (n + '_async') not in asy]
    fn = dict((txt(a['n']), txt(a['fn'])) for a in e.get('aliases', []))
    nonuser = lambda f: f.startswith('__') or f.endswith('__')
    w['cause'] = ('alias-of-nonuser-function' if missing and all(n in fn and nonuser(fn[n]) for n in missing)
                  else 'other')
  if e.get('e') == 'Fwd':
    w['attr'] = ''.join(chr(c) for c in e['n'])
    w['res_kind'] = e['res']['kind']
  if e.get('e') == 'Uri':
    w['uri'] = ''.join(chr(c) for c in e['uri'])
    w['res_kind'] = e['res']['kind']
  if t['cfg'].get('kind') == 'e2e':
    w['mode'] = 'e2e'
    w['early_calls'] = t.get('meta', {}).get('early')
  return w


def extra_coverage(prop, tier, traces):
  ni = sum(1 for t in traces for e in t['ev'] if e['e'] == 'Iface')
  nf = sum(1 for t in traces for e in t['ev'] if e['e'] == 'Fwd' and e['rec']['got'] == 1)
  nu = sum(1 for t in traces for e in t['ev'] if e['e'] == 'Uri')
  kinds = {}
  for t in traces:
    for e in t['ev']:
      if e['e'] == 'Uri':
        kinds[e['res']['kind']] = kinds.get(e['res']['kind'], 0) + 1
  e2e = [t for t in traces if t['cfg'].get('kind') == 'e2e']
  fam = [t for t in traces if t['cfg'].get('kind') == 'family']
  return {'families_orders': len(fam),
          'provider_queries': sum(1 for t in traces for e in t['ev'] if e['e'] == 'Uri' and e.get('q', 0) >= 1),
          'provider_repeat_queries': sum(1 for t in traces for e in t['ev'] if e['e'] == 'Uri' and 2 <= e.get('q', 0) < 100),
          'two_build_queries': sum(1 for t in traces for e in t['ev'] if e['e'] == 'Uri' and e.get('q', 0) >= 100),
          'interfaces': ni, 'forwarded_calls': nf, 'uris': nu, 'uri_kinds': kinds,
          'e2e_scenarios': len(e2e),
          'e2e_calls': sum(t.get('meta', {}).get('calls', 0) for t in e2e),
          'e2e_calls_before_open': sum(t.get('meta', {}).get('early', 0) for t in e2e),
          'e2e_scenarios_with_2plus_early_calls': sum(1 for t in e2e if t.get('meta', {}).get('early', 0) >= 2),
          'e2e_error_answers': sum(1 for t in e2e for e in t['ev'] if e['e'] == 'Reply' and e['kind'] == 'raise'),
          'e2e_answers_out_of_call_order': sum(1 for t in e2e if _out_of_order(t['ev'])),
          'e2e_answers_inside_AsyncProcessRequest': sum(1 for t in e2e for a, b in zip(t['ev'], t['ev'][1:])
                                                        if a['e'] == 'SinkRecv' and b['e'] == 'Reply' and b['seq'] == a['seq']),
          'zk_uris_with_upper_case_path_or_name': sum(1 for t in traces for e in t['ev'] if e['e'] == 'Uri' and e.get('q') == 1
                                                      and e['res']['kind'] == 'zk' and _has_upper(e['uri'])),
          'e2e_repeated_DispatcherOpen': sum(t.get('meta', {}).get('reopens', 0) for t in e2e),
          'e2e_scenarios_reopen_with_early_call_queued': sum(1 for t in e2e if _reopen_after_early(t['ev']))}


def _reopen_after_early(ev):
  seen_call = False
  for e in ev:
    if e['e'] == 'Call':
      seen_call = True
    elif e['e'] == 'SinkRecv':
      return False
    elif e['e'] == 'Reopen' and seen_call:
      return True
  return False


def _has_upper(uri):
  txt = ''.join(chr(c) for c in uri)
  tail = txt.split('://', 1)[-1]
  tail = tail[tail.find('/'):] if '/' in tail else (tail[tail.find('#'):] if '#' in tail else '')
  return any(c.isupper() for c in tail)


def _out_of_order(ev):
  seqs = [e['seq'] for e in ev if e['e'] == 'Reply']
  return seqs != sorted(seqs)
