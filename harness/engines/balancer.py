"""Engine `balancer` (C03, C04, C05): scales.loadbalancer.{heap,aperture,base}.

Specs: BalancerAbs (oracle), BalancerAbsTrace (batched validation), HeapBalancer (code-shaped:
heap array algorithms, downq, removal/drain) and LbBase (code-shaped: open sequence, init gate,
server-set callbacks).

The real HeapBalancerSink / ApertureBalancerSink is driven with
  * mock channel sinks below it (state Idle/Open/Busy/Closed set by the script, Open() results
    completed by the script, Close() calls counted - and, where the script says so, raising after
    the channel was closed (teardown error on a dead peer) -, requests held until the script
    completes them by reply / error / timeout (drain from the top of the sink stack) / connection
    fault, late arrivals after a drain; options scripted per channel / endpoint: Close() fails the
    requests still in flight SYNCHRONOUSLY (as the mux transport's _Shutdown does: the balancer is
    re-entered from inside Close()); Open() raises synchronously),
  * a mock server-set provider (initial list, a GetServers that can block so notifications land
    while the initial list is loading, serial delivery of join/leave notifications incl. duplicate
    joins, leaves of unknown members and re-joins; an exception raised by a callback is logged by
    the delivery worker, which carries on - as scales.loadbalancer.zookeeper.ServerSet does),
  * a scripted `random` in scales.loadbalancer.{base,heap,aperture} (values logged).
Direction A: TLC -simulate behaviours of HeapBalancer (plain heap, and Aperture = TRUE on the real
ApertureBalancerSink with the random.choice of every expansion forced) / LbBase (the Close() calls of
the model's BadClose nodes raising) stepped on the real object with a state projection compared after
every step (heap array, loads, down marks, downq chain, idle endpoints; _servers, heap endpoints,
init gate), and, for C03, TLC's shortest counterexample on the model of heap.py
as found (HeapBalancer_6u.cfg, Repaired = FALSE) replayed on the real class: it yields a
VIOLATION exactly when the tree under check still lacks fixes/C03-heap-fixup.diff.
Direction B: seeded random and systematically enumerated histories.  Every verdict is decided by
TLC on BalancerAbs clauses (env PROP selects the property, so one trace format serves three checks).
"""
import random

from harness import common, tlc

NAME = 'balancer'
PROPS = ['C03', 'C04', 'C05']
LEVEL = {'C03': 'model_checking', 'C04': 'model_checking', 'C05': 'model_checking'}
TRACE_MODULE = 'BalancerAbsTrace'
TRACE_CFG = 'BalancerAbsTrace.cfg'
TRACE_CHUNK = 400
ASSUMPTIONS = [
  'virtual-time gevent loop preserves gevent callback FIFO order and timer semantics (selftest)',
  'channels below the balancer are mocks: their state changes only when the script says so, when the '
  'script completes an Open(), or when the balancer calls Close()',
  'the server-set provider delivers notifications serially (one worker), as base.py assumes; its '
  'snapshot is its member set at some instant during GetServers and every later change is notified',
  'internal projections (node.load/index, _heap, _downq, _idle_endpoints) are read when present; '
  'C04.conserved and the heap half of C05.membership degrade to the observable clauses otherwise',
  'TLC exhaustive only within the stated constants (members, loads, nodes, notifications)',
  'the model-checked HeapBalancer configs model heap.py WITH fixes/C03-heap-fixup.diff (Repaired = TRUE); the '
  'variant as found (Repaired = FALSE) is kept as a counterexample generator (expect_violation)',
  'a Close() that raises has closed the channel first (state Closed, CloseSeen logged); the exception reaches '
  'whoever called into the balancer: the provider\'s delivery worker (logged, next notification delivered) or the '
  'completing caller (recorded as Raised)',
  'an Open() that raises synchronously leaves its channel Closed; it is scripted only for channels created after '
  'the balancer\'s own Open() (a raising initial Open() kills _OpenImpl: the balancer never opens - not a C03-C05 matter) '
  'and only in C05 histories (an expansion inside a dispatch then raises into the dispatching caller)',
  'an Open() still pending when its channel is closed fails: inside Close() (option close_fails_open, as the mux '
  'transport does) or when the script says so (op opendead); it never succeeds afterwards',
  'a flushing Close() completes the requests in flight on that channel (kind closed) after the channel is Closed and '
  'before Close() returns',
  'the aperture model (HeapBalancer with Aperture = TRUE) and the aperture family configure load-based resizing '
  'and jitter off; the seeded random histories also run with them on',
  'a livelock of the code under test is cut by a CPU-time watchdog (5 s of CPU) and an exception it raises into its '
  'caller is recorded; the history recorded so far is judged in both cases',
]
RULE = {
  'C03': 'seeded random histories of dispatch / completion (any order, scripted randint) / channel down-up / '
         'join / leave on the real heap and aperture balancers, the systematic family D^k Put(c,j) D^m for 6-7 '
         'members, the aperture family (aperture of 2-4 with idle endpoints: a member goes Closed / Busy under '
         'every load pattern of 0/1, the replacement is pulled in inside the dispatch that finds it at the heap '
         'root, its Open() completes at once / after the j-th next dispatch / from a spawned greenlet; a second '
         'member failing afterwards) plus seeded random histories of the same kind, and TLC-simulated '
         'behaviours of HeapBalancer (heap and aperture); joins of listed members delivered by the provider\'s own '
         'worker while GetServers is still loading, followed by uncompleted traffic and the member\'s leave '
         '(enumerated + random); channels whose Close() fails their in-flight requests synchronously with 2-3 members '
         'down and loaded at once and one of them leaving (enumerated over members x rotation x loads + random); '
         'outstanding requests are counted per MEMBER over the nodes in use; non-trivial = at least 3 dispatches with >= 2 '
         'members in use and at least one completion, channel flip or membership change before the last dispatch; '
         'distinct by canonical event list',
  'C04': 'same engine, histories weighted towards every completion kind (reply, error, timeout then late reply, '
         'fault, fail-fast), leaves of idle / loaded / down members and re-joins while the old node drains, and '
         'calls parked behind the balancer\'s Open() carrying a deadline whose timeout (driver = ClientTimeoutSink) '
         'fires at every loop position relative to the open completion (channels drop timed-out messages like the '
         'mux send loop; a request that completed before it was dispatched never counts as outstanding); '
         'non-trivial = at least one completion and one leave of a member that had been dispatched to, or a late '
         'arrival; distinct by canonical event list',
  'C05': 'join/leave histories (duplicates, unknown leaves, re-joins) interleaved with traffic and with the open '
         'sequence (notifications landing while GetServers blocks, early/late snapshot, provider failure and '
         'retry), leaves of idle / down / loaded members whose channel Close() raises (scripted per channel or '
         'per endpoint: 1st / 2nd Close) followed by re-joins, further leaves and dispatches - enumerated and '
         'seeded random -, expansions whose new channel\'s Open() raises synchronously followed by further '
         'expansions and the endpoint\'s leave, contractions (jitter timer / decayed load peak) with a dead node in '
         'the aperture followed by duplicate joins and the other members leaving (both enumerated + random), '
         'a member whose channel Open() is still pending leaves and the open then fails (late, or inside '
         'Close()) in every order relative to 1-2 other leaves, heap 2-5 members and aperture min_size 1-2 '
         '(enumerated + random), plus TLC-simulated behaviours of LbBase; non-trivial = at least 2 notifications of which one is '
         'a duplicate join, an unknown leave, a re-join or lands before loading completes; distinct by canonical '
         'event list',
}

STNAME = {1: 'Idle', 2: 'Open', 3: 'Busy', 4: 'Closed'}
WATCHDOG_CPU_S = 5.0       # CPU seconds (a case normally needs well under 0.2 s)
CASE_TIMEOUT = 900         # real-time backstop only: on a heavily loaded machine 5 CPU s can take minutes


# ====================================================================== models
def models(prop, tier):
  """The registered check models the code AS REPAIRED by fixes/C03-heap-fixup.diff (Repaired = TRUE);
  HeapBalancer_6u.cfg (Repaired = FALSE = heap.py as found) is kept as a documented counterexample
  generator: TLC must find the C03.openLeast counterexample on it."""
  quick = tier == 'quick'
  no_memb = ['AddSink', 'RemoveSink', 'JoinDup', 'LeaveUnknown', 'ChanFlip', 'LateArrive']
  m6 = dict(module='HeapBalancer', cfg='HeapBalancer_6.cfg', coverage=False, may_be_unused=no_memb,
            what='6 open members, dispatch + completion with every randint outcome, loads <= 2, exhaustive')
  m6u = dict(module='HeapBalancer', cfg='HeapBalancer_6u.cfg', expect_violation='NoViolation',
             what='counterexample generator: heap.py WITHOUT fixes/C03-heap-fixup.diff (only FixDown after '
                  'Swap(i,size)) violates C03.openLeast with 6 members (3 dispatches, 1 completion with randint 1, '
                  '4 dispatches)')
  m4f = dict(module='HeapBalancer', cfg='HeapBalancer_4f.cfg', coverage=quick,
             may_be_unused=['LateArrive', 'JoinDup', 'LeaveUnknown'],
             what='up to 4 node objects over 3 endpoints: channel down/up at any time, join / leave / re-join, '
                  'loads <= 1, exhaustive')
  m3d = dict(module='HeapBalancer', cfg='HeapBalancer_3d.cfg', coverage=True,
             what='2 endpoints, 3 node objects: removal of idle / loaded / down nodes, re-join while the old node '
                  'drains, timeout then late arrival, channel down/up, loads <= 2, exhaustive')
  m4m = dict(module='HeapBalancer', cfg='HeapBalancer_4m.cfg',
             what='3 endpoints, 4 node objects, loads <= 2: join / leave / re-join with traffic and late arrivals')
  m7 = dict(module='HeapBalancer', cfg='HeapBalancer_7.cfg', timeout=7200, heap='24g',
            what='7 open members, dispatch + completion, loads <= 2, exhaustive')
  m5u = dict(module='HeapBalancer', cfg='HeapBalancer_5u.cfg',
             what='heap.py as found with 5 members: no counterexample exists below 6 members (calibration)')
  m4d = dict(module='HeapBalancer', cfg='HeapBalancer_4d.cfg', timeout=7200, heap='24g',
             what='2 endpoints, 4 node objects, loads <= 1: removal / re-join / down-up / late arrival')
  gate = dict(module='LbBase', cfg='LbBase_gate.cfg', coverage=True,
              what='the open gate for requests: 2 calls parked behind __open_ar, their timeout (Observable.Set: value '
                   'at once, subscribers notified from a spawned greenlet) at every position relative to '
                   '__open_ar.set() and the deferred link callbacks; a call that completed while parked is never '
                   'dispatched')
  gate_s = dict(module='LbBase', cfg='LbBase_gateS.cfg', expect_violation='NoDeadDispatch',
                what='counterexample generator: the variant of the gate that learns about the timeout from a '
                     'subscriber flag instead of timeout_event.Get() dispatches a completed call (load +1 forever)')
  lb = dict(module='LbBase', cfg='LbBase_q.cfg' if quick else 'LbBase_t.cfg', coverage=True, timeout=7200,
            heap='24g', may_be_unused=['Park', 'Timeout', 'OpenComplete', 'RunDeferred'],
            what='open sequence (provider failure + retry, early/late snapshot), __init_done gate, serial '
                 'notifications: all histories of %d notifications over 3 symmetric endpoint names' % (5 if quick else 6))
  ap = dict(module='HeapBalancer', cfg='HeapBalancer_ap.cfg', coverage=False,   # TLC's coverage mode costs 30x on this model
           
            may_be_unused=['LateArrive', 'AddSink', 'RemoveSink', 'JoinDup', 'LeaveUnknown'],
            what='ApertureBalancerSink (resizing / jitter off), aperture of 2 + 1 idle endpoint, 3 node objects, loads <= 2: '
                 'channels go down / come back, the replacement is pulled into the heap inside __Get (open at once or '
                 'still opening), exhaustive')
  ap_s = dict(module='HeapBalancer', cfg='HeapBalancer_apS.cfg', expect_violation='NoViolation',
              what='counterexample generator: _AsyncProcessRequestImpl re-using the _size read before __Get as the bound '
                   'of the FixDown after the pick (StaleSize = TRUE) violates C03.openLeast (a member goes down, 2 dispatches)')
  ap4 = dict(module='HeapBalancer', cfg='HeapBalancer_ap4.cfg', timeout=7200, heap='24g',
             what='aperture of 2 + 2 idle endpoints, 4 node objects, loads <= 1, channel down / up, exhaustive')
  apm = dict(module='HeapBalancer', cfg='HeapBalancer_apm.cfg', timeout=7200, heap='24g',
             what='aperture of 2 over 3 endpoints, 4 node objects, loads <= 1: join / leave / re-join (replacement of a '
                  'departed member from the idle set), duplicate joins, unknown leaves, channel down / up, exhaustive')
  join_s = dict(module='LbBase', cfg='LbBase_joinS.cfg', expect_violation='NoDuplicateNodes',
                what='counterexample generator: a join callback that does not wait for __init_done (JoinWaits = FALSE): a join '
                     'delivered while GetServers is loading creates a node, the _servers reset forgets it and the listing '
                     'adds the member again: two heap nodes for one member')
  if prop == 'C03':
    return [m6, m6u, m4f, ap, ap_s, join_s] if quick else [m6, m6u, m5u, m4f, ap, ap_s, join_s, ap4, apm, m7]
  if prop == 'C04':
    return [m3d, m4m, gate, gate_s] if quick else [m3d, m4m, gate, gate_s, m4f, m4d]
  close_s = dict(module='LbBase', cfg='LbBase_closeS.cfg', expect_violation='QuietOK',
                 what='counterexample generator: __RemoveServer deleting the _servers entry AFTER the subclass hook '
                      '(PopFirst = FALSE): a leave whose channel Close() raises keeps the entry, the re-join is dropped as a '
                      'duplicate and a current member is not eligible (leave, join, worker run)')
  if prop == 'C05':
    return [lb, close_s, join_s, gate, m4m] if quick else [lb, close_s, join_s, gate, m4m, m4f]
  raise ValueError(prop)


# ====================================================================== the driver
def _drive(script):
  """Run one script against the real balancer.  Returns dict(cfg, ev, meta[, impl])."""
  loop = common.boot()
  import collections
  import logging
  import signal
  import gevent
  from gevent.event import Event
  from gevent.queue import Queue
  from harness.simgevent.vloop import EPOCH  # noqa
  from scales.asynchronous import AsyncResult
  from scales.constants import ChannelState, SinkProperties
  from scales.message import Deadline, Message, MethodReturnMessage
  from scales.observable import Observable
  from scales.message import TimeoutError as ScalesTimeout
  from scales.sink import ClientMessageSink, ClientMessageSinkStack
  import scales.loadbalancer.base as lb_base
  import scales.loadbalancer.heap as lb_heap
  import scales.loadbalancer.aperture as lb_ap
  from scales.loadbalancer.serverset import ServerSetProvider

  kind = script.get('kind', 'heap')
  s0 = sorted(script.get('s0', []))
  ev = []
  want_impl = bool(script.get('impl'))
  impl = []          # direction A: projection after every op

  Ep = collections.namedtuple('Ep', 'host port')
  Member = collections.namedtuple('Server', 'service_endpoint')

  def ep_of(e):
    return Ep('h', 9000 + e)

  def eid_of(ep):
    return ep.port - 9000

  # ---------------------------------------------------------------- logging capture
  logging.disable(logging.NOTSET)
  logging.getLogger().addHandler(logging.NullHandler())
  logging.getLogger().setLevel(logging.CRITICAL + 1)

  class Cap(logging.Handler):
    def __init__(self):
      logging.Handler.__init__(self)
      self.neg = 0

    def emit(self, rec):
      try:
        if 'below Zero' in rec.getMessage():
          self.neg += 1
      except Exception:
        pass
  cap = Cap()
  lg = logging.getLogger('scales.loadbalancer')
  lg.propagate = False
  lg.setLevel(logging.WARNING)
  lg.addHandler(cap)
  for nm in ('scales', 'scales.TimerQueue'):
    logging.getLogger(nm).addHandler(logging.NullHandler())

  # ---------------------------------------------------------------- scripted random
  class SRandom(object):
    def __init__(self, seed):
      self.rng = random.Random(seed)
      self.forced = []
      self.log = []
      self.shuffle_id = bool(script.get('shuffle_id', False))

    def randint(self, a, b):
      v = self.forced.pop(0) if self.forced else None
      if v is None or not (a <= v <= b):
        v = self.rng.randint(a, b)
      self.log.append(['randint', a, b, v])
      return v

    def choice(self, seq):
      s = list(seq)
      try:
        s.sort(key=lambda x: x.port)
      except Exception:
        pass
      v = self.forced.pop(0) if self.forced else None
      if v is None or not (0 <= v < len(s)):
        v = self.rng.randrange(len(s))
      self.log.append(['choice', len(s), v])
      return s[v]

    def shuffle(self, lst):
      if not self.shuffle_id:
        self.rng.shuffle(lst)
      self.log.append(['shuffle', len(lst)])

    def random(self):
      return self.rng.random()

  srand = SRandom(script.get('rseed', 0))
  lb_base.random = srand
  lb_heap.random = srand
  lb_ap.random = srand

  # ---------------------------------------------------------------- harness state
  class H(object):
    chans = []            # by cid - 1
    reqs = {}             # r -> dict
    ref_out = {}          # cid -> reference outstanding count
    dirty = False
    pre_u = {}            # r -> U snapshot taken just before the choice
    pre_base = {}         # r -> number of channels that existed before the choice
    pre_pos = {}          # r -> length of the event log just before the choice
    pol = script.get('pol', 'auto')
    nodeobjs = {}         # cid -> Node object (internal, optional)
    degraded = set()
    nreq = 0
    tick = 0
    hooked = False
    raised = 0
    s_eff = set()         # endpoints whose join has been processed (observable fallback for U)
    cur_chan = {}         # eid -> latest channel created
    cfail = {}            # cid -> set of k: the k-th Close() of that channel raises (after closing)
    cfail_ep = {}
    ep_closes = {}
    cflush = set(int(x) for x in script.get('cflush', []))   # channels whose Close() fails their pending requests synchronously
    cflush_all = bool(script.get('cflush_all'))
    close_fails_open = bool(script.get('close_fails_open'))
    ofail_ep = {}         # eid -> set of k: the k-th Open() over all channels of that endpoint raises synchronously
    ep_opens = {}
    cfail_all = bool(script.get('cfail_all'))
  for _cid, _k in script.get('cfail', []):
    H.cfail.setdefault(int(_cid), set()).add(int(_k))
  for _eid, _k in script.get('ofail_ep', []):
    H.ofail_ep.setdefault(int(_eid), set()).add(int(_k))
  for _eid, _k in script.get('cfail_ep', []):     # the k-th Close() over all channels of an endpoint raises
    H.cfail_ep.setdefault(int(_eid), set()).add(int(_k))

  def emit(e):
    ev.append(e)
    H.dirty = True

  bal = [None]

  def snapshot_u():
    b = bal[0]
    try:
      out = []
      for n in b._heap[1:]:
        ch = n.channel
        if isinstance(ch, Chan):
          out.append([ch.cid, ch._st, H.ref_out.get(ch.cid, 0)])
      return out
    except Exception:
      H.degraded.add('U')
      if kind == 'heap':
        out = []
        for e in sorted(H.s_eff):
          ch = H.cur_chan.get(e)
          if ch is not None:
            out.append([ch.cid, ch._st, H.ref_out.get(ch.cid, 0)])
        return out
      return None

  def projection():
    """[[cid, ld, rm, dn]] for every node object seen so far that is a member or still loaded."""
    b = bal[0]
    try:
      idle, pen = b.Idle, b.Penalty
      for n in b._heap[1:]:
        if isinstance(n.channel, Chan):
          H.nodeobjs[n.channel.cid] = n
      out = []
      for cid in sorted(H.nodeobjs):
        n = H.nodeobjs[cid]
        dn = 1 if n.load >= 0 else 0
        ld = n.load - idle - (pen if dn else 0)
        ld = max(-1000, min(1000000, ld))
        rm = 1 if n.index < 0 else 0
        out.append([cid, ld, rm, dn])
        if rm and H.ref_out.get(cid, 0) == 0 and ld == 0:
          del H.nodeobjs[cid]     # reported once after it drained, then forgotten
      return out
    except Exception:
      H.degraded.add('L')
      return None

  def eligible():
    b = bal[0]
    try:
      el = [eid_of(n.endpoint) for n in b._heap[1:]]
      if kind == 'aperture':
        el += [eid_of(x) for x in b._idle_endpoints]
      return sorted(el)
    except Exception:
      H.degraded.add('E')
      return None

  def impl_projection():
    b = bal[0]
    try:
      idle, pen = b.Idle, b.Penalty
      heap = []
      for i, n in enumerate(b._heap[1:]):
        dn = 1 if n.load >= 0 else 0
        heap.append([n.channel.cid, n.load - idle - (pen if dn else 0), dn, n.index])
      dq = []
      n = b._downq
      while n is not None and len(dq) < 64:
        dq.append(n.channel.cid)
        n = n.downq
      return {'heap': heap, 'downq': dq, 'size': b._size,
              'idle': sorted(eid_of(x) for x in getattr(b, '_idle_endpoints', ())),
              'heap_eps': sorted(eid_of(n.endpoint) for n in b._heap[1:]),
              'servers': sorted(eid_of(x) for x in b._servers),
              'init_done': bool(getattr(b, '_LoadBalancerSink__init_done').is_set())}
    except Exception:
      return None

  def end():
    if not H.dirty:
      return
    L = projection()
    ev.append({'e': 'End', 'hasL': 0 if L is None else 1, 'L': L or [], 'neg': cap.neg})
    H.dirty = False

  def on_quantum(_kind):
    H.tick += 1
    end()
  loop.on_quantum = on_quantum

  # ---------------------------------------------------------------- mock channel
  class Chan(ClientMessageSink):
    def __init__(self, cid, eid, pol):
      super(Chan, self).__init__()
      self.cid = cid
      self.eid = eid
      self.pol = pol
      self._st = ChannelState.Idle
      self.open_ar = None
      self.opens = 0
      self.closes = 0
      self.dead_ar = None   # open result still pending when the channel was closed
      self.tick = H.tick

    @property
    def state(self):
      return self._st

    def Open(self):
      self.opens += 1
      H.ep_opens[self.eid] = H.ep_opens.get(self.eid, 0) + 1
      if H.ep_opens[self.eid] in H.ofail_ep.get(self.eid, ()):
        # the layer below cannot even be set up: Open() raises synchronously into the balancer
        self._st = ChannelState.Closed
        emit({'e': 'OpenRaised', 'n': self.cid})
        raise OSError(24, 'Too many open files')
      if self.pol == 'sync':
        self._st = ChannelState.Open
        return AsyncResult.Complete()
      if self.open_ar is None:
        self.open_ar = AsyncResult()
        if self.pol == 'auto':
          gevent.spawn(self.finish_open, self.open_ar, True)
      return self.open_ar

    def finish_open(self, ar, ok):
      if self.open_ar is not ar or ar.ready():
        return
      emit({'e': 'OpenDone', 'n': self.cid, 'ok': 1 if ok else 0})
      if ok:
        self._st = ChannelState.Open
        ar.set(True)
      else:
        self._st = ChannelState.Closed
        ar.set_exception(Exception('open failed'))

    def Close(self):
      self.closes += 1
      self._st = ChannelState.Closed
      if self.open_ar is not None and not self.open_ar.ready():
        # an Open() is still pending: it fails - at once (as the mux transport's _Shutdown does, option
        # close_fails_open) or when the script says so (op opendead: the connect is refused late)
        if H.close_fails_open:
          emit({'e': 'OpenDone', 'n': self.cid, 'ok': 0})
          self.open_ar.set_exception(Exception('closed while opening'))
        else:
          self.dead_ar = self.open_ar
      self.open_ar = None
      H.ep_closes[self.eid] = H.ep_closes.get(self.eid, 0) + 1
      flush = []
      if H.cflush_all or self.cid in H.cflush:
        flush = [q for q in outstanding() if q['chan'] is self]
      if H.cfail_all or self.closes in H.cfail.get(self.cid, ()) or H.ep_closes[self.eid] in H.cfail_ep.get(self.eid, ()):
        # the channel is closed, but its teardown raises into the balancer (socket error on a dead peer)
        emit({'e': 'CloseSeen', 'n': self.cid, 'x': 1})
        raise OSError(107, 'Transport endpoint is not connected')
      emit({'e': 'CloseSeen', 'n': self.cid})
      # like the mux transport's _Shutdown: the requests still in flight are failed synchronously, inside
      # Close(); each failure unwinds through the balancer's frame (re-entering it) before Close() returns
      for q in flush:
        if q['state'] == 'out':
          complete(q, 'closed', None)

    def AsyncProcessRequest(self, sink_stack, msg, stream, headers):
      on_receive(self, sink_stack, msg)

    def AsyncProcessResponse(self, sink_stack, context, stream, msg):
      sink_stack.AsyncProcessResponse(stream, msg)

  class Factory(object):
    def CreateSink(self, props):
      eid = eid_of(props[SinkProperties.Endpoint])
      ch = Chan(len(H.chans) + 1, eid, H.pol)
      H.chans.append(ch)
      H.ref_out[ch.cid] = 0
      H.cur_chan[eid] = ch
      emit({'e': 'Create', 'n': ch.cid, 'ep': eid})
      return ch

  class Term(ClientMessageSink):
    def AsyncProcessRequest(self, *a):
      raise NotImplementedError()

    def AsyncProcessResponse(self, sink_stack, context, stream, msg):
      rq = H.reqs[context]
      rq['term'] += 1
      if rq['chan'] is None and rq['term'] == 1 and not rq.get('tdone'):
        err = 'other'
        try:
          if isinstance(msg.error, lb_base.NoMembersError):
            err = 'nomembers'
        except Exception:
          pass
        disp_event(rq, None, err)
  term = Term()

  class ToSink(ClientMessageSink):
    """The ClientTimeoutSink's frame on the stack (its context would be the timer's cancel closure)."""
    def AsyncProcessRequest(self, *a):
      raise NotImplementedError()

    def AsyncProcessResponse(self, sink_stack, context, stream, msg):
      sink_stack.AsyncProcessResponse(stream, msg)
  tosink = ToSink()

  def disp_event(rq, ch, err):
    r = rq['r']
    u = H.pre_u.pop(r, None)
    base = H.pre_base.pop(r, None)
    if u is None and not H.hooked:
      u = snapshot_u()
    if ch is None:
      fresh = 0
    elif base is not None:
      fresh = 1 if ch.cid > base else 0
    else:
      fresh = 1 if ch.tick == H.tick else 0
    dead = 1 if (ch is not None and rq.get('tdone')) else 0
    d = {'e': 'Disp', 'r': r, 'n': ch.cid if ch else -1, 'err': err, 'st': ch._st if ch else 0,
         'fresh': fresh, 'hasU': 0 if u is None else 1, 'U': u or []}
    if dead:
      d['dead'] = 1       # the request had already completed (timed out while parked) when it was dispatched
    # Disp is logged at the position of the CHOICE (U and the reference counts are those of that moment): after
    # the Create events of members admitted inside __Get, before whatever the same dispatch caused after the
    # choice (aperture adjustment in _OnGet: closes, requests failed synchronously by such a close)
    pos = H.pre_pos.pop(r, None)
    if pos is not None and pos < len(ev):
      while pos < len(ev) and ev[pos]['e'] == 'Create':
        pos += 1
      ev.insert(pos, d)
      H.dirty = True
    else:
      emit(d)
    rq['state'] = ('dropped' if dead else 'out') if ch else 'done'

  def on_receive(ch, sink_stack, msg):
    r = msg.properties.get('vr')
    rq = H.reqs[r]
    if rq['chan'] is not None:
      H.degraded.add('double-dispatch')
      return
    disp_event(rq, ch, 'none')
    rq['chan'] = ch
    evt = msg.properties.get(Deadline.EVENT_KEY)
    if rq['state'] == 'dropped' or (evt is not None and evt.Get()):
      # like the mux send loop: a message whose timeout event is already set is dropped, no reply
      rq['state'] = 'dropped'
      return
    H.ref_out[ch.cid] += 1
    if rq['push']:
      sink_stack.Push(ch, r)
    if rq['ff'] and ch._st == ChannelState.Closed:
      complete(rq, 'failfast', None)

  # ---------------------------------------------------------------- mock provider
  class Prov(ServerSetProvider):
    def __init__(self):
      self.T = set(s0)
      self.on_join = None
      self.on_leave = None
      self.q = Queue()
      self.worker = None
      self.release = Event()
      self.calls = 0
      self.load = dict(script.get('load', {'mode': 'nonblock'}))
      self.fail_next = bool(self.load.get('fail_first'))

    def Initialize(self, on_join, on_leave):
      self.on_join, self.on_leave = on_join, on_leave
      if self.worker is None:
        self.worker = gevent.spawn(self._work)

    def Close(self):
      pass

    def GetServers(self):
      self.calls += 1
      if self.fail_next:
        self.fail_next = False
        raise Exception('provider unavailable')
      mode = self.load.get('mode', 'nonblock')
      snap = sorted(self.T)
      if mode != 'nonblock':
        self.release.wait()
        if mode == 'late':
          snap = sorted(self.T)
      emit({'e': 'Snap'})
      H.s_eff = set(snap)
      members = [Member(ep_of(e)) for e in snap]
      if self.load.get('dup_in_list') and members:
        members.append(Member(ep_of(snap[0])))
      return members

    def notify(self, k, e):
      if k == 'J':
        self.T.add(e)
        emit({'e': 'Join', 'ep': e})
      else:
        self.T.discard(e)
        emit({'e': 'Leave', 'ep': e})
      if self.on_join is not None:
        self.q.put((k, e))

    def _work(self):
      while True:
        k, e = self.q.get()
        try:
          (self.on_join if k == 'J' else self.on_leave)(Member(ep_of(e)))
        except gevent.GreenletExit:
          raise
        except Exception:
          H.raised += 1
        if k == 'J':
          H.s_eff.add(e)
          emit({'e': 'JoinDone', 'ep': e})
        else:
          H.s_eff.discard(e)
          emit({'e': 'LeaveDone', 'ep': e})

  prov = Prov()

  # ---------------------------------------------------------------- the balancer under test
  gprops = {SinkProperties.Label: 'svc'}
  if kind == 'heap':
    cls = lb_heap.HeapBalancerSink
    params = cls.Builder.PARAMS_CLASS(server_set_provider=prov)
  else:
    cls = lb_ap.ApertureBalancerSink
    d = dict(cls.Builder._defaults)
    ap = script.get('ap', {})
    d.update(server_set_provider=prov, min_size=ap.get('min_size', 1), max_size=ap.get('max_size', 2 ** 31),
             min_load=ap.get('min_load', 0.5), max_load=ap.get('max_load', 2.0),
             jitter_min_sec=ap.get('jitter_min', 0), jitter_max_sec=ap.get('jitter_max', 0))
    params = cls.Builder.PARAMS_CLASS(**d)
  b = cls(Factory(), params, gprops)
  bal[0] = b
  orig = getattr(b, '_AsyncProcessRequestImpl', None)
  if callable(orig):
    def hooked(sink_stack, msg, stream, headers):
      r = msg.properties.get('vr')
      H.pre_u[r] = snapshot_u()
      H.pre_base[r] = len(H.chans)
      H.pre_pos[r] = len(ev)
      return orig(sink_stack, msg, stream, headers)
    try:
      b._AsyncProcessRequestImpl = hooked
      H.hooked = True
    except Exception:
      H.hooked = False
  if not H.hooked:
    H.degraded.add('preU')
  open_ar = [None]

  # ---------------------------------------------------------------- operations
  class Hang(BaseException):
    pass
  hang = [False]

  def on_alarm(_sig, _frm):
    hang[0] = True
    loop._budget = 0      # if the hub swallows the exception it still hands control back at once
    raise Hang()

  def guard(what, fn, *args):
    """Call into the code under test; an exception it raises into its caller is recorded, not fatal."""
    try:
      return fn(*args)
    except Hang:
      raise
    except Exception:
      H.raised += 1
      emit({'e': 'Raised', 'op': what})
      return None

  def gated():
    ar = open_ar[0]
    return ar is None or not ar.ready()

  def dispatch(push, ff, dl=False):
    H.nreq += 1
    r = H.nreq
    rq = {'r': r, 'chan': None, 'state': 'new', 'term': 0, 'push': bool(push), 'ff': bool(ff), 'late': False}
    H.reqs[r] = rq
    msg = Message()
    msg.properties['vr'] = r
    stack = ClientMessageSinkStack()
    stack.Push(term, r)
    if dl:
      # what ClientTimeoutSink.AsyncProcessRequest does above the balancer (the driver is the timer)
      rq['evt'] = Observable()
      msg.properties[Deadline.KEY] = loop.now() + 3600.0
      msg.properties[Deadline.EVENT_KEY] = rq['evt']
      stack.Push(tosink, r)
    rq['stack'] = stack
    was_gated = gated()
    exc = None
    try:
      b.AsyncProcessRequest(stack, msg, None, None)
    except Exception as ex:  # the balancer raised into the caller
      exc = ex
    if rq['state'] == 'new':
      if exc is None and was_gated:
        rq['state'] = 'held'
        emit({'e': 'Held', 'r': r})
      else:
        disp_event(rq, None, 'raised' if exc is not None else 'none')
    return r

  def complete(rq, knd, j):
    ch = rq['chan']
    emit({'e': 'Comp', 'r': rq['r'], 'n': ch.cid, 'kind': knd})
    H.ref_out[ch.cid] -= 1
    rq['state'] = 'done'
    rq['kind'] = knd
    if knd == 'fault':
      ch._st = ChannelState.Closed
      emit({'e': 'Chan', 'n': ch.cid, 'st': ch._st})
    if j is not None and j > 0:
      srand.forced.append(j)
    st = rq['stack']
    if knd == 'reply':
      guard('comp', st.AsyncProcessResponseStream, 'stream')
    elif knd == 'timeout':
      guard('comp', st.AsyncProcessResponseMessage, MethodReturnMessage(error=ScalesTimeout()))
    else:
      guard('comp', st.AsyncProcessResponseMessage, MethodReturnMessage(error=Exception(knd)))
    del srand.forced[:]

  def fire_timeout(rq):
    """ClientTimeoutSink._TimeoutHelper: set the event, post TimeoutError on the request's stack."""
    if rq['state'] == 'out':
      rq['evt'].Set(True)
      complete(rq, 'timeout', None)
    elif rq['state'] == 'held':
      rq['tdone'] = True
      rq['state'] = 'tdone'
      emit({'e': 'Tmo', 'r': rq['r']})
      rq['evt'].Set(True)
      guard('tmo', rq['stack'].AsyncProcessResponseMessage, MethodReturnMessage(error=ScalesTimeout()))

  def outstanding():
    return [H.reqs[r] for r in sorted(H.reqs) if H.reqs[r]['state'] == 'out']

  def quanta(k):
    if k is None or k < 0:
      loop.settle()
    elif k > 0:
      loop.step(k)

  def q_event():
    el = eligible()
    ev.append({'e': 'Q', 'hasE': 0 if el is None else 1, 'elig': el or []})

  def do_q():
    loop.settle()
    end()
    q_event()

  def set_chan(ch, st):
    if st == ChannelState.Open and ch.open_ar is not None and not ch.open_ar.ready():
      ch.finish_open(ch.open_ar, True)
    else:
      ch._st = st
    ev.append({'e': 'Chan', 'n': ch.cid, 'st': ch._st})

  def probe():
    loop.settle()
    for ch in H.chans:
      if ch.closes == 0:
        if ch.open_ar is not None and not ch.open_ar.ready():
          ch.finish_open(ch.open_ar, True)
        elif ch._st != ChannelState.Open:
          set_chan(ch, ChannelState.Open)
    loop.settle()
    end()
    if gated():
      return
    for rq in outstanding():
      if rq['state'] != 'out':
        continue          # failed meanwhile by a flushing Close() that an earlier completion caused
      complete(rq, 'reply', None)
      end()
    loop.settle()
    end()
    S = set(prov.T)
    got = set()
    k = 0
    while k < 3 * len(S) + 2 and not (S and S <= got):
      r = dispatch(False, False)
      end()
      ch = H.reqs[r]['chan']
      if ch is not None:
        got.add(ch.eid)
      k += 1
      if not S:
        break
    ev.append({'e': 'Probe', 'got': sorted(got), 'full': 1})

  def do_op(op):
    k = op[0]
    if k == 'open':
      open_ar[0] = guard('open', b.Open)
    elif k == 'step':
      quanta(op[1])
    elif k == 'settle':
      do_q()
    elif k == 'release':
      if len(op) > 2:
        prov.load['mode'] = 'early' if op[2] else 'late'
      prov.release.set()
      quanta(op[1] if len(op) > 1 else -1)
    elif k == 'failnext':
      prov.fail_next = True
    elif k in ('join', 'leave'):
      if len(op) > 3:
        srand.forced.extend(op[3])      # outcomes of random.choice while the notification is processed
      prov.notify('J' if k == 'join' else 'L', op[1])
      quanta(op[2] if len(op) > 2 else -1)
      del srand.forced[:]
    elif k == 'pol':
      H.pol = op[1]
    elif k == 'chan':
      live = [c for c in H.chans if c.closes == 0]
      if live:
        set_chan(live[op[1] % len(live)], op[2])
    elif k == 'chan_n':
      if 1 <= op[1] <= len(H.chans):
        set_chan(H.chans[op[1] - 1], op[2])
    elif k == 'opendone':
      pend = [c for c in H.chans if c.open_ar is not None and not c.open_ar.ready()]
      if pend:
        c = pend[op[1] % len(pend)]
        c.finish_open(c.open_ar, bool(op[2]))
        quanta(op[3] if len(op) > 3 else -1)
    elif k == 'opendead':
      # the pending Open() of a channel that was closed meanwhile (its member left) fails now
      pend = [c for c in H.chans if c.dead_ar is not None and not c.dead_ar.ready()]
      if pend:
        c = pend[op[1] % len(pend)]
        emit({'e': 'OpenDone', 'n': c.cid, 'ok': 0})
        c.dead_ar.set_exception(Exception('connect failed'))
        quanta(op[2] if len(op) > 2 else -1)
    elif k == 'disp':
      if len(op) > 3:
        srand.forced.extend(op[3])      # outcomes of random.choice inside this dispatch
      dispatch(op[1] if len(op) > 1 else 0, op[2] if len(op) > 2 else 0)
      del srand.forced[:]
    elif k == 'disp_dl':
      dispatch(op[1] if len(op) > 1 else 0, 0, True)
    elif k == 'tmo':
      o = [H.reqs[r] for r in sorted(H.reqs) if H.reqs[r].get('evt') is not None
           and H.reqs[r]['state'] in ('out', 'held')]
      if o:
        fire_timeout(o[op[1] % len(o)])
    elif k == 'cb':
      for _ in range(op[1]):
        if not loop.has_callbacks():
          break
        loop.step_callback()
    elif k == 'cb_chan':
      # run callbacks one at a time until the balancer has asked some channel to open
      for _ in range(200):
        if any(c.open_ar is not None and not c.open_ar.ready() for c in H.chans) or not loop.has_callbacks():
          break
        loop.step_callback()
    elif k == 'cb_open':
      # run callbacks one at a time up to the instant the balancer's open result is set: the parked
      # calls' link callbacks have not run yet
      for _ in range(200):
        if not gated() or not loop.has_callbacks():
          break
        loop.step_callback()
    elif k == 'comp':
      o = outstanding()
      if o:
        complete(o[op[1] % len(o)], op[2], op[3] if len(op) > 3 else None)
    elif k == 'comp_n':
      o = [q for q in outstanding() if q['chan'].cid == op[1]]
      if o:
        complete(o[0], op[2], op[3] if len(op) > 3 else None)
    elif k == 'late':
      o = [H.reqs[r] for r in sorted(H.reqs) if H.reqs[r]['state'] == 'done' and H.reqs[r]['chan'] is not None
           and not H.reqs[r]['late']]
      if o:
        rq = o[op[1] % len(o)]
        rq['late'] = True
        emit({'e': 'Late', 'r': rq['r'], 'n': rq['chan'].cid})
        guard('late', rq['stack'].AsyncProcessResponseStream, 'late')
    elif k == 'late_n':
      o = [H.reqs[r] for r in sorted(H.reqs) if H.reqs[r]['state'] == 'done' and H.reqs[r]['chan'] is not None
           and H.reqs[r]['chan'].cid == op[1] and not H.reqs[r]['late']]
      o.sort(key=lambda q: 0 if q.get('kind') == 'timeout' else 1)
      if o:
        rq = o[0]
        rq['late'] = True
        emit({'e': 'Late', 'r': rq['r'], 'n': rq['chan'].cid})
        guard('late', rq['stack'].AsyncProcessResponseStream, 'late')
    elif k == 'adv':
      loop.run_for(op[1] / 1000.0)
      loop.settle()
    elif k == 'probe':
      probe()
    else:
      raise ValueError('unknown op %r' % (op,))

  # CPU-time watchdog: a livelock in the code under test (possible in a defective tree) ends the
  # case; what was recorded so far is judged.  Independent of machine load.
  signal.signal(signal.SIGVTALRM, on_alarm)
  signal.setitimer(signal.ITIMER_VIRTUAL, WATCHDOG_CPU_S, 0.2)
  try:
    for op in script['ops']:
      if hang[0]:
        break
      try:
        do_op(op)
      except RuntimeError:
        if not hang[0]:
          raise
        break
      end()
      if op[0] != 'settle' and loop.idle_now():
        q_event()       # nothing can run at this instant: a quiescent point
      if want_impl:
        impl.append(impl_projection())
    if not hang[0]:
      do_q()
  except Hang:
    pass
  finally:
    signal.setitimer(signal.ITIMER_VIRTUAL, 0, 0)
  if hang[0]:
    ev.append({'e': 'Hang'})
  out = {'cfg': {'kind': kind, 's0': s0}, 'ev': ev,
         'meta': {'rand': srand.log[:200], 'degraded': sorted(H.degraded), 'raised': H.raised, 'hang': hang[0],
                  'errors': [list(e[1:3]) for e in loop.errors][:3], 'channels': len(H.chans)}}
  if want_impl:
    out['impl'] = impl
  return out


def run_case(script):
  o = _drive(script)
  return {'cfg': o['cfg'], 'ev': o['ev'], 'meta': o['meta']}


def trace_for_tlc(t):
  return {'cfg': t['cfg'], 'ev': t['ev']}


# ====================================================================== direction B: cases
def _gen_traffic(rng, kind, prop):
  """Random history after a normal open: traffic, completions, channel flips, membership."""
  if prop == 'C03':
    n = rng.choice([1, 2, 3, 5, 6, 6, 7, 7, 7, 8, 9])
    nops = rng.randint(15, 45)
    w = dict(disp=50, comp=32, chan=5, leave=3, join=3, late=1, settle=2, adv=2, opendone=2)
  elif prop == 'C04':
    n = rng.choice([2, 3, 4, 5, 6])
    nops = rng.randint(12, 40)
    w = dict(disp=36, comp=30, chan=7, leave=9, join=7, late=5, settle=2, adv=2, opendone=2)
  else:
    n = rng.choice([0, 1, 2, 3, 4, 5])
    nops = rng.randint(10, 36)
    w = dict(disp=22, comp=16, chan=5, leave=22, join=24, late=1, settle=6, adv=2, opendone=2)
  names = list(range(1, n + 3))
  s0 = list(range(1, n + 1))
  sc = {'kind': kind, 's0': s0, 'rseed': rng.randint(0, 10 ** 6), 'pol': rng.choice(['auto', 'auto', 'auto', 'manual', 'sync']),
        'load': {'mode': 'nonblock'}}
  if kind == 'aperture':
    sc['ap'] = {'min_size': rng.choice([1, 1, 2, 3]), 'max_size': rng.choice([2, 3, 4, 2 ** 31]),
                'min_load': rng.choice([0.3, 0.5]), 'max_load': rng.choice([1.0, 1.5, 2.0]),
                'jitter_min': rng.choice([0, 0, 0, 2]), 'jitter_max': 4}
    if sc['ap']['max_size'] < sc['ap']['min_size']:
      sc['ap']['max_size'] = sc['ap']['min_size']
  ops = [['open'], ['settle']]
  kinds = ['reply', 'reply', 'reply', 'error', 'timeout', 'fault'] if prop != 'C04' else \
          ['reply', 'reply', 'error', 'timeout', 'timeout', 'fault']
  keys = sorted(w)
  tot = sum(w.values())
  for _ in range(nops):
    x = rng.randrange(tot)
    for kk in keys:
      if x < w[kk]:
        break
      x -= w[kk]
    if kk == 'disp':
      ops.append(['disp', 1 if rng.random() < 0.5 else 0, 1 if rng.random() < 0.15 else 0])
    elif kk == 'comp':
      ops.append(['comp', rng.randrange(64), rng.choice(kinds), rng.randint(1, 9) if rng.random() < 0.5 else 0])
    elif kk == 'chan':
      ops.append(['chan', rng.randrange(64), rng.choice([1, 2, 2, 2, 3, 4, 4])])
    elif kk == 'leave':
      ops.append(['leave', rng.choice(names), rng.choice([-1, -1, -1, 0, 1, 2])])
    elif kk == 'join':
      ops.append(['join', rng.choice(names), rng.choice([-1, -1, -1, 0, 1, 2])])
    elif kk == 'late':
      ops.append(['late', rng.randrange(64)])
    elif kk == 'settle':
      ops.append(['settle'])
    elif kk == 'adv':
      ops.append(['adv', rng.choice([100, 1000, 2500, 6000])])
    elif kk == 'opendone':
      ops.append(['opendone', rng.randrange(64), 1 if rng.random() < 0.7 else 0, -1])
  if rng.random() < 0.35:
    ops.append(['probe'])
  sc['ops'] = ops
  return sc


def _gen_gate(rng, kind):
  """Notifications interleaved with the open sequence (C05.initGate)."""
  n = rng.choice([0, 1, 2, 3])
  names = [1, 2, 3, 4]
  s0 = sorted(rng.sample(names, n))
  sc = {'kind': kind, 's0': s0, 'rseed': rng.randint(0, 10 ** 6), 'pol': rng.choice(['auto', 'manual', 'sync']),
        'load': {'mode': rng.choice(['early', 'late', 'late']), 'fail_first': rng.random() < 0.2,
                 'dup_in_list': rng.random() < 0.15}}
  if kind == 'aperture':
    sc['ap'] = {'min_size': rng.choice([1, 2]), 'max_size': rng.choice([2, 3, 2 ** 31]),
                'min_load': 0.5, 'max_load': 2.0}
  ops = [['open'], ['step', rng.choice([0, 1, 2, -1])]]

  def notes(k):
    for _ in range(k):
      ops.append([rng.choice(['join', 'leave']), rng.choice(names), rng.choice([-1, -1, 0, 1, 2])])
      if rng.random() < 0.25:
        ops.append(['settle'])
      if rng.random() < 0.2:
        ops.append(['disp', 0, 0])
  notes(rng.randint(0, 4))
  if sc['load']['fail_first']:
    ops.append(['adv', 5000])
    notes(rng.randint(0, 2))
  ops.append(['release', rng.choice([-1, -1, 0, 1, 2, 3])])
  notes(rng.randint(0, 4))
  ops.append(['settle'])
  for _ in range(rng.randint(0, 6)):
    x = rng.random()
    if x < 0.4:
      ops.append(['disp', 0, 0])
    elif x < 0.6:
      ops.append(['comp', rng.randrange(16), 'reply', 0])
    else:
      ops.append([rng.choice(['join', 'leave']), rng.choice(names), -1])
  if rng.random() < 0.5:
    ops.append(['probe'])
  sc['ops'] = ops
  return sc


def _family_c03():
  """D^k Put(c, j) D^m: the shape of the shortest TLC counterexample, enumerated."""
  out = []
  for n in (6, 7):
    for k in range(2, n + 1):
      for c in range(1, k + 1):
        for j in range(1, n + 1):
          ops = [['open'], ['settle']] + [['disp', 0, 0]] * k + [['comp_n', c, 'reply', j]] + [['disp', 0, 0]] * n
          out.append({'kind': 'heap', 's0': list(range(1, n + 1)), 'rseed': 0, 'pol': 'auto', 'shuffle_id': True,
                      'load': {'mode': 'nonblock'}, 'ops': ops})
  return out


AP_FIXED = {'min_load': -1, 'max_load': 10 ** 6, 'jitter_min': 0, 'jitter_max': 0}   # no load-based resizing, no jitter


def _family_aperture_down():
  """A member of the aperture goes non-Open while idle or loaded; the dispatch that finds it at the
  heap root marks it down and the aperture pulls a replacement from the idle set IN THE MIDDLE of that
  dispatch (ApertureBalancerSink._OnNodeDown -> _TryExpandAperture -> _AddSink).  Enumerated: aperture
  size m in {2, 3, 4} (1-2 idle endpoints) x load pattern before the fault (k uncompleted dispatches,
  one of them optionally completed: loads differ by one) x the member that fails (new state Closed /
  Busy alternating) x when the replacement's Open() completes (at once; after the j-th following
  dispatch, j = 0, 1, 2; from a spawned greenlet after one loop step); for m in {2, 3} also a second
  member (possibly the replacement) failing after the first was replaced.  Load-based resizing and
  jitter are configured off, so the only aperture changes are the replacements."""
  out = []

  def phase(ops, m, victim, st, mode, ndisp):
    ops.append(['pol', 'manual' if mode.startswith('od') else mode])
    ops.append(['chan_n', victim, st])
    for i in range(ndisp):
      ops.append(['disp', 0, 0])
      if mode == 'auto':
        ops.append(['step', 1])
      elif mode.startswith('od') and i >= int(mode[2]):
        ops.append(['opendone', 0, 1, 0])

  def case(m, n, ops, tag):
    ap = dict(AP_FIXED)
    ap.update(min_size=m, max_size=n if tag % 2 else 2 ** 31)
    out.append({'kind': 'aperture', 's0': list(range(1, n + 1)), 'rseed': tag, 'pol': 'sync',
                'shuffle_id': True, 'load': {'mode': 'nonblock'}, 'ap': ap, 'ops': ops})

  modes = ('sync', 'od0', 'od1', 'od2', 'auto')
  for m in (2, 3, 4):
    pats = [(k, c) for k in range(0, m + 2) for c in [0] + list(range(1, min(k, m) + 1))]
    for pi, (k, c) in enumerate(pats):
      for victim in range(1, m + 1):
        for mode in modes:
          ops = [['open'], ['settle']] + [['disp', 0, 0]] * k
          if c:
            ops.append(['comp_n', c, 'reply', 0])
          phase(ops, m, victim, 4 if (pi + victim) % 2 else 3, mode, m + 4)
          ops += [['chan_n', victim, 2], ['disp', 0, 0], ['comp', 0, 'reply', 0], ['disp', 0, 0]]
          case(m, m + 1 + (pi + victim) % 2, ops, k + 7 * victim)
  for m in (2, 3):
    for k in (0, m):
      for v1 in range(1, m + 1):
        for v2 in range(1, m + 2):
          if v2 == v1:
            continue
          for mode in modes:
            ops = [['open'], ['settle']] + [['disp', 0, 0]] * k
            phase(ops, m, v1, 4, 'sync', 1 if v2 <= m else 2)
            phase(ops, m, v2, 4 if (v1 + v2) % 2 else 3, mode, m + 5)
            case(m, m + 2, ops, k + 7 * v1 + 3 * v2)
  return out


def _gen_aperture_down(rng, prop):
  """Random histories on the real aperture balancer with min_size 2-3 and several idle endpoints:
  channels of aperture members go Closed / Busy / Idle and come back, Open() results of the
  replacements complete at random points (policy switched between sync / manual / auto as channels
  are created), requests stay uncompleted so that loads differ, members leave and re-join."""
  m = rng.choice([2, 2, 3])
  n = m + rng.randint(1, 3)
  ap = {'min_size': m, 'max_size': rng.choice([n, n + 1, 2 ** 31])}
  if rng.random() < 0.65:
    ap.update(AP_FIXED)
  else:
    ap.update(min_load=rng.choice([0.3, 0.5]), max_load=rng.choice([1.5, 2.0, 3.0]),
              jitter_min=rng.choice([0, 0, 2]), jitter_max=4)
  sc = {'kind': 'aperture', 's0': list(range(1, n + 1)), 'rseed': rng.randint(0, 10 ** 6),
        'pol': rng.choice(['sync', 'sync', 'auto']), 'load': {'mode': 'nonblock'}, 'ap': ap}
  ops = [['open'], ['settle']]
  for _ in range(rng.randint(0, m + 1)):
    ops.append(['disp', 1 if rng.random() < 0.5 else 0, 0])
  if rng.random() < 0.4:
    ops.append(['comp', rng.randrange(8), 'reply', 0])
  ops.append(['pol', rng.choice(['sync', 'sync', 'manual', 'manual', 'auto'])])
  w = dict(disp=40, comp=14, chan=16, opendone=9, pol=3, step=5, settle=2, leave=3, join=3, adv=1) if prop != 'C04' else \
      dict(disp=34, comp=22, chan=14, opendone=8, pol=3, step=5, settle=2, leave=6, join=4, adv=1, late=2)
  keys = sorted(w)
  tot = sum(w.values())
  kinds = ['reply', 'reply', 'error', 'timeout', 'fault']
  for _ in range(rng.randint(10, 30)):
    x = rng.randrange(tot)
    for kk in keys:
      if x < w[kk]:
        break
      x -= w[kk]
    if kk == 'disp':
      ops.append(['disp', 1 if rng.random() < 0.5 else 0, 0])
    elif kk == 'comp':
      ops.append(['comp', rng.randrange(64), rng.choice(kinds), rng.randint(1, 5) if rng.random() < 0.5 else 0])
    elif kk == 'chan':
      ops.append(['chan', rng.randrange(64), rng.choice([4, 4, 4, 3, 2, 2, 1])])
    elif kk == 'opendone':
      ops.append(['opendone', rng.randrange(8), 1 if rng.random() < 0.85 else 0, rng.choice([0, 0, 1, -1])])
    elif kk == 'pol':
      ops.append(['pol', rng.choice(['sync', 'manual', 'auto'])])
    elif kk == 'step':
      ops.append(['step', rng.choice([1, 1, 2])])
    elif kk == 'settle':
      ops.append(['settle'])
    elif kk == 'leave':
      ops.append(['leave', rng.randint(1, n + 1), rng.choice([-1, -1, 0, 1])])
    elif kk == 'join':
      ops.append(['join', rng.randint(1, n + 1), rng.choice([-1, -1, 0, 1])])
    elif kk == 'late':
      ops.append(['late', rng.randrange(64)])
    elif kk == 'adv':
      ops.append(['adv', rng.choice([100, 1000, 2500])])
  sc['ops'] = ops
  return sc


def _family_closefail():
  """A member leaves and the Close() of its channel raises (the channel is closed, its teardown fails);
  the provider's notification worker logs the exception and carries on; the same endpoint re-joins.
  Enumerated: heap / aperture (every member active; one member held idle) x the member x its condition
  when it leaves (idle: closed at once; marked down; loaded: closed when its request completes, the
  exception then goes to the completing caller; down and loaded) x what follows (re-join, the others
  leave, a request; another member leaves first; duplicate join, clean leave, third join; the
  re-joined member's channel fails to close as well)."""
  out = []
  for kind, minsz in (('heap', 0), ('aperture', 3), ('aperture', 2)):
    for c in (1, 2, 3):
      others = [e for e in (1, 2, 3) if e != c]
      for cond in ('idle', 'down', 'loaded', 'downloaded'):
        for tail in range(4):
          ops = [['open'], ['settle']]
          if cond == 'loaded':
            ops += [['disp', 1, 0]] * 3
          elif cond == 'down':
            ops += [['chan_n', c, 4], ['disp', 1, 0]]
          elif cond == 'downloaded':
            # every channel down: the requests go to members marked down; then the others come back
            ops += [['chan_n', e, 4] for e in (1, 2, 3)] + [['disp', 1, 0]] * 3
            ops += [['chan_n', e, 2] for e in others] + [['disp', 1, 0]]
          ops.append(['leave', c, -1])
          if cond in ('loaded', 'downloaded'):
            ops += [['comp_n', c, 'reply', 0], ['settle']]
          if tail == 0:
            ops += [['join', c, -1], ['leave', others[0], -1], ['leave', others[1], -1], ['disp', 0, 0]]
          elif tail == 1:
            ops += [['leave', others[0], -1], ['join', c, -1], ['disp', 0, 0], ['leave', others[1], -1], ['disp', 0, 0]]
          elif tail == 2:
            ops += [['join', c, -1], ['join', c, -1], ['leave', c, -1], ['join', c, -1], ['disp', 0, 0]]
          else:
            ops += [['join', c, -1], ['leave', c, -1], ['join', c, -1], ['leave', others[0], -1],
                    ['leave', others[1], -1], ['disp', 0, 0]]
          ops += [['settle'], ['probe']]
          fail = [[c, 1]] + ([[c, 2]] if tail == 3 else [])
          sc = {'kind': kind, 's0': [1, 2, 3], 'rseed': 1, 'pol': 'sync', 'shuffle_id': True,
                'load': {'mode': 'nonblock'}, 'cfail_ep': fail, 'ops': ops}
          if kind == 'aperture':
            ap = dict(AP_FIXED)
            ap.update(min_size=minsz, max_size=3)
            sc['ap'] = ap
          out.append(sc)
  return out


def _gen_closefail(rng, kind):
  """Random join / leave / traffic histories in which some channels raise from their 1st (or 2nd)
  Close(): leaves of idle, down and loaded members, re-joins, further leaves and dispatches."""
  n = rng.choice([1, 2, 3, 3, 4])
  names = list(range(1, n + 2))
  sc = {'kind': kind, 's0': list(range(1, n + 1)), 'rseed': rng.randint(0, 10 ** 6),
        'pol': rng.choice(['sync', 'sync', 'auto', 'manual']), 'load': {'mode': 'nonblock'}}
  if kind == 'aperture':
    ap = {'min_size': rng.choice([1, 2, 3, n]), 'max_size': rng.choice([n, 2 ** 31])}
    ap['max_size'] = max(ap['max_size'], ap['min_size'])
    if rng.random() < 0.6:
      ap.update(AP_FIXED)
    else:
      ap.update(min_load=0.5, max_load=2.0, jitter_min=0, jitter_max=0)
    sc['ap'] = ap
  if rng.random() < 0.25:
    sc['cfail_all'] = 1
  else:
    sc['cfail'] = [[cid, 1 if rng.random() < 0.85 else 2] for cid in range(1, n + 8) if rng.random() < 0.5]
  ops = [['open'], ['settle']]
  w = dict(disp=20, comp=16, chan=7, leave=25, join=25, settle=5, opendone=2)
  keys = sorted(w)
  tot = sum(w.values())
  for _ in range(rng.randint(8, 28)):
    x = rng.randrange(tot)
    for kk in keys:
      if x < w[kk]:
        break
      x -= w[kk]
    if kk == 'disp':
      ops.append(['disp', 1 if rng.random() < 0.7 else 0, 0])
    elif kk == 'comp':
      ops.append(['comp', rng.randrange(64), rng.choice(['reply', 'reply', 'error', 'timeout']), 0])
    elif kk == 'chan':
      ops.append(['chan', rng.randrange(64), rng.choice([4, 4, 2, 3])])
    elif kk == 'leave':
      ops.append(['leave', rng.choice(names), rng.choice([-1, -1, -1, 0, 1])])
    elif kk == 'join':
      ops.append(['join', rng.choice(names), rng.choice([-1, -1, -1, 0, 1])])
    elif kk == 'settle':
      ops.append(['settle'])
    elif kk == 'opendone':
      ops.append(['opendone', rng.randrange(8), 1, -1])
  if rng.random() < 0.5:
    ops.append(['probe'])
  sc['ops'] = ops
  return sc


def _family_early_join():
  """A watch-style provider: join notifications are delivered by the provider's own worker while the
  opening greenlet is still inside GetServers() (the initial listing is loading) - for members that are
  ALSO part of the listing (already in the set, or new and listed by a late snapshot).  Then traffic
  without completions (2n+1 requests over n members), the early-announced member leaves, more traffic,
  completions, traffic.  Enumerated: heap / aperture (all active; min_size 1) x initial set x early /
  late snapshot x which members are announced early x channel open policy."""
  out = []
  for kind, minsz in (('heap', 0), ('aperture', 3), ('aperture', 1)):
    for s0 in ([1, 2, 3], [1, 2]):
      for mode in ('early', 'late'):
        for joins in ([1], [2, 1], [3], [1, 2, 3]):
          for pol in ('sync', 'auto'):
            n = len(set(s0) | (set(joins) if mode == 'late' else set()))
            ops = [['open'], ['settle']] + [['join', e, -1] for e in joins] + [['release', -1], ['settle']]
            ops += [['disp', 0, 0]] * (2 * n + 1) + [['leave', joins[0], -1]] + [['disp', 0, 0]] * (n + 2)
            ops += [['comp', 0, 'reply', 0]] * 3 + [['disp', 0, 0]] * 3 + [['probe']]
            sc = {'kind': kind, 's0': s0, 'rseed': 1, 'pol': pol, 'shuffle_id': True, 'load': {'mode': mode}, 'ops': ops}
            if kind == 'aperture':
              ap = dict(AP_FIXED)
              ap.update(min_size=minsz, max_size=2 ** 31)
              sc['ap'] = ap
            out.append(sc)
  return out


def _gen_early_join(rng, kind):
  """Random variant of _family_early_join: several notifications (mostly joins of listed members) land
  while GetServers blocks, then dispatch-heavy traffic with leaves and re-joins."""
  names = [1, 2, 3, 4]
  s0 = sorted(rng.sample(names, rng.choice([1, 2, 3, 3, 4])))
  sc = {'kind': kind, 's0': s0, 'rseed': rng.randint(0, 10 ** 6), 'pol': rng.choice(['sync', 'auto', 'auto', 'manual']),
        'load': {'mode': rng.choice(['early', 'late'])}}
  if kind == 'aperture':
    ap = dict(AP_FIXED) if rng.random() < 0.6 else {'min_load': 0.5, 'max_load': 2.0, 'jitter_min': 0, 'jitter_max': 0}
    ap.update(min_size=rng.choice([1, 2, 4]), max_size=2 ** 31)
    sc['ap'] = ap
  ops = [['open'], ['step', rng.choice([-1, -1, 1, 2])]]
  for _ in range(rng.randint(1, 4)):
    x = rng.random()
    ops.append(['join' if x < 0.8 else 'leave', rng.choice(s0) if rng.random() < 0.7 else rng.choice(names),
                rng.choice([-1, -1, 0, 1])])
  ops += [['release', rng.choice([-1, -1, 0, 1, 2])], ['settle']]
  if sc['pol'] == 'manual':
    ops += [['opendone', 0, 1, -1]] * 4
  for _ in range(rng.randint(8, 26)):
    x = rng.random()
    if x < 0.6:
      ops.append(['disp', 1 if rng.random() < 0.5 else 0, 0])
    elif x < 0.78:
      ops.append(['comp', rng.randrange(64), rng.choice(['reply', 'reply', 'error', 'timeout']), 0])
    elif x < 0.9:
      ops.append(['leave', rng.choice(names), -1])
    elif x < 0.97:
      ops.append(['join', rng.choice(names), -1])
    else:
      ops.append(['settle'])
  if rng.random() < 0.5:
    ops.append(['probe'])
  sc['ops'] = ops
  return sc


def _family_flush_close():
  """Channels that fail their in-flight requests SYNCHRONOUSLY inside Close() (as the mux transport's
  _Shutdown does): every failure re-enters the balancer (PutWrapper -> __Put, the heap lock is
  re-entrant) before Close() returns.  n = 2..6 members with 4 slow requests each; completions leave y
  with 4 - cy, x with 4 - cx, the others with 3 or 2 in flight; x and y report Busy (not Open, requests
  still in flight); `notice` dispatches find them at the heap root and mark them down; x leaves the
  server set while down (closed at once: its requests fail inside Close()); traffic; y is Open again;
  traffic; a new member joins; 3n requests.  Enumerated over n x rotation of (x, y) x notice x (cy, cx)."""
  out = []
  for n in (2, 3, 4, 5, 6):
    for rot in range(n):
      x, y = 1 + rot % n, 1 + (rot + 1) % n
      for notice in sorted(set([1, max(2, 2 * n - 2), 2 * n])):
        for cy, cx in ((3, 1), (3, 0), (2, 1)):
          ops = [['open'], ['settle']] + [['disp', 1, 0]] * (4 * n)
          ops += [['comp_n', y, 'reply', 0]] * cy + [['comp_n', x, 'reply', 0]] * cx
          for e in range(1, n + 1):
            if e not in (x, y):
              ops += [['comp_n', e, 'reply', 0]] * (1 + (e + rot) % 2)
          ops += [['chan_n', x, 3], ['chan_n', y, 3]] + [['disp', 1, 0]] * notice
          ops += [['leave', x, -1]] + [['disp', 1, 0]] * 2 + [['chan_n', y, 2]] + [['disp', 1, 0]] * 2
          ops += [['join', n + 1, -1]] + [['disp', 1, 0]] * (3 * n) + [['settle']]
          out.append({'kind': 'heap', 's0': list(range(1, n + 1)), 'rseed': rot, 'pol': 'sync', 'shuffle_id': True,
                      'load': {'mode': 'nonblock'}, 'cflush_all': 1, 'ops': ops})
  return out


def _gen_flush_close(rng, kind):
  """Random histories with flushing Close(): several members down (Busy / Closed) at once with requests
  in flight, one or more of them leaving, coming back, joins, dispatch-heavy traffic."""
  n = rng.choice([2, 3, 4, 4, 5, 6])
  sc = {'kind': kind, 's0': list(range(1, n + 1)), 'rseed': rng.randint(0, 10 ** 6), 'pol': rng.choice(['sync', 'sync', 'auto']),
        'load': {'mode': 'nonblock'}, 'cflush_all': 1}
  if kind == 'aperture':
    ap = dict(AP_FIXED)
    ap.update(min_size=rng.choice([2, 3, n]), max_size=2 ** 31)
    sc['ap'] = ap
  ops = [['open'], ['settle']] + [['disp', 1, 0]] * (rng.choice([2, 3, 4]) * n)
  for _ in range(rng.randint(n, 3 * n)):
    ops.append(['comp_n', rng.randint(1, n), rng.choice(['reply', 'reply', 'error']), rng.randint(0, 4)])
  down = rng.sample(range(1, n + 1), rng.choice([2, 2, 3]) if n > 2 else 2)
  for e in down:
    ops.append(['chan_n', e, rng.choice([3, 3, 4])])
  ops += [['disp', 1, 0]] * rng.randint(1, 2 * n + 2)
  for _ in range(rng.randint(6, 22)):
    x = rng.random()
    if x < 0.5:
      ops.append(['disp', 1, 0])
    elif x < 0.62:
      ops.append(['comp', rng.randrange(64), rng.choice(['reply', 'error', 'timeout']), rng.randint(0, 4)])
    elif x < 0.77:
      ops.append(['leave', rng.choice(down) if rng.random() < 0.8 else rng.randint(1, n + 1), -1])
    elif x < 0.87:
      ops.append(['chan_n', rng.choice(down), rng.choice([2, 2, 3, 4])])
    elif x < 0.95:
      ops.append(['join', rng.randint(1, n + 2), -1])
    else:
      ops.append(['chan', rng.randrange(64), rng.choice([3, 4, 2])])
  ops += [['settle']]
  sc['ops'] = ops
  return sc


def _family_open_raises():
  """Aperture: the Open() of the channel created by an expansion raises SYNCHRONOUSLY (the layer below
  cannot be set up; the exception surfaces in whatever triggered the expansion: the leave callback -
  logged by the provider's worker - or the dispatching caller); a later expansion; the endpoint whose
  channel failed leaves; further leaves and a dispatch.  Enumerated: min_size 1-2 x 1-2 extra idle
  endpoints x trigger of the first expansion (leave of an active member / a member found down by a
  dispatch) x trigger of the second x which Open() of the endpoint raises (1st, 1st and 2nd) x random seed
  (the draw of random.choice)."""
  out = []
  for m in (1, 2):
    for extra in (1, 2):
      n = m + extra
      for t1 in ('leave', 'down'):
        for t2 in ('leave', 'down'):
          for ks in ([1], [1, 2]):
            for rs in (1, 2, 3):
              ops = [['open'], ['settle']]
              ops += [['leave', 1, -1]] if t1 == 'leave' else [['chan_n', 1, 4], ['disp', 0, 0], ['settle']]
              ops += [['join', n + 1, -1], ['settle']]
              ops += [['leave', n + 1, -1]] if t2 == 'leave' else [['chan', 0, 4], ['chan', 1, 4], ['disp', 0, 0], ['disp', 0, 0], ['settle']]
              for e in range(m + 1, n + 1):
                ops += [['leave', e, -1], ['settle']]
              ops += [['disp', 0, 0], ['leave', 1, -1], ['leave', n + 1, -1]]
              ops += [['leave', e, -1] for e in range(2, m + 1)] + [['disp', 0, 0], ['settle'], ['probe']]
              ap = dict(AP_FIXED)
              ap.update(min_size=m, max_size=2 ** 31)
              out.append({'kind': 'aperture', 's0': list(range(1, n + 1)), 'rseed': rs, 'pol': 'sync', 'shuffle_id': True,
                          'load': {'mode': 'nonblock'}, 'ap': ap, 'ops': ops,
                          'ofail_ep': [[e, k] for e in range(m + 1, n + 1) for k in ks]})
  return out


def _gen_open_raises(rng, kind):
  """Random join / leave / down-up / traffic histories in which some Open() calls of channels created
  after the balancer's own open raise synchronously."""
  n = rng.choice([2, 3, 3, 4, 5])
  m = rng.choice([1, 1, 2])
  names = list(range(1, n + 2))
  sc = {'kind': kind, 's0': list(range(1, n + 1)), 'rseed': rng.randint(0, 10 ** 6), 'pol': rng.choice(['sync', 'sync', 'auto']),
        'shuffle_id': True, 'load': {'mode': 'nonblock'}}
  first_ok = n if kind == 'heap' else m       # channels opened by the balancer's own Open(): never raising here
  if kind == 'aperture':
    ap = dict(AP_FIXED) if rng.random() < 0.7 else {'min_load': 0.5, 'max_load': 2.0, 'jitter_min': 0, 'jitter_max': 0}
    ap.update(min_size=m, max_size=2 ** 31)
    sc['ap'] = ap
  sc['ofail_ep'] = [[e, k] for e in names for k in ((2, 3) if e <= first_ok else (1, 2)) if rng.random() < 0.4]
  ops = [['open'], ['settle']]
  w = dict(disp=18, comp=8, chan=14, leave=30, join=22, settle=6, opendone=2)
  keys = sorted(w)
  tot = sum(w.values())
  for _ in range(rng.randint(8, 26)):
    x = rng.randrange(tot)
    for kk in keys:
      if x < w[kk]:
        break
      x -= w[kk]
    if kk == 'disp':
      ops.append(['disp', 1 if rng.random() < 0.5 else 0, 0])
    elif kk == 'comp':
      ops.append(['comp', rng.randrange(64), rng.choice(['reply', 'error']), 0])
    elif kk == 'chan':
      ops.append(['chan', rng.randrange(64), rng.choice([4, 4, 4, 2, 3])])
    elif kk == 'leave':
      ops.append(['leave', rng.choice(names), -1])
    elif kk == 'join':
      ops.append(['join', rng.choice(names), -1])
    elif kk == 'settle':
      ops.append(['settle'])
    elif kk == 'opendone':
      ops.append(['opendone', rng.randrange(8), 1, -1])
  if rng.random() < 0.5:
    ops.append(['probe'])
  sc['ops'] = ops
  return sc


def _family_contract_dead():
  """Aperture with jitter (and with load-based resizing): a member of the aperture dies (channel Closed,
  still in the server set); a dispatch marks it down and pulls in a replacement; the jitter timer adds
  one more node and then contracts the aperture - the dead node is the one taken out and handed back to
  the idle set; a duplicate join for it; the other members leave; a request.  Enumerated: min_size 1-2 x
  4 / 6 / 8 members x the member that dies x random seed (which idle endpoints the draws pick) x
  jitter / load peak as the cause of the contraction."""
  out = []
  for m in (1, 2):
    for n in (4, 6, 8):
      for victim in range(1, m + 1):
        for rs in (1, 2, 3, 4):
          for cause in ('jitter', 'load'):
            ops = [['open'], ['settle'], ['chan_n', victim, 4], ['disp', 1, 0], ['settle']]
            if cause == 'jitter':
              ops += [['adv', 2500], ['settle'], ['comp', 0, 'reply', 0], ['adv', 2500], ['settle']]
            else:
              ops += [['disp', 1, 0]] * 6 + [['adv', 1000]] + [['disp', 1, 0]] * 4 + [['adv', 3000], ['settle']]
              ops += [['comp', 0, 'reply', 0], ['adv', 4000]] * 11 + [['settle']]
            ops += [['join', victim, -1], ['settle']]
            ops += [['leave', e, -1] for e in range(1, n + 1) if e != victim] + [['settle'], ['disp', 0, 0], ['settle'], ['probe']]
            ap = {'min_size': m, 'max_size': 2 ** 31, 'min_load': 0.5, 'max_load': 2.0,
                  'jitter_min': 2 if cause == 'jitter' else 0, 'jitter_max': 2 if cause == 'jitter' else 0}
            out.append({'kind': 'aperture', 's0': list(range(1, n + 1)), 'rseed': rs, 'pol': 'sync', 'shuffle_id': True,
                        'load': {'mode': 'nonblock'}, 'ap': ap, 'ops': ops})
  return out


def _gen_contract_dead(rng):
  """Random aperture histories with jitter and load-based resizing ON and time advancing: members die
  and come back, load peaks and decays, joins / leaves, duplicate joins."""
  m = rng.choice([1, 1, 2, 3])
  n = m + rng.randint(2, 6)
  names = list(range(1, n + 2))
  jm = rng.choice([0, 2, 2, 3])
  ap = {'min_size': m, 'max_size': rng.choice([n, 2 ** 31]), 'min_load': rng.choice([0.3, 0.5]),
        'max_load': rng.choice([1.0, 1.5, 2.0]), 'jitter_min': jm, 'jitter_max': jm + rng.choice([0, 0, 2]) if jm else 0}
  sc = {'kind': 'aperture', 's0': list(range(1, n + 1)), 'rseed': rng.randint(0, 10 ** 6), 'pol': rng.choice(['sync', 'sync', 'auto']),
        'load': {'mode': 'nonblock'}, 'ap': ap}
  ops = [['open'], ['settle']]
  w = dict(disp=26, comp=20, chan=12, adv=18, settle=6, leave=8, join=8, opendone=2)
  keys = sorted(w)
  tot = sum(w.values())
  for _ in range(rng.randint(12, 40)):
    x = rng.randrange(tot)
    for kk in keys:
      if x < w[kk]:
        break
      x -= w[kk]
    if kk == 'disp':
      ops.append(['disp', 1, 0])
    elif kk == 'comp':
      ops.append(['comp', rng.randrange(64), rng.choice(['reply', 'reply', 'error']), 0])
    elif kk == 'chan':
      ops.append(['chan', rng.randrange(64), rng.choice([4, 4, 4, 2, 2, 3])])
    elif kk == 'adv':
      ops.append(['adv', rng.choice([1000, 2500, 2500, 4000, 6000])])
    elif kk == 'settle':
      ops.append(['settle'])
    elif kk == 'leave':
      ops.append(['leave', rng.choice(names), -1])
    elif kk == 'join':
      ops.append(['join', rng.choice(names), -1])
    elif kk == 'opendone':
      ops.append(['opendone', rng.randrange(8), 1, -1])
  ops.append(['settle'])
  if rng.random() < 0.5:
    ops.append(['probe'])
  sc['ops'] = ops
  return sc


def _family_late_openfail():
  """A member joins (or is pulled into the aperture) and its channel's Open() is still pending; the same
  member leaves (the node is removed, the channel closed); the pending Open() then FAILS (the open
  result completes with an error, the balancer's continuation runs for a node that is gone); 1-2 other
  members leave - in every order relative to the open failure; dispatches.  Enumerated: heap with 2-5
  members, aperture with min_size 1 (the pending channel is a replacement pulled in by a dispatch) and 2
  (a join below min_size; a replacement after a leave) x every order of {open fails, leave a[, leave b]}
  x the failure scripted late / raised by Close() itself (as the mux transport does)."""
  import itertools
  out = []
  shapes = []
  for n in (2, 3, 4, 5):
    shapes.append(('heap', 0, list(range(1, n + 1)), [['join', n + 1, -1]], n + 1, [1, 2]))
  shapes.append(('aperture', 2, [1], [['join', 2, -1]], 2, [1]))
  shapes.append(('aperture', 2, [1, 2, 3, 4], [['leave', 1, -1]], 3, [2, 4]))          # replacement of 1 = least idle
  shapes.append(('aperture', 1, [1, 2, 3], [['chan_n', 1, 4], ['disp', 0, 0, [0]], ['settle']], 2, [1, 3]))
  shapes.append(('aperture', 2, [1, 2, 3, 4], [['chan_n', 1, 4], ['disp', 0, 0, [0]], ['settle']], 3, [2, 4]))
  for kind, minsz, s0, enter, m, others in shapes:
    for k in (1, 2):
      oth = others[:k]
      if len(oth) < k:
        continue
      for cfo in (0, 1):
        steps = [('L', e) for e in oth] + ([] if cfo else [('F', 0)])
        for order in itertools.permutations(steps):
          ops = [['open'], ['settle'], ['pol', 'manual']] + enter + [['leave', m, -1]]
          for what, e in order:
            ops.append(['opendead', 0, -1] if what == 'F' else ['leave', e, -1])
          ops += [['pol', 'sync'], ['settle']] + [['disp', 0, 0]] * (len(s0) + 2) + [['settle'], ['probe']]
          sc = {'kind': kind, 's0': s0, 'rseed': 1, 'pol': 'sync', 'shuffle_id': True, 'load': {'mode': 'nonblock'},
                'close_fails_open': cfo, 'ops': ops}
          if kind == 'aperture':
            ap = dict(AP_FIXED)
            ap.update(min_size=minsz, max_size=2 ** 31)
            sc['ap'] = ap
          out.append(sc)
  return out


def _gen_late_openfail(rng, kind):
  """Random join / leave / traffic histories with script-completed Open() results: opens succeed or fail
  at random points, also after the channel's member has left (late failure) or inside Close()."""
  n = rng.choice([1, 2, 3, 4, 5])
  names = list(range(1, n + 3))
  sc = {'kind': kind, 's0': list(range(1, n + 1)), 'rseed': rng.randint(0, 10 ** 6), 'pol': 'sync',
        'load': {'mode': 'nonblock'}, 'close_fails_open': 1 if rng.random() < 0.4 else 0}
  if kind == 'aperture':
    ap = dict(AP_FIXED) if rng.random() < 0.7 else {'min_load': 0.5, 'max_load': 2.0, 'jitter_min': 0, 'jitter_max': 0}
    ap.update(min_size=rng.choice([1, 2, 2, 3]), max_size=2 ** 31)
    sc['ap'] = ap
  ops = [['open'], ['settle'], ['pol', 'manual']]
  w = dict(disp=18, comp=8, chan=8, leave=26, join=22, opendone=6, opendead=9, settle=3)
  keys = sorted(w)
  tot = sum(w.values())
  for _ in range(rng.randint(8, 26)):
    x = rng.randrange(tot)
    for kk in keys:
      if x < w[kk]:
        break
      x -= w[kk]
    if kk == 'disp':
      ops.append(['disp', 1 if rng.random() < 0.5 else 0, 0])
    elif kk == 'comp':
      ops.append(['comp', rng.randrange(64), rng.choice(['reply', 'error']), 0])
    elif kk == 'chan':
      ops.append(['chan', rng.randrange(64), rng.choice([4, 4, 2, 3])])
    elif kk == 'leave':
      ops.append(['leave', rng.choice(names), -1])
    elif kk == 'join':
      ops.append(['join', rng.choice(names), -1])
    elif kk == 'opendone':
      ops.append(['opendone', rng.randrange(8), 1 if rng.random() < 0.6 else 0, -1])
    elif kk == 'opendead':
      ops.append(['opendead', rng.randrange(8), -1])
    elif kk == 'settle':
      ops.append(['settle'])
  ops += [['opendead', 0, -1], ['settle']] + [['disp', 0, 0]] * rng.randint(1, 4)
  if rng.random() < 0.6:
    ops.append(['probe'])
  sc['ops'] = ops
  return sc


def _family_c05(kinds=('heap', 'aperture')):
  """Every history of <= 2 notifications over 2 names while GetServers blocks, x <= 1 after the
  release, x initial set x early/late snapshot: the init-gate space, enumerated."""
  import itertools
  notes = [(k, e) for k in ('join', 'leave') for e in (1, 2)]
  before = [()] + [(a,) for a in notes] + list(itertools.product(notes, notes))
  after = [()] + [(a,) for a in notes]
  out = []
  for kind in kinds:
    for s0 in ([], [1]):
      for mode in ('early', 'late'):
        for bf in before:
          for af in after:
            ops = [['open'], ['settle']]
            ops += [[k, e, -1] for k, e in bf]
            ops += [['release', -1]]
            ops += [[k, e, -1] for k, e in af]
            ops += [['settle']]
            sc = {'kind': kind, 's0': s0, 'rseed': 0, 'pol': 'auto', 'load': {'mode': mode}, 'ops': ops}
            if kind == 'aperture':
              sc['ap'] = {'min_size': 1, 'max_size': 2, 'min_load': 0.5, 'max_load': 2.0}
            out.append(sc)
  return out


def _family_small():
  """Few or no members: the no-members path, the last member leaving (idle or loaded), re-joins."""
  out = []
  for kind in ('heap', 'aperture'):
    for pol in ('auto', 'sync', 'manual'):
      fam = [
        ([], [['disp', 0, 0], ['disp', 1, 0], ['join', 1, -1], ['disp', 0, 0], ['leave', 1, -1], ['disp', 0, 0]]),
        ([1], [['disp', 0, 0], ['comp', 0, 'reply', 0], ['leave', 1, -1], ['disp', 0, 0], ['join', 1, -1],
               ['disp', 0, 0], ['leave', 1, -1], ['disp', 0, 0], ['comp', 0, 'timeout', 0], ['late', 0]]),
        ([1, 2], [['disp', 0, 0], ['disp', 0, 0], ['leave', 1, -1], ['leave', 2, -1], ['disp', 0, 0],
                  ['comp', 0, 'reply', 0], ['comp', 0, 'error', 0], ['disp', 0, 0], ['join', 2, -1], ['disp', 0, 0]]),
        ([1, 2], [['chan', 0, 4], ['chan', 1, 4], ['disp', 0, 0], ['disp', 0, 1], ['leave', 1, -1], ['leave', 2, -1],
                  ['disp', 0, 0]]),
      ]
      for s0, ops in fam:
        sc = {'kind': kind, 's0': s0, 'rseed': 1, 'pol': pol, 'load': {'mode': 'nonblock'},
              'ops': [['open'], ['settle']] + ops + [['probe']]}
        if kind == 'aperture':
          sc['ap'] = {'min_size': 1, 'max_size': 2, 'min_load': 0.5, 'max_load': 2.0}
        out.append(sc)
  return out


def _family_parked():
  """Requests handed to the balancer BEFORE its Open() completes, some carrying a deadline
  (Deadline.EVENT_KEY), the driver playing ClientTimeoutSink: the timeout fires at every position
  relative to the open completion - well before it, after j = 0..15 loop callbacks, exactly between
  __open_ar.set() and the parked calls' link callbacks, and after the parked call was dispatched."""
  out = []
  tail = [['comp', 0, 'reply', 0], ['comp', 0, 'reply', 0], ['comp', 0, 'error', 0], ['leave', 1, -1],
          ['leave', 2, -1], ['settle'], ['join', 1, -1], ['probe']]
  for kind in ('heap', 'aperture'):
    for pol in ('manual', 'sync', 'auto'):
      pre = [['pol', pol], ['open'], ['disp_dl', 0], ['disp', 0, 0], ['disp_dl', 1]]
      mid = [['cb_chan'], ['opendone', 0, 1, 0]] if pol == 'manual' else []
      variants = [pre + mid + [['cb', j], ['tmo', 0], ['settle'], ['tmo', 0], ['settle']] for j in range(16)]
      variants.append(pre + mid + [['cb_open'], ['tmo', 0], ['cb', 1], ['tmo', 0], ['settle']])
      variants.append(pre + mid + [['cb_open'], ['tmo', 1], ['tmo', 0], ['settle']])
      variants.append(pre + [['tmo', 0]] + mid + [['settle'], ['tmo', 0], ['settle']])
      variants.append(pre + mid + [['settle'], ['tmo', 0], ['tmo', 0], ['settle']])
      for ops in variants:
        sc = {'kind': kind, 's0': [1, 2], 'rseed': 1, 'pol': pol, 'load': {'mode': 'nonblock'}, 'ops': ops + tail}
        if kind == 'aperture':
          sc['ap'] = {'min_size': 2, 'max_size': 2, 'min_load': 0.5, 'max_load': 2.0}
        out.append(sc)
  return out


def _gen_parked(rng, kind):
  """Random variant of _family_parked: several parked calls, timeouts at random loop positions."""
  n = rng.choice([1, 2, 3])
  pol = rng.choice(['manual', 'sync', 'auto'])
  sc = {'kind': kind, 's0': list(range(1, n + 1)), 'rseed': rng.randint(0, 10 ** 6), 'pol': pol,
        'load': {'mode': rng.choice(['nonblock', 'nonblock', 'late'])}}
  if kind == 'aperture':
    sc['ap'] = {'min_size': rng.choice([1, 2]), 'max_size': 3, 'min_load': 0.5, 'max_load': 2.0}
  ops = [['pol', pol], ['open']]

  def some():
    for _ in range(rng.randint(0, 3)):
      x = rng.random()
      if x < 0.45:
        ops.append(['disp_dl', rng.randint(0, 1)])
      elif x < 0.6:
        ops.append(['disp', 0, 0])
      elif x < 0.85:
        ops.append(['tmo', rng.randrange(8)])
      else:
        ops.append(['cb', rng.randint(1, 3)])
  ops.append(['disp_dl', 0])
  some()
  ops.append(['step', rng.choice([0, 1, 1, 2])])
  some()
  if sc['load']['mode'] != 'nonblock':
    ops.append(['release', rng.choice([0, 1, 2])])
    some()
  if pol == 'manual':
    ops.append(['cb_chan'])
    ops.append(['opendone', rng.randrange(4), 1 if rng.random() < 0.8 else 0, 0])
  ops.append(rng.choice([['cb_open'], ['cb', rng.randint(0, 12)]]))
  for _ in range(rng.randint(1, 4)):
    ops.append(rng.choice([['tmo', rng.randrange(8)], ['tmo', rng.randrange(8)], ['cb', 1], ['disp_dl', 0]]))
  ops.append(['settle'])
  for _ in range(rng.randint(2, 8)):
    x = rng.random()
    if x < 0.3:
      ops.append(['comp', rng.randrange(8), rng.choice(['reply', 'error', 'timeout']), 0])
    elif x < 0.5:
      ops.append(['tmo', rng.randrange(8)])
    elif x < 0.7:
      ops.append(['disp_dl', 0])
    else:
      ops.append(['leave', rng.randint(1, n), -1])
  ops.append(['probe'])
  sc['ops'] = ops
  return sc


def cases(prop, tier, seed):
  rng = random.Random(7919 * int(seed) + {'C03': 3, 'C04': 4, 'C05': 5}[prop])
  quick = tier == 'quick'
  out = []
  if prop == 'C03':
    fam = _family_c03()
    out.extend(fam if not quick else fam[::2])
    out.extend(_family_small())
    n = 750 if quick else 8000
    for i in range(n):
      sc = _gen_traffic(rng, 'heap' if i % 3 else 'aperture', prop)
      if i % 5 == 4:
        sc['cflush_all'] = 1      # channels that fail their pending requests inside Close()
      out.append(sc)
    fam = _family_aperture_down()
    out.extend(fam if not quick else fam[int(seed) % 4::4])
    for i in range(100 if quick else 2000):
      out.append(_gen_aperture_down(rng, prop))
    fam = _family_early_join()
    out.extend(fam if not quick else fam[int(seed) % 2::2])
    for i in range(60 if quick else 1000):
      out.append(_gen_early_join(rng, 'heap' if i % 2 else 'aperture'))
    fam = _family_flush_close()
    out.extend(fam if not quick else fam[int(seed) % 2::2])
    for i in range(60 if quick else 1000):
      out.append(_gen_flush_close(rng, 'heap' if i % 3 else 'aperture'))
  elif prop == 'C04':
    out.extend(_family_small())
    out.extend(_family_parked())
    for i in range(150 if quick else 1500):
      out.append(_gen_parked(rng, 'heap' if i % 2 else 'aperture'))
    n = 980 if quick else 8000
    for i in range(n):
      sc = _gen_traffic(rng, 'heap' if i % 3 else 'aperture', prop)
      if i % 5 == 4:
        sc['cflush_all'] = 1
      out.append(sc)
    for i in range(80 if quick else 1000):
      out.append(_gen_aperture_down(rng, prop))
    fam = _family_flush_close()
    out.extend(fam if not quick else fam[int(seed) % 3::3])
    for i in range(40 if quick else 800):
      out.append(_gen_flush_close(rng, 'heap' if i % 3 else 'aperture'))
    fam = _family_late_openfail()
    out.extend(fam if not quick else fam[int(seed) % 3::3])
    for i in range(20 if quick else 600):
      out.append(_gen_late_openfail(rng, 'heap' if i % 2 else 'aperture'))
  else:
    n = 550 if quick else 4000
    for i in range(n):
      out.append(_gen_traffic(rng, 'heap' if i % 2 else 'aperture', prop))
    for i in range(n):
      out.append(_gen_gate(rng, 'heap' if i % 2 else 'aperture'))
    fam = _family_c05()
    out.extend(fam[int(seed) % 3::3] if quick else fam)
    fam = _family_closefail()
    out.extend(fam[int(seed) % 2::2] if quick else fam)
    for i in range(120 if quick else 2500):
      out.append(_gen_closefail(rng, 'heap' if i % 2 else 'aperture'))
    fam = _family_open_raises()
    out.extend(fam if not quick else fam[int(seed) % 2::2])
    for i in range(60 if quick else 1000):
      out.append(_gen_open_raises(rng, 'aperture' if i % 4 else 'heap'))
    fam = _family_contract_dead()
    out.extend(fam if not quick else fam[int(seed) % 2::2])
    for i in range(80 if quick else 1500):
      out.append(_gen_contract_dead(rng))
    fam = _family_late_openfail()
    out.extend(fam if not quick else fam[int(seed) % 2::2])
    for i in range(40 if quick else 1000):
      out.append(_gen_late_openfail(rng, 'heap' if i % 2 else 'aperture'))
  return out


def nontrivial(prop, t):
  ev = t['ev']
  if prop == 'C03':
    disp = [i for i, e in enumerate(ev) if e['e'] == 'Disp' and len(e.get('U', [])) >= 2]
    if len(disp) < 3:
      return None
    last = disp[-1]
    if not any(e['e'] in ('Comp', 'Chan', 'LeaveDone', 'JoinDone') for e in ev[:last]):
      return None
  elif prop == 'C04':
    comp = any(e['e'] == 'Comp' for e in ev)
    used = set(e['n'] for e in ev if e['e'] == 'Disp' and e['n'] != -1)
    eps = {}
    for e in ev:
      if e['e'] == 'Create':
        eps[e['n']] = e['ep']
    used_eps = set(eps.get(n) for n in used)
    left = any(e['e'] == 'LeaveDone' and e['ep'] in used_eps for e in ev)
    late = any(e['e'] == 'Late' for e in ev)
    if not ((comp and left) or late):
      return None
  else:
    notes = [e for e in ev if e['e'] in ('Join', 'Leave')]
    if len(notes) < 2:
      return None
    S = set(t['cfg']['s0'])
    ever = set(S)
    odd = False
    loaded = False
    for e in ev:
      if e['e'] == 'Snap':
        loaded = True
      elif e['e'] == 'Join':
        if e['ep'] in S or e['ep'] in ever or not loaded:
          odd = True
        S.add(e['ep'])
        ever.add(e['ep'])
      elif e['e'] == 'Leave':
        if e['ep'] not in S or not loaded:
          odd = True
        S.discard(e['ep'])
    if not odd:
      return None
  return common.canon(ev)


def witness(prop, t, consumed, clause):
  w = {'kind': t['cfg']['kind']}
  ev = t['ev']
  if consumed < len(ev):
    e = ev[consumed]
    if e['e'] == 'Disp':
      u = e.get('U', [])
      w['members'] = len(u)
      w['six_plus'] = len(u) >= 6          # the heap-order defect of heap.py needs >= 6 array slots
      w['chosen_open'] = bool(e.get('st') == 2)
  return w


def extra_coverage(prop, tier, traces):
  deg = {}
  kinds = {}
  comp = {}
  for t in traces:
    for d in (t.get('meta') or {}).get('degraded', []):
      deg[d] = deg.get(d, 0) + 1
    kinds[t['cfg']['kind']] = kinds.get(t['cfg']['kind'], 0) + 1
    for e in t['ev']:
      if e['e'] == 'Comp':
        comp[e['kind']] = comp.get(e['kind'], 0) + 1
  grow = 0      # dispatches during which the aperture admitted a member although it already had some
  xclose = 0    # Close() calls that raised
  for t in traces:
    ev = t['ev']
    for i, e in enumerate(ev):
      if e['e'] == 'Disp' and e.get('U') and i > 0 and ev[i - 1]['e'] == 'Create':
        grow += 1
      elif e['e'] == 'CloseSeen' and e.get('x'):
        xclose += 1
  return {'degraded_projections': deg, 'traces_by_kind': kinds, 'completions_by_kind': comp,
          'dispatches_with_aperture_growth': grow, 'closes_that_raised': xclose}


# ====================================================================== direction A
SIM_HEAP = {'C03': ('HeapBalancer_sim7.cfg', 40), 'C04': ('HeapBalancer_sim4.cfg', 40)}
SIM_AP = ('HeapBalancer_simap.cfg', 30, 2)      # cfg, depth, its MinSize


def _heap_script(beh, aperture=None):
  """Translate one HeapBalancer behaviour into a driver script + expected projections.
  aperture = {'min_size': MinSize} for behaviours of an Aperture = TRUE configuration (driven on the
  real ApertureBalancerSink, load-based resizing and jitter off): the action parameters `pick`
  (random.choice of _TryExpandAperture) and `nst` (the new channel opens at once / is still opening)
  are forced on the real object."""
  st0 = beh[0][1]
  init_n = len(st0['heap']) + len(st0.get('idle', []))
  ops = [['pol', 'sync'], ['open'], ['settle']]
  expect = [None, None, None]
  closed_new = None

  def choice_of(prev, pick):
    idle = sorted(prev.get('idle', []))
    return [idle.index(pick) if pick in idle else 0, 0, 0, 0, 0, 0]

  prev = st0
  for (act, st) in beh[1:]:
    name, prm = act
    if name == 'Dispatch':
      if aperture:
        ops.append(['pol', 'sync' if prm[1] == 2 else 'manual'])
        expect.append(None)
        ops.append(['disp', 0, 0, choice_of(prev, prm[0])])
      else:
        ops.append(['disp', 0, 0])
    elif name == 'Put':
      ops.append(['comp_n', prm[0], prm[2], prm[1]])
    elif name == 'LateArrive':
      ops.append(['late_n', prm[0]])
    elif name in ('AddSink', 'JoinDup'):
      if name == 'AddSink':
        n_new = sum(1 for x in st['ns'] if x != 'free')
        if aperture:
          closed_new = True       # Faults = TRUE in the aperture configurations: new channels are still opening
        elif closed_new is None:
          closed_new = st['chan'][n_new - 1] != 2
        ops.append(['pol', 'manual' if closed_new else 'sync'])
        expect.append(None)
      ops.append(['join', prm[0], -1])
    elif name in ('RemoveSink', 'LeaveUnknown'):
      if aperture and name == 'RemoveSink':
        ops.append(['pol', 'sync' if prm[2] == 2 else 'manual'])
        expect.append(None)
        ops.append(['leave', prm[0], -1, choice_of(prev, prm[1])])
      else:
        ops.append(['leave', prm[0], -1])
    elif name == 'ChanFlip':
      ops.append(['chan_n', prm[0], prm[1]])
    else:
      raise ValueError('unknown action %r' % (act,))
    load = st['load']
    P = 100
    heap = [[n, load[n - 1] - (P if load[n - 1] >= P else 0), 1 if load[n - 1] >= P else 0, i + 1]
            for i, n in enumerate(st['heap'])]
    exp = {'heap': heap, 'downq': list(st['downq']), 'size': len(st['heap'])}
    if aperture:
      exp['idle'] = sorted(st.get('idle', []))
    expect.append(exp)
    prev = st
  script = {'kind': 'heap', 's0': list(range(1, init_n + 1)), 'rseed': 0, 'pol': 'sync', 'shuffle_id': True,
            'load': {'mode': 'nonblock'}, 'ops': ops, 'impl': True}
  if aperture:
    ap = dict(AP_FIXED)
    ap.update(min_size=aperture['min_size'], max_size=2 ** 31)
    script.update(kind='aperture', ap=ap)
  return script, expect


_MV = {'e1': 1, 'e2': 2, 'e3': 3, 'e4': 4}


def _lb_script(beh):
  """Translate one LbBase behaviour into an env-level driver script (quiescing after every
  environment action) + expected projections at the model's quiescent states."""
  def mv(x):
    return _MV.get(x, x)
  st0 = beh[0][1]
  ops = []
  expect = []
  prev = st0
  for (act, st) in beh[1:]:
    name, prm = act
    if name == 'CallOpen':
      ops.append(['open'])
    elif name == 'OpenStart':
      if prm[0]:
        ops.append(['failnext'])
        expect.append(None)
      ops.append(['settle'] if prev['opc'] == 'spawned' else ['adv', 5000])
    elif name == 'LoadFinish':
      ops.append(['release', -1, 1 if prm[0] else 0])
    elif name == 'Notify':
      ops.append(['join' if prm[0] == 'J' else 'leave', mv(prm[1]), 0 if prev['opc'] == 'spawned' else -1])
    elif name == 'WorkerRun':
      prev = st
      continue
    else:
      raise ValueError('unknown action %r' % (act,))
    quiescent = st['wpc'] != 'ready' and st['opc'] != 'spawned'
    if quiescent:
      live = st['live']
      heap_eps = sorted(mv(e) for e in live for _ in live[e])
      expect.append({'servers': sorted(mv(e) for e in st['servers']), 'heap_eps': heap_eps,
                     'init_done': bool(st['initDone'])})
    else:
      expect.append(None)
    prev = st
  script = {'kind': 'heap', 's0': sorted(mv(e) for e in st0['T']), 'rseed': 0, 'pol': 'auto', 'shuffle_id': True,
            'load': {'mode': 'late'}, 'ops': ops, 'impl': True,
            'cfail': [[n, 1] for n in _bad_close('LbBase_sim.cfg')]}      # the model's BadClose: those Close() calls raise
  return script, expect


_BAD_CLOSE = {}


def _bad_close(cfg):
  """The constant BadClose of an LbBase cfg (node objects, in creation order, whose Close() raises)."""
  if cfg not in _BAD_CLOSE:
    import os
    import re
    txt = open(os.path.join(tlc.SPECS, cfg)).read()
    m = re.search(r'BadClose\s*=\s*\{([^}]*)\}', txt)
    _BAD_CLOSE[cfg] = sorted(int(x) for x in m.group(1).replace(' ', '').split(',') if x) if m else []
  return _BAD_CLOSE[cfg]


def _replay_case(job):
  script, expect, which = job['script'], job['expect'], job['which']
  o = _drive(script)
  drift = None
  steps = 0
  impl = o.get('impl') or []
  for i, (exp, real) in enumerate(zip(expect, impl)):
    if exp is None:
      continue
    if real is None:
      drift = {'step': i, 'op': script['ops'][i], 'spec': exp, 'real': 'projection unavailable'}
      break
    steps += 1
    if which == 'heap':
      got = {'heap': real['heap'], 'downq': real['downq'], 'size': real['size']}
      if 'idle' in exp:
        got['idle'] = real.get('idle')
    else:
      got = {'servers': real['servers'], 'heap_eps': real.get('heap_eps', []), 'init_done': real['init_done']}
    if got != exp:
      drift = {'step': i, 'op': script['ops'][i], 'spec': exp, 'real': got}
      break
  return {'cfg': o['cfg'], 'ev': o['ev'], 'meta': o['meta'], 'steps': steps, 'drift': drift}


def _counterexample_job():
  """TLC's shortest counterexample on the model of heap.py AS FOUND (Repaired = FALSE), as a script for
  the real class: it reproduces there iff the tree under check still has the defect."""
  import re
  r = tlc.run_tlc('HeapBalancer', 'HeapBalancer_6u.cfg', workers=4, timeout=900)
  if r.violated != 'NoViolation':
    raise RuntimeError('HeapBalancer_6u.cfg: expected a counterexample, got %r %r' % (r.violated, r.error))
  acts = re.findall(r'^State \d+: <(\w+)(?:\(([^)]*)\))? line', r.stdout, re.M)
  ops = [['pol', 'sync'], ['open'], ['settle']]
  for name, prm in acts:
    if name == 'Dispatch':
      ops.append(['disp', 0, 0])
    elif name == 'Put':
      p = tlc.parse_tla('<<' + prm + '>>')
      ops.append(['comp_n', p[0], p[2], p[1]])
    elif name != 'Init':
      raise RuntimeError('unexpected action %r in the counterexample' % name)
  sc = {'kind': 'heap', 's0': [1, 2, 3, 4, 5, 6], 'rseed': 0, 'pol': 'sync', 'shuffle_id': True,
        'load': {'mode': 'nonblock'}, 'ops': ops, 'impl': True}
  return {'script': sc, 'expect': [None] * len(ops), 'which': 'heap'}


def replay_behaviours(prop, tier, seed):
  quick = tier == 'quick'
  jobs = []
  if prop == 'C03':
    jobs.append(_counterexample_job())
  if prop in SIM_HEAP:
    cfg, depth = SIM_HEAP[prop]
    num = 250 if quick else 2500
    r, behs = tlc.simulate_behaviours('HeapBalancer', cfg, num=num, depth=depth, seed=int(seed) + 1, timeout=900)
    if not behs:
      raise RuntimeError('no behaviours from TLC simulate:\n' + r.stdout[-2000:])
    for b in behs:
      sc, ex = _heap_script(b)
      jobs.append({'script': sc, 'expect': ex, 'which': 'heap'})
    # the same on the real ApertureBalancerSink: behaviours of the Aperture = TRUE model (growth inside __Get)
    num = 80 if quick else 1500
    r, behs = tlc.simulate_behaviours('HeapBalancer', SIM_AP[0], num=num, depth=SIM_AP[1], seed=int(seed) + 1, timeout=900)
    if not behs:
      raise RuntimeError('no behaviours from TLC simulate:\n' + r.stdout[-2000:])
    for b in behs:
      sc, ex = _heap_script(b, aperture={'min_size': SIM_AP[2]})
      jobs.append({'script': sc, 'expect': ex, 'which': 'heap'})
  else:
    num = 300 if quick else 2500
    r, behs = tlc.simulate_behaviours('LbBase', 'LbBase_sim.cfg', num=num, depth=14, seed=int(seed) + 1, timeout=900)
    if not behs:
      raise RuntimeError('no behaviours from TLC simulate:\n' + r.stdout[-2000:])
    for b in behs:
      sc, ex = _lb_script(b)
      jobs.append({'script': sc, 'expect': ex, 'which': 'lb'})
  res = common.run_forked(_replay_case, jobs)
  errs = [x['err'] for x in res if 'err' in x]
  if errs:
    raise RuntimeError('replay failed: ' + errs[0])
  traces, drift, steps = [], [], 0
  for j, x in zip(jobs, res):
    o = x['ok']
    steps += o['steps']
    if o['drift']:
      drift.append(o['drift'])
    sc = dict(j['script'])
    sc.pop('impl', None)
    traces.append({'cfg': o['cfg'], 'ev': o['ev'], 'meta': o['meta'], 'script': sc})
  return {'summary': {'behaviours_replayed': len(jobs), 'steps_compared': steps, 'drift': len(drift)},
          'traces': traces, 'drift': drift}
