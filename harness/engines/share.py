"""Engine `share` (C16): SingletonPoolSink, RefCountedSink, SharedSinkProvider.

Specs: ShareAbs (oracle), ShareAbsTrace (batched validation), SingletonPool and RefCounted
(code-shaped).  The components under test are the real classes from /repo; below them sits
a counting provider whose connections are mocks: Open() returns a result the *driver*
completes (success / failure) when it chooses, the driver flips their state and fires
on_faulted.  Only calls that reach that layer (CreateSink / Open / Close / which request
reached which connection) and the holders' own API calls are logged.

Direction B: systematic enumeration of short histories (quiescing after every call) plus
seeded random longer histories in which calls land while callbacks are still queued.
Direction A: TLC -simulate behaviours of SingletonPool / RefCounted single-stepped on the real
objects (RunTask = one loop callback) with projection compare (_ref_count, next_sink,
queued callbacks, connection states).
"""
import itertools
import random

from harness import common, tlc

NAME = 'share'
PROPS = ['C16']
LEVEL = {'C16': 'model_checking'}
TRACE_MODULE = 'ShareAbsTrace'
TRACE_CFG = 'ShareAbsTrace.cfg'
TRACE_CHUNK = 3000
ASSUMPTIONS = [
  'virtual-time gevent loop preserves gevent callback FIFO order (selftest)',
  'underlying connections are mocks: Open() hands out one pending result per opening that the environment '
  'completes; a connection reports Idle until its open completes, Open/Busy afterwards, Closed once it failed, '
  'died or was closed; an open completed on a dead connection completes as a failure; a connection holds the '
  'requests it receives until the environment answers them (reply, or error once the connection is dead)',
  'surplus closes / close-on-last-holder are asserted for RefCountedSink only (as in the statement); '
  'SingletonPoolSink is held to: at most one live connection, shared by all requests, replaced after failure',
  '"holder alive" for the sharing key = the holder still references the sink it got from CreateSink '
  '(CPython reference counting; the driver also runs gc.collect() after a drop)',
  'TLC exhaustive only within the stated constants',
]
RULE = {'C16': 'singleton: every history over {Open, Close, Request, open-completes, open-fails, connection-dies} up '
               'to the tier length with a quiescent point after each call, every history that puts a request in flight '
               'and continues with requests / failure / late answer of the held request / open-completes / close '
               '(mock connections hold requests until the driver answers them), plus seeded random longer histories '
               'with calls landing between loop quanta; refcounted: every Open/Close word up to the tier length, '
               'random words with underlying failures; provider: every word over get(h,key)/open/close/drop for '
               '2 holders x 2 keys up to the tier length plus random words for 3 holders; non-trivial = at least '
               'one underlying call was observed and at least 3 API calls; distinct by canonical event list'}


def models(prop, tier):
  ms = [
    dict(module='SingletonPool', cfg='SingletonPool_q.cfg', coverage=True, workers=6,
         what='SingletonPoolSink: 2 holder opens, 2 closes (incl. surplus / re-open), 2 requests, <=3 connections, '
              '1 failure (open fails or connection dies at any point); every interleaving of calls, open '
              'completions and failures with the loop quanta (yield at Open().wait() in _Get)'),
    dict(module='RefCounted', cfg='RefCounted_q.cfg', coverage=True, workers=4,
         what='RefCountedSink + SharedSinkProvider: 3 holders, 2 keys, all get/open/close/drop histories up to 7 calls'),
    dict(module='SingletonPool', cfg='SingletonPool_eager.cfg', expect_violation='NoViolation', workers=2,
         what='documented variant (EagerRelease): _Release drops the current sink when the response came back on a '
              'closed one; TLC counterexample to C16.single (request in flight, failure, replacement, late error '
              'response, next request opens a second live connection)'),
    dict(module='SingletonPool', cfg='SingletonPool_lost.cfg', expect_violation='NoLostRequest', workers=2,
         what='growth, outside C16: TLC witness that a request is lost (its _Get returns None) when Close() lands '
              'while the request waits for the open'),
  ]
  if tier != 'quick':
    ms += [
      dict(module='SingletonPool', cfg='SingletonPool_t.cfg', workers=8, timeout=3000, heap='16g',
           what='SingletonPoolSink: 2 opens, 2 closes, 2 requests, <=3 connections, 2 failures'),
      dict(module='SingletonPool', cfg='SingletonPool_t2.cfg', workers=8, timeout=3000, heap='16g',
           what='SingletonPoolSink: 3 opens, 3 closes, 2 requests, <=3 connections, 1 failure'),
      dict(module='RefCounted', cfg='RefCounted_t.cfg', workers=8, timeout=3000,
           what='RefCountedSink + SharedSinkProvider: 3 holders, 2 keys, histories up to 10 calls'),
    ]
  return ms


def _preload():
  """Import gevent in the parent so forked children do not pay for it (no hub is created)."""
  try:
    import gevent, gevent.event, gevent.hub, gevent.greenlet, gevent.lock, gevent.queue  # noqa
  except Exception:
    pass


# ------------------------------------------------------------------ case generation
S_ALPHA = ['O', 'C', 'R', 'K', 'F', 'D']
# histories around "a request is in flight on a connection that fails": prefix puts R1 in flight on S1,
# then every word over requests / die / answer-oldest-held / open-completes / close that contains a
# failure and a (late) answer
F_PREFIXES = [['R', 'K'], ['O', 'K', 'R']]
F_ALPHA = ['R', 'D', 'A', 'K', 'C']


R_PREFIXES = [['O', 'K', 'D'], ['O', 'K', 'R', 'D']]
R_ALPHA = ['R', 'C', 'K', 'F', 'O']


def _r_ok(w):
  return w.count('R') >= 2 and 'C' in w and ('K' in w or 'F' in w)


def _f_ok(w):
  return 'D' in w and 'A' in w


def _words(alpha, maxlen, ok=None):
  for n in range(1, maxlen + 1):
    for w in itertools.product(alpha, repeat=n):
      if ok is None or ok(w):
        yield list(w)


def _s_ok(w):
  """Static pruning: completing/failing a connection needs something that can create one."""
  seen = False
  for x in w:
    if x in ('O', 'R'):
      seen = True
    elif x in ('K', 'F', 'D') and not seen:
      return False
  return True


def _with_q(w):
  ops = []
  for x in w:
    ops.append(x)
    ops.append('q')
  return ops


def _rand_sched(rng, w):
  ops = []
  for x in w:
    ops.append(x)
    r = rng.random()
    if r < 0.5:
      ops.append('q')
    elif r < 0.75:
      ops.append(['step', rng.randint(1, 3)])
  ops.append('q')
  return ops


def cases(prop, tier, seed):
  _preload()
  rng = random.Random(104729 * int(seed) + 16)
  out = []
  quick = tier == 'quick'
  # --- singleton pool
  for w in _words(S_ALPHA, 4 if quick else 6, _s_ok):
    out.append({'kind': 'singleton', 'ops': _with_q(w)})
  for pre in F_PREFIXES:
    for w in _words(F_ALPHA, 4 if quick else 6, _f_ok):
      out.append({'kind': 'singleton', 'ops': _with_q(pre + w)})
  # the holder closes while a replacement connection (after a failure) is being opened and one or more requests
  # wait for it: the prefix leaves a dead connection installed; every word with >= 2 requests, a close and an
  # open completion / failure
  for pre in R_PREFIXES:
    for w in _words(R_ALPHA, 4 if quick else 6, _r_ok):
      out.append({'kind': 'singleton', 'ops': _with_q(pre + w)})
  for _ in range(900 if quick else 15000):
    n = rng.randint(4, 10)
    w = []
    for _ in range(n):
      w.append(rng.choice(['O', 'O', 'C', 'C', 'R', 'R', 'R', 'R', 'K', 'K', 'K', 'F', 'D', 'D', 'B', 'A', 'A', 'L']))
    if not _s_ok(w):
      w.insert(0, rng.choice(['O', 'R']))
    out.append({'kind': 'singleton', 'ops': _rand_sched(rng, w)})
  # --- refcounted sink, used directly
  for w in _words(['O', 'C'], 7 if quick else 10):
    out.append({'kind': 'refcounted', 'mode': 'direct', 'ops': _with_q([[x, 1] for x in w])})
  for _ in range(300 if quick else 5000):
    n = rng.randint(3, 10)
    w = [rng.choice([['O', 1], ['O', 1], ['C', 1], ['C', 1], 'K', 'F', 'D']) for _ in range(n)]
    out.append({'kind': 'refcounted', 'mode': 'direct', 'ops': _rand_sched(rng, w)})
  # --- shared sink provider
  alpha = [['G', h, k] for h in (1, 2) for k in (1, 2)] + [[x, h] for x in ('O', 'C', 'X') for h in (1, 2)]
  for w in _words(alpha, 3 if quick else 4, lambda w: w[0][0] == 'G'):
    out.append({'kind': 'refcounted', 'mode': 'provider', 'ops': _with_q(w)})
  alpha3 = [['G', h, k] for h in (1, 2, 3) for k in (1, 2)] + [[x, h] for x in ('O', 'O', 'C', 'C', 'X') for h in (1, 2, 3)]
  for _ in range(600 if quick else 8000):
    n = rng.randint(4, 10)
    w = [['G', rng.randint(1, 3), rng.randint(1, 2)]] + [rng.choice(alpha3 + ['K', 'F', 'D']) for _ in range(n)]
    out.append({'kind': 'refcounted', 'mode': 'provider', 'ops': _rand_sched(rng, w)})
  if not quick:
    # one forked process per case is dominated by process start-up: pack BUNDLE independent cases
    # (fresh provider / pool / sinks each; the components have no global state) into one trace,
    # separated by Reset events
    out = [{'episodes': out[i:i + BUNDLE]} for i in range(0, len(out), BUNDLE)]
  return out


# ------------------------------------------------------------------ mocks below the component
class _World(object):
  """Counting provider + mock connections + event log (built after boot)."""

  def __init__(self, loop):
    import gevent
    from scales.asynchronous import AsyncResult
    from scales.constants import ChannelState, SinkProperties
    from scales.sink import ClientMessageSink, ClientMessageSinkStack, SinkProviderBase
    from scales.message import MethodReturnMessage
    self.loop = loop
    self.gevent = gevent
    self.ev = []
    self.conns = []
    self.held = []        # requests in flight below the component: (rid, connection, sink_stack)
    self.seen = set()
    self.Return = MethodReturnMessage
    self.CS = ChannelState
    self.SP = SinkProperties
    self.Stack = ClientMessageSinkStack
    world = self

    class OpenFailed(Exception):
      pass

    class Conn(ClientMessageSink):
      def __init__(self, cid):
        super(Conn, self).__init__()
        self.cid = cid
        self._state = ChannelState.Idle
        self._cur = None
        self.pending = []
        self.dead = False
        self.endpoint = None

      @property
      def state(self):
        return self._state

      def Open(self):
        world.ev.append({'e': 'UOpen', 'c': self.cid})
        if self._cur is None:
          self._cur = AsyncResult()
          self.pending.append(self._cur)
        return self._cur

      def Close(self):
        world.ev.append({'e': 'UClose', 'c': self.cid})
        self._state = ChannelState.Closed
        self.dead = True
        self._cur = None

      def AsyncProcessRequest(self, sink_stack, msg, stream, headers):
        # the request stays in flight on this connection until the driver answers it
        rid = int(getattr(msg, 'rid', 0))
        world.ev.append({'e': 'Seen', 'c': self.cid, 'r': rid})
        world.seen.add(rid)
        world.held.append((rid, self, sink_stack))

      def AsyncProcessResponse(self, sink_stack, context, stream, msg):
        pass

      # environment controls
      def open_done(self, ok):
        ar = self.pending.pop(0)
        up = bool(ok) and not self.dead
        if up:
          self._state = ChannelState.Open
        else:
          self._state = ChannelState.Closed
          self.dead = True
        world.ev.append({'e': 'OpenDone', 'c': self.cid, 'ok': up})
        if up:
          ar.set(True)
        else:
          ar.set_exception(OpenFailed('open failed'))
        return up

      def die(self):
        self._state = ChannelState.Closed
        self.dead = True
        world.ev.append({'e': 'Die', 'c': self.cid})
        self.on_faulted.Set()

    class Provider(SinkProviderBase):
      def CreateSink(self, properties):
        c = Conn(len(world.conns) + 1)
        world.conns.append(c)
        world.ev.append({'e': 'Create', 'c': c.cid})
        return c

      @property
      def sink_class(self):
        return Conn

    class Term(ClientMessageSink):
      def __init__(self, rid):
        super(Term, self).__init__()
        self.rid = rid

      def AsyncProcessRequest(self, sink_stack, msg, stream, headers):
        pass

      def AsyncProcessResponse(self, sink_stack, context, stream, msg):
        # Failed = the pool itself answered a request that never reached a connection
        if isinstance(msg, MethodReturnMessage) and msg.error is not None and self.rid not in world.seen:
          world.ev.append({'e': 'Failed', 'r': self.rid})

    self.Conn = Conn
    self.Term = Term
    self.provider = Provider()

  # environment ops shared by both kinds; return False when not applicable
  def first_pending(self):
    for c in self.conns:
      if c.pending:
        return c
    return None

  def env(self, op, c=None):
    if op in ('K', 'F'):
      c = c or self.first_pending()
      if c is None or not c.pending:
        return False
      c.open_done(op == 'K')
      return True
    if op == 'D':
      if c is None:
        live = [x for x in self.conns if not x.dead]
        c = live[-1] if live else None
      if c is None or c.dead:
        return False
      c.die()
      return True
    if op in ('A', 'L'):
      # the response of a held request travels back up its sink stack: a reply, or an error when
      # the connection it was in flight on is dead (that error may arrive long after the failure)
      if not self.held:
        return False
      return self.answer(self.held[0][0] if op == 'A' else self.held[-1][0])
    if op == 'B':
      live = [x for x in self.conns if not x.dead and x._state in (self.CS.Open, self.CS.Busy)]
      if not live:
        return False
      x = live[-1]
      x._state = self.CS.Busy if x._state == self.CS.Open else self.CS.Open
      return True
    raise ValueError(op)

  def answer(self, rid):
    for j, (r, c, stack) in enumerate(self.held):
      if r == rid:
        break
    else:
      return False
    del self.held[j]
    err = bool(c.dead)
    self.ev.append({'e': 'Resp', 'r': r, 'c': c.cid, 'ok': not err})
    if err:
      stack.AsyncProcessResponseMessage(self.Return(error=Exception('connection reset')))
    else:
      stack.AsyncProcessResponseMessage(self.Return(return_value=r))
    return True

  def quiesce(self):
    self.loop.run_until_idle()
    self.ev.append({'e': 'Q'})


class _Msg(object):
  def __init__(self, rid):
    self.rid = rid
    self.properties = {}


class _Singleton(object):
  def __init__(self, world):
    from collections import namedtuple
    from scales.pool.singleton import SingletonPoolSink
    self.w = world
    ep = namedtuple('Endpoint', 'host port')('10.0.0.1', 9090)
    self.pool = SingletonPoolSink(world.provider, None, {world.SP.Endpoint: ep, world.SP.Label: 'mock'})
    self.nreq = 0
    self.nopen = 0
    self.opens = []

  def open(self):
    self.nopen += 1
    self.w.ev.append({'e': 'Open', 'h': self.nopen})
    self.opens.append(self.pool.Open())

  def close(self):
    self.w.ev.append({'e': 'Close', 'h': 0})
    self.pool.Close()

  def request(self):
    self.nreq += 1
    rid = self.nreq
    st = self.w.Stack()
    st.Push(self.w.Term(rid))
    self.w.ev.append({'e': 'Req', 'r': rid})
    self.w.gevent.spawn(self.pool.AsyncProcessRequest, st, _Msg(rid), None, {})

  def projection(self):
    p = self.pool
    ns = p.next_sink
    return {'refc': int(p._ref_count), 'next': int(getattr(ns, 'cid', -1)) if ns is not None else 0}


class _Shared(object):
  def __init__(self, world, mode):
    from scales.sink import RefCountedSink, SharedSinkProvider
    self.w = world
    self.mode = mode
    self.held = {}
    self.RefCountedSink = RefCountedSink
    if mode == 'direct':
      conn = world.provider.CreateSink({})
      self.held[1] = RefCountedSink(conn)
    else:
      self.prov = SharedSinkProvider(lambda props: props.get('k'))
      self.prov.next_provider = world.provider

  def _sid(self, sink):
    inner = getattr(sink, 'next_sink', None)
    return int(getattr(inner, 'cid', 0)) if isinstance(sink, self.RefCountedSink) else -int(getattr(sink, 'cid', 0))

  def get(self, h, k):
    if h in self.held:
      self.drop(h)
    self.held[h] = self.prov.CreateSink({'k': k})
    self.w.ev.append({'e': 'Key', 'k': k, 's': self._sid(self.held[h]), 'h': h})

  def drop(self, h):
    import gc
    if h not in self.held or self.mode == 'direct':
      return False
    s = self._sid(self.held[h])
    del self.held[h]
    gc.collect()
    self.w.ev.append({'e': 'Drop', 's': s, 'h': h})
    return True

  def open(self, h):
    if h not in self.held:
      return False
    self.w.ev.append({'e': 'Open', 's': self._sid(self.held[h]), 'h': h})
    self.held[h].Open()
    return True

  def close(self, h):
    if h not in self.held:
      return False
    self.w.ev.append({'e': 'Close', 's': self._sid(self.held[h]), 'h': h})
    self.held[h].Close()
    return True

  def projection(self):
    out = {}
    for h, s in self.held.items():
      out[self._sid(s)] = {'refc': int(s._ref_count), 'has_ar': s._open_ar is not None}
    return out


BUNDLE = 8


def run_case(script):
  if 'behaviour' in script:
    o = _replay_one(script)
    return {'cfg': o['cfg'], 'ev': o['ev']}
  if 'episodes' in script:
    ev = []
    first = None
    for j, sub in enumerate(script['episodes']):
      o = _run_one(sub)
      if j == 0:
        first = o['cfg']
      else:
        ev.append({'e': 'Reset', 'kind': o['cfg']['kind']})
      ev.extend(o['ev'])
    return {'cfg': first, 'ev': ev}
  return _run_one(script)


def _freeze():
  """The driver calls gc.collect() after a holder drops its sink; do not let that walk the
  (possibly large) heap inherited from the parent."""
  try:
    import gc
    gc.freeze()
  except Exception:
    pass


def _run_one(script):
  _freeze()
  loop = common.boot()
  w = _World(loop)
  loop.run_until_idle()
  kind = script['kind']
  if kind == 'singleton':
    sp = _Singleton(w)
    for op in script['ops']:
      if op == 'q':
        w.quiesce()
      elif op == 'O':
        sp.open()
      elif op == 'C':
        sp.close()
      elif op == 'R':
        sp.request()
      elif isinstance(op, list) and op[0] == 'step':
        loop.step(op[1])
      else:
        w.env(op)
    meta = {}
    try:
      meta = sp.projection()
    except Exception:
      pass
  else:
    sh = _Shared(w, script['mode'])
    for op in script['ops']:
      if op == 'q':
        w.quiesce()
      elif isinstance(op, list) and op[0] == 'step':
        loop.step(op[1])
      elif isinstance(op, list) and op[0] == 'G':
        sh.get(op[1], op[2])
      elif isinstance(op, list) and op[0] == 'O':
        sh.open(op[1])
      elif isinstance(op, list) and op[0] == 'C':
        sh.close(op[1])
      elif isinstance(op, list) and op[0] == 'X':
        sh.drop(op[1])
      else:
        w.env(op)
    meta = {}
  meta['errors'] = [str(e[1:3]) for e in loop.errors][:3]
  return {'cfg': {'kind': kind, 'mode': script.get('mode', '')}, 'ev': w.ev, 'meta': meta}


def nontrivial(prop, t):
  ev = t['ev']
  api = sum(1 for e in ev if e['e'] in ('Open', 'Close', 'Req', 'Key', 'Drop'))
  under = sum(1 for e in ev if e['e'] in ('Create', 'UOpen', 'UClose', 'Seen'))
  if api >= 3 and under >= 1:
    return common.canon([t['cfg'], ev])
  return None


def extra_coverage(prop, tier, traces):
  return {'histories_evaluated': sum(1 + sum(1 for e in t['ev'] if e['e'] == 'Reset') for t in traces)}


def witness(prop, t, consumed, clause):
  ev = t['ev']
  kind = t['cfg']['kind']
  for e in ev[:consumed + 1]:
    if e['e'] == 'Reset':
      kind = e['kind']
  w = {'kind': kind}
  if consumed < len(ev):
    w['at'] = ev[consumed]['e']
  return w


# ------------------------------------------------------------------ direction A
def _get(d, k):
  if isinstance(d, dict):
    return d.get(k, d.get(str(k)))
  return d[k - 1]   # TLC prints functions with domain 1..n as tuples


def _replay_one(script):
  beh = script['behaviour']
  _freeze()
  loop = common.boot()
  w = _World(loop)
  loop.run_until_idle()
  module = script['module']
  steps = 0
  drift = None
  if module == 'SingletonPool':
    sp = _Singleton(w)
    cfg = {'kind': 'singleton', 'mode': ''}
    for (act, st) in beh[1:]:
      name, params = act
      if name == 'HOpen':
        sp.open()
      elif name == 'HClose':
        sp.close()
      elif name == 'Request':
        sp.request()
      elif name in ('OpenDone', 'Die') and params[0] - 1 >= len(w.conns):
        # the code has not created the connection the model acts on: the behaviour is inapplicable from
        # here on (drift, not a verdict); the events recorded so far are still judged by ShareAbs
        if drift is None:
          drift = {'step': steps, 'action': [name, params], 'spec': 'connection %d exists' % params[0],
                   'real': '%d connections created' % len(w.conns)}
        break
      elif name == 'OpenDone':
        w.env('K' if params[1] else 'F', w.conns[params[0] - 1])
      elif name == 'Die':
        w.env('D', w.conns[params[0] - 1])
      elif name == 'Respond':
        w.answer(params[0])
      elif name == 'RunTask':
        loop.step_callback()
      else:
        raise RuntimeError('unknown action %r' % (name,))
      steps += 1
      if drift is None:
        try:
          real = sp.projection()
          real['pending'] = int(loop.pendingcnt) if loop.has_callbacks() else 0
          real['conns'] = [_STNAME.get(c.state, '?') for c in w.conns]
          spec = {'refc': st['refc'], 'next': st['next'], 'pending': len(st['runq']),
                  'conns': [c['st'] for c in st['conn']]}
        except Exception:
          spec = real = None
        if spec != real:
          drift = {'step': steps, 'action': [name, params], 'spec': spec, 'real': real}
  else:
    cfg = {'kind': 'refcounted', 'mode': 'provider'}
    sh = _Shared(w, 'provider')
    for (act, st) in beh[1:]:
      name, params = act
      if name == 'Get':
        sh.get(params[0], params[1])
      elif name == 'HOpen':
        sh.open(params[0])
      elif name == 'HClose':
        sh.close(params[0])
      elif name == 'Drop':
        sh.drop(params[0])
      else:
        raise RuntimeError('unknown action %r' % (name,))
      steps += 1
      if drift is None:
        try:
          real = {int(k): v for k, v in sh.projection().items()}
          spec = {}
          sinks = st['sinks']
          for h, s in (st['held'].items() if isinstance(st['held'], dict) else enumerate(st['held'], 1)):
            if s:
              x = _get(sinks, s)
              spec[int(s)] = {'refc': x['refc'], 'has_ar': x['ar']}
        except Exception:
          spec = real = None
        if spec != real:
          drift = {'step': steps, 'action': [name, params], 'spec': spec, 'real': real}
  w.quiesce()
  return {'cfg': cfg, 'ev': w.ev, 'steps': steps, 'drift': drift}


_STNAME = {1: 'Idle', 2: 'Open', 3: 'Busy', 4: 'Closed'}


def _slim(module, st):
  """Keep only what the projection compare reads (states carry the whole ghost machine)."""
  try:
    if module == 'SingletonPool':
      return {'refc': st['refc'], 'next': st['next'], 'runq': [0] * len(st['runq']),
              'conn': [{'st': c['st']} for c in st['conn']]}
    return {'sinks': st['sinks'], 'held': st['held']}
  except Exception:
    return {}


def replay_behaviours(prop, tier, seed):
  _preload()
  quick = tier == 'quick'
  traces, drift, steps, nbeh = [], [], 0, 0
  for module, cfg, num, depth in (('SingletonPool', 'SingletonPool_sim.cfg', 600 if quick else 2500, 40),
                                  ('RefCounted', 'RefCounted_sim.cfg', 200 if quick else 2000, 14)):
    r, behs = tlc.simulate_behaviours(module, cfg, num=num, depth=depth, seed=int(seed) + 1, timeout=900)
    if not behs:
      raise RuntimeError('no behaviours from TLC simulate (%s):\n%s' % (cfg, r.stdout[-2000:]))
    scripts = [{'module': module, 'behaviour': [[a, _slim(module, s)] for a, s in b]} for b in behs]
    del behs   # keep the parent small: it is forked once per behaviour
    res = common.run_forked(_replay_one, scripts)
    errs = [x['err'] for x in res if 'err' in x]
    if errs:
      raise RuntimeError('replay failed (%s): %s' % (cfg, errs[0]))
    for sc, x in zip(scripts, res):
      o = x['ok']
      steps += o['steps']
      nbeh += 1
      if o['drift']:
        d = dict(o['drift'])
        d['cfg'] = cfg
        drift.append(d)
      traces.append({'cfg': o['cfg'], 'ev': o['ev'], 'script': sc})
  return {'summary': {'behaviours_replayed': nbeh, 'steps_compared': steps, 'drift': len(drift)},
          'traces': traces, 'drift': drift}
