"""Engine `async` (C17): scales.asynchronous.AsyncResult combinators.

Specs: AsyncAbs (oracle), AsyncAbsTrace (batched validation), AsyncImpl (code-shaped:
gevent AsyncResult cells, rawlink notifier queue, the `total`/`results` closures,
_UnwrapHelper recursion, ContinueWith/Map closures).

Direction B is an *exhaustive enumeration* on the real code: every number of inputs up to
the tier's bound x success/failure assignment x completion order x prefix already complete
at call time x grouping of the later completions into batches between quiescent points
(so completions also land while rawlink notifiers are still queued).  After every batch the
loop is quiesced and (ready, successful, exception id, value) of the combined result is
recorded; TLC judges every observation against AsyncAbs.

Functions that hand back a *result object*: the continuation given to ContinueWith (on and
off the hub) returns either the source it was handed or a second result r that is already
successful / already failed at call time, completes (value or exception) before the source,
between the source's completion and the run, after the run, or never.  The statement says
ContinueWith "captures its result": the observation encodes "the value IS result number k"
as an identity token (vk = "ar", val = [k]), distinct from whatever r holds, and AsyncAbs
requires exactly that token from the first quiescent point after the run on, whatever
happens to r.  Map (the flattening combinator) gets the opposite cases: its function
returns a result that never completes, or a chain of two nested results, and the Map result
must be the innermost value / first failure (pending while the chain is unresolved).
Run / RunInline / SafeLink are not named by the statement and get no clause.

The caller's collection: WhenAll / WhenAny get a MUTABLE list which the driver mutates at a
scripted point after the call (clear, pop, append a foreign result, reverse, replace an
element, refill with another batch; before / between / after the completions, in the same
loop quantum as the last completion or after a quiescent point).  "The inputs" of the
statement are the results passed at the call, so the `Mut` event changes nothing in
AsyncAbs and every later observation is judged against the original inputs.  Tuples are
passed too (generators are not accepted by the unchanged code: it takes len()).

Re-entrant registration (comb "Reentrant"): continuations / mapped functions that, while
they run, make further ContinueWith / Map / Unwrap calls on the SAME source, on the shared
AsyncResult.Complete() singleton (source 0) or on another result (complete, pending, never
completing), one to three levels deep, on and off the hub, returning and raising.  Every
call is a registration of its own in the trace (Reg / RunC / ObsC carry its number) and is
judged by the same sentences as a single call: exactly once after completion, outcome
captured, result complete at every quiescent point after the source completed.

Every call INTO the code under test (constructing the results, set / set_exception of an
input, the combinator call, reading the returned result) is guarded: an exception that
escapes from it is recorded as an event `Esc(at, exn)` and judged by AsyncAbs -- it never
crashes the driver.  `New` is logged immediately BEFORE the combinator call, so a
continuation that runs inside the call (legal when the source is already complete) is a
normal `Run` after `New`; if the call then raises, `Esc(at="new")` follows and no result
exists.  ContinueWith must capture what its continuation returned or raised (Exception or
BaseException alike), so an escape from the ContinueWith call after the continuation ran is
C17.continueWith; WhenAll / WhenAny / Unwrap escapes are flagged only where the statement
demands success at that very point; everything the statement is silent about (Map, escapes
from set / read) is an unjudged event (counted in the evidence as `escaped_calls`), after
which the episode stops where nothing further could be judged.  Direction A: a step that
raises is a drift record.

Direction A: TLC -simulate behaviours of AsyncImpl are single-stepped on the real
combinators (RunTask = exactly one loop callback); after every step the observation of the
real result and the number of queued loop callbacks are compared with the spec state.
WhenAny has two model variants (as in the unchanged tree / as repaired by
fixes/C17-whenany.diff); the variant the code conforms to is reported, drift only if it
conforms to neither.
"""
import itertools
import random

from harness import common, tlc

NAME = 'async'
PROPS = ['C17']
LEVEL = {'C17': 'model_checking'}
TRACE_MODULE = 'AsyncAbsTrace'
TRACE_CFG = 'AsyncAbsTrace.cfg'
TRACE_CHUNK = 4000
ASSUMPTIONS = [
  'virtual-time gevent loop preserves gevent callback FIFO order (selftest)',
  'every input AsyncResult is completed at most once, by the environment (set or set_exception)',
  'WhenAll/WhenAny are called with at least one input (empty input list is outside the property)',
  'inputs already successful at call time: WhenAny may report any of them (their relative completion order is '
  'invisible to the combinator); likewise the reported failure when every input had failed before the call',
  'a result whose .exception is set counts as failed for its consumers even if gevent still reports '
  'successful() (re-settable AsyncResult): the observation is (ready, successful, exception, value)',
  'exhaustive within n <= 4 inputs (quick) / n <= 5 (thorough), chains of <= 4 / 5 nested results',
  'a continuation that returns a result object returns one the driver knows (the source or a second scripted '
  'result); "the value is that object" is decided by identity (`is`) in the driver and travels as a token',
]
RULE = {'C17': 'systematic enumeration (inputs x outcomes x completion orders x pre-completed prefix x batching of '
               'completions between quiescent points) for WhenAll, WhenAny, Unwrap chains, ContinueWith '
               '(on_hub both ways, returning a plain value / raising / returning a result object that is complete, failed, '
               'completed at any later point or never) and Map (plain/raising/result-returning function, also never '
               'completing and two-level chains); plus '
               'WhenAll / WhenAny with the caller mutating the list it passed (kind x position relative to the '
               'completions) and with tuples; re-entrant registration trees (ContinueWith / Map / Unwrap registered '
               'from inside a running continuation on the same source, the Complete() singleton or another '
               'result, depth <= 3, systematic core + seeded random trees); '
               'seeded random batched schedules with partial loop stepping at the largest n; non-trivial = at '
               'least two inputs/levels or a continuation/function; distinct by canonical event list'}
EXHAUSTIVE = {('C17', 'quick'): True, ('C17', 'thorough'): True}


def models(prop, tier):
  ms = [
    dict(module='AsyncImpl', cfg='AsyncImpl_q.cfg', coverage=True, workers=4,
         what='all five combinators (WhenAny as repaired by fixes/C17-whenany.diff), 4 inputs / chains of 4: every '
              'outcome assignment x completion order x pre-completed subset x placement of completions between '
              'loop quanta'),
    dict(module='AsyncImpl', cfg='AsyncImpl_any_orig.cfg', expect_violation='NoViolation', workers=4,
         what='WhenAny as in the unchanged tree: design-level counterexample to C17.whenAny (reproduced on the '
              'real code by direction B)'),
    dict(module='AsyncImpl', cfg='AsyncImpl_follow.cfg', expect_violation='NoViolation', workers=2,
         what='NOT the code: ContinueWith through a _SafeLinkHelper that follows (links to) a result returned by '
              'the continuation instead of storing it: design-level counterexample to C17.continueWith'),
  ]
  if tier != 'quick':
    ms += [
      dict(module='AsyncImpl', cfg='AsyncImpl_t.cfg', what='WhenAll, WhenAny (repaired), Unwrap: 5 inputs / chains of 5',
           workers=8, timeout=1800),
      dict(module='AsyncImpl', cfg='AsyncImpl_t6.cfg', what='WhenAll, WhenAny (repaired): 6 inputs',
           workers=8, timeout=3000, heap='16g'),
    ]
  return ms


def _preload():
  """Import gevent in the parent so that the forked children (one per case) do not pay for it.
  No hub is created here; the virtual loop is still selected by boot() inside every child."""
  try:
    import gevent, gevent.event, gevent.hub, gevent.greenlet, gevent.lock, gevent.queue  # noqa
  except Exception:
    pass


# ------------------------------------------------------------------ case enumeration
def VOK(i):
  return 10 + i


def VEX(i):
  return 20 + i


def _compositions(items):
  """All ways to cut a sequence into consecutive non-empty batches."""
  m = len(items)
  if m == 0:
    yield []
    return
  for mask in range(1 << (m - 1)):
    out, cur = [], [items[0]]
    for j in range(1, m):
      if mask >> (j - 1) & 1:
        out.append(cur)
        cur = [items[j]]
      else:
        cur.append(items[j])
    out.append(cur)
    yield out


def _ops_from(pre, post, batching):
  """pre/post: lists of set ops. yields op lists."""
  items = [['new']] + post
  if batching:
    comps = _compositions(items)
  else:
    comps = [[[x] for x in items]]
  for comp in comps:
    ops = list(pre)
    for b in comp:
      ops.extend(b)
      ops.append(['q'])
    yield ops


def _when_cases(comb, n, batching):
  for perm in itertools.permutations(range(1, n + 1)):
    for outs in itertools.product(['ok', 'fail'], repeat=n):
      sets = [['set', i, outs[i - 1]] for i in perm]
      for k in range(n + 1):
        for ops in _ops_from(sets[:k], sets[k:], batching):
          yield {'comb': comb, 'n': n, 'ops': ops}


def _unwrap_cases(L, batching):
  for term in ('ok', 'fail'):
    kinds = ['nest'] * (L - 1) + [term]
    for perm in itertools.permutations(range(1, L + 1)):
      sets = [['set', i, kinds[i - 1]] for i in perm]
      for k in range(L + 1):
        for ops in _ops_from(sets[:k], sets[k:], batching):
          yield {'comb': 'Unwrap', 'n': L, 'ops': ops}


def _sched_cases(kinds):
  """kinds: {result number: kind}; results not in it are never completed.  Every completion order x
  prefix already complete at call time x batching of the rest between quiescent points."""
  for perm in itertools.permutations(sorted(kinds)):
    sets = [['set', i, kinds[i]] for i in perm]
    for k in range(len(sets) + 1):
      for ops in _ops_from(sets[:k], sets[k:], True):
        yield ops


def _cw_cases():
  for out in ('ok', 'fail'):
    for on_hub in (True, False):
      for fnk in ('ret', 'raise', 'raiseb', 'retself'):
        # retself: the continuation hands back the (complete) source object it was given
        for ops in _sched_cases({1: out}):
          yield {'comb': 'ContinueWith', 'n': 1, 'ops': ops, 'on_hub': on_hub, 'fnk': fnk}
      # the continuation hands back a second result object (a follow-up operation): complete or failed at any
      # point relative to the call, the source's completion and the run of the continuation -- or never
      for inner in ('ok', 'fail', None):
        kinds = {1: out}
        if inner:
          kinds[2] = inner
        for ops in _sched_cases(kinds):
          yield {'comb': 'ContinueWith', 'n': 2, 'ops': ops, 'on_hub': on_hub, 'fnk': 'retar'}
  # the source itself never completes: the continuation must not run, whatever happens to result 2
  for on_hub in (True, False):
    for inner in ('ok', 'fail'):
      for ops in _sched_cases({2: inner}):
        yield {'comb': 'ContinueWith', 'n': 2, 'ops': ops, 'on_hub': on_hub, 'fnk': 'retar'}


def _map_cases():
  for out in ('ok', 'fail'):
    for fnk in ('ret', 'raise', 'raiseb'):
      s = [['set', 1, out]]
      for k in (0, 1):
        for ops in _ops_from(s[:k], s[k:], True):
          yield {'comb': 'Map', 'n': 2, 'ops': ops, 'fnk': fnk}
    for inner in ('ok', 'fail'):
      for perm in ((1, 2), (2, 1)):
        kinds = {1: out, 2: inner}
        sets = [['set', i, kinds[i]] for i in perm]
        for k in range(3):
          for ops in _ops_from(sets[:k], sets[k:], True):
            yield {'comb': 'Map', 'n': 2, 'ops': ops, 'fnk': 'nest'}
    # the result the function returns never completes
    for ops in _sched_cases({1: out}):
      yield {'comb': 'Map', 'n': 2, 'ops': ops, 'fnk': 'nest'}
  # the function returns a result that completes with another result (chain 2 -> 3), or a level never completes
  for kinds in ({1: 'ok', 2: 'nest', 3: 'ok'}, {1: 'ok', 2: 'nest', 3: 'fail'}, {1: 'ok', 2: 'nest'},
                {2: 'nest', 3: 'ok'}, {2: 'nest', 3: 'fail'}):
    for ops in _sched_cases(kinds):
      yield {'comb': 'Map', 'n': 3, 'ops': ops, 'fnk': 'nest'}


MUTS = ('clear', 'pop', 'append', 'reverse', 'replace', 'refill', 'appenddone', 'insert0')


def _mut_cases(comb, n, outs_list, kinds, kmax):
  """The caller mutates the list it passed: every completion order x given outcome assignments x prefix
  already complete at the call x position of the mutation among the later completions (a quiescent point
  after every step), plus: all completions and then the mutation within one loop quantum."""
  for perm in itertools.permutations(range(1, n + 1)):
    for outs in outs_list:
      sets = [['set', i, outs[i - 1]] for i in perm]
      for k in range(min(n, kmax) + 1):
        pre, post = sets[:k], sets[k:]
        for mk in kinds:
          for pos in range(len(post) + 1):
            items = [['new']] + post[:pos] + [['mut', mk]] + post[pos:]
            ops = list(pre)
            for it in items:
              ops.extend([it, ['q']])
            yield {'comb': comb, 'n': n, 'ops': ops}
          if post:
            yield {'comb': comb, 'n': n, 'ops': pre + [['new']] + post + [['mut', mk], ['q']]}


def _node(kind, src, on_hub=True, fnk='ret', kids=()):
  return {'kind': kind, 'src': src, 'on_hub': on_hub, 'fnk': fnk, 'kids': list(kids)}


def _reent_cases():
  def emit(tree, kinds_list):
    for kinds in kinds_list:
      for ops in _sched_cases(kinds):
        yield {'comb': 'Reentrant', 'n': 2, 'ops': ops, 'tree': tree}
  parents = [('cw', True), ('cw', False), ('map', True)]
  kid_kinds = [('cw', True), ('cw', False), ('map', True), ('unwrap', True)]
  # (a)/(b): the nested call goes to the SAME source as the running continuation: an ordinary result (1),
  # pending or complete, successful or failed -- or the shared Complete() singleton (0)
  for p in (0, 1):
    scheds = [{}] if p == 0 else [{1: 'ok'}, {1: 'fail'}]
    for pk, ph in parents:
      for pf in ('ret', 'raise'):
        for kk, kh in kid_kinds:
          for c in emit([_node(pk, p, ph, pf, [_node(kk, p, kh)])], scheds):
            yield c
    # three levels, and two nested calls from one continuation
    for kk, kh in kid_kinds[:3]:
      for gk, gh in (('cw', True), ('map', True)):
        for c in emit([_node('cw', p, True, 'ret', [_node(kk, p, kh, 'ret', [_node(gk, p, gh)])])], scheds):
          yield c
    for c in emit([_node('cw', p, True, 'ret', [_node('cw', p), _node('cw', p, True, 'raise')]),
                   _node('cw', p)], scheds):
      yield c
  # (c): the nested call goes to ANOTHER result: complete, pending (completing later) or never completing
  for p, k, scheds in ((1, 2, [{1: 'ok', 2: 'ok'}, {1: 'ok', 2: 'fail'}, {1: 'ok'}]),
                       (1, 0, [{1: 'ok'}, {1: 'fail'}]),
                       (0, 1, [{1: 'ok'}, {1: 'fail'}, {}])):
    for ph in (True, False):
      for kk, kh in (('cw', True), ('map', True), ('unwrap', True)):
        for c in emit([_node('cw', p, ph, 'ret', [_node(kk, k, kh)])], scheds):
          yield c


def _random_tree(rng, depth):
  kind = rng.choice(['cw', 'cw', 'map', 'unwrap'])
  kids = []
  if kind != 'unwrap' and depth > 1:
    kids = [_random_tree(rng, depth - 1) for _ in range(rng.choice([0, 1, 1, 2]))]
  return _node(kind, rng.choice([0, 1, 1, 2]), rng.random() < 0.6, rng.choice(['ret', 'ret', 'raise']), kids)


def _random_reent(rng):
  c = _random_case(rng, 'Reentrant', 2)
  if rng.random() < 0.3:   # result 2 never completes
    c['ops'] = [o for o in c['ops'] if not (o[0] == 'set' and o[1] == 2)]
  c['tree'] = [_random_tree(rng, 3) for _ in range(rng.choice([1, 1, 2]))]
  return c


def _random_case(rng, comb, n):
  perm = list(range(1, n + 1))
  rng.shuffle(perm)
  if comb == 'Unwrap':
    kinds = ['nest'] * (n - 1) + [rng.choice(['ok', 'fail'])]
  else:
    # bias towards the interesting mixtures (few successes / few failures)
    p = rng.choice([0.15, 0.5, 0.85])
    kinds = ['ok' if rng.random() < p else 'fail' for _ in range(n)]
  sets = [['set', i, kinds[i - 1]] for i in perm]
  k = rng.randint(0, n)
  ops = list(sets[:k])
  items = [['new']] + sets[k:]
  for j, it in enumerate(items):
    ops.append(it)
    if j == len(items) - 1:
      break
    r = rng.random()
    if r < 0.4:
      ops.append(['q'])
    elif r < 0.6:
      ops.append(['step', rng.randint(1, 2)])
  ops.append(['q'])
  if comb == 'ContinueWith':
    return {'comb': comb, 'n': n, 'ops': ops, 'on_hub': rng.random() < 0.5, 'fnk': 'retar'}
  return {'comb': comb, 'n': n, 'ops': ops}


def cases(prop, tier, seed):
  _preload()
  rng = random.Random(7919 * int(seed) + 17)
  out = []
  if tier == 'quick':
    full, plain, nrand, ufull, uplain = 3, 4, 300, 4, 0
  else:
    full, plain, nrand, ufull, uplain = 4, 5, 6000, 5, 0
  for comb in ('WhenAny', 'WhenAll'):
    for n in range(1, full + 1):
      out.extend(_when_cases(comb, n, True))
    for n in range(full + 1, plain + 1):
      out.extend(_when_cases(comb, n, False))
    for _ in range(nrand):
      out.append(_random_case(rng, comb, plain))
    if tier != 'quick':
      for _ in range(nrand // 3):
        out.append(_random_case(rng, comb, plain + 1))
  for L in range(1, ufull + 1):
    out.extend(_unwrap_cases(L, True))
  for _ in range(nrand // 2):
    out.append(_random_case(rng, 'Unwrap', ufull + 1))
  out.extend(_cw_cases())
  for _ in range(max(40, nrand // 20)):
    # partial loop stepping (completions land while the notifier / the spawned greenlet is still queued)
    c = _random_case(rng, 'ContinueWith', 2)
    if rng.random() < 0.3:   # result 2 never completes
      c['ops'] = [o for o in c['ops'] if not (o[0] == 'set' and o[1] == 2)]
    out.append(c)
  out.extend(_map_cases())
  # the caller mutates the list it passed / passes a tuple
  two = list(itertools.product(['ok', 'fail'], repeat=2))
  out.extend(_mut_cases('WhenAll', 2, two, MUTS[:6] if tier == 'quick' else MUTS, 2))
  out.extend(_mut_cases('WhenAny', 2, two, ('clear', 'reverse', 'refill') if tier == 'quick' else MUTS, 2))
  if tier == 'quick':
    out.extend(_mut_cases('WhenAll', 3, [('ok',) * 3, ('ok', 'fail', 'ok')], ('clear', 'reverse'), 1))
    out.extend(_mut_cases('WhenAny', 3, [('fail',) * 3, ('fail', 'ok', 'fail')], ('clear',), 1))
  else:
    three = list(itertools.product(['ok', 'fail'], repeat=3))
    out.extend(_mut_cases('WhenAll', 3, three, MUTS[:6], 3))
    out.extend(_mut_cases('WhenAny', 3, three, ('clear', 'reverse', 'refill'), 3))
    out.extend(_mut_cases('WhenAll', 4, [('ok',) * 4], ('clear', 'reverse', 'insert0'), 1))
  for comb in ('WhenAll', 'WhenAny'):
    for n in (2, 3):
      for c in _when_cases(comb, n, False):
        if n == 2 or c['ops'][0][0] == 'new':
          c['coll'] = 'tuple'
          out.append(c)
  # re-entrant registration
  out.extend(_reent_cases())
  for _ in range(max(100, nrand // 6)):
    out.append(_random_reent(rng))
  if tier != 'quick':
    # one forked process per case is dominated by process start-up: pack BUNDLE independent cases
    # (the combinators have no global state) into one trace, separated by Reset events
    out = [{'episodes': out[i:i + BUNDLE]} for i in range(0, len(out), BUNDLE)]
  return out


# ------------------------------------------------------------------ driver
def _mk_observer(ars=None):
  """`ars`: the result objects of the run by number; a value that IS one of them is encoded as the identity
  token ('ar', [number]) -- never by looking inside it."""
  def enc_val(v):
    if v is None:
      return 'none', []
    for i, a in (ars or {}).items():
      if v is a:
        return 'ar', [i]
    if isinstance(v, bool):
      return 'other', []
    if isinstance(v, int):
      return 'int', [v]
    if isinstance(v, (list, tuple)):
      vals = []
      for x in v:
        if x is None:
          vals.append(-1)
        elif isinstance(x, int) and not isinstance(x, bool):
          vals.append(x)
        else:
          return 'other', []
      return 'list', vals
    return 'other', []

  def obs(ar):
    ex = ar.exception
    vk, val = enc_val(ar.value)
    return {'ready': bool(ar.ready()), 'ok': bool(ar.successful()),
            'exn': -1 if ex is None else int(getattr(ex, 'vid', -2)), 'vk': vk, 'val': val}
  return obs


class _Ctx(object):
  """One combinator run on the real code (shared by directions A and B)."""

  def __init__(self, comb, n, on_hub=True, fnk='ret', coll='list', tree=None):
    from scales.asynchronous import AsyncResult

    class ScriptedError(Exception):
      def __init__(self, vid):
        Exception.__init__(self, 'scripted %d' % vid)
        self.vid = vid
    self.AsyncResult = AsyncResult
    self.Err = ScriptedError

    class ScriptedBaseError(BaseException):
      """like gevent.Timeout / GreenletExit: not an Exception subclass; a continuation may raise one"""
      def __init__(self, vid):
        BaseException.__init__(self, 'scripted base %d' % vid)
        self.vid = vid
    self.BaseErr = ScriptedBaseError
    self.comb = comb
    self.n = n
    self.on_hub = on_hub
    self.fnk = fnk
    self.res = None
    self.ev = []
    self.escaped = []     # where exceptions escaped from the code under test ('init' | 'set' | 'new' | 'obs')
    self.dead = False     # nothing further can be judged in this run
    self.ars = {}
    self.coll = coll      # what WhenAll / WhenAny are handed: 'list' (kept, mutable) or 'tuple'
    self.ins = None       # the very collection object passed to the combinator
    self.extras = []      # results that are not inputs (put into the caller's list after the call)
    self.tree = tree or []
    self.regs = []        # "Reentrant": result of registration c at index c - 1 (None: the call raised)
    self.complete0 = None
    ok, ars = self._guard('init', lambda: {i: AsyncResult() for i in range(1, n + 1)})
    if ok:
      self.ars = ars
    if comb == 'Reentrant' and not self.dead:
      ok, c0 = self._guard('init', lambda: AsyncResult.Complete())
      self.complete0 = c0
    self.obs = _mk_observer(self.ars)

  def _guard(self, at, call, **more):
    """Every call into the code under test goes through here.  An exception that escapes (Exception or
    BaseException) becomes the observable event Esc(at, exn) for AsyncAbs to judge; the driver goes on
    (after 'new': without a result) or stops the run ('init' / 'set' / 'obs': state unknown)."""
    try:
      return True, call()
    except BaseException as e:  # noqa: the scripted continuation may raise a BaseException
      if isinstance(e, (KeyboardInterrupt, SystemExit, GeneratorExit, MemoryError)):
        raise
      vid = getattr(e, 'vid', -2)
      esc = {'e': 'Esc', 'at': at, 'exn': vid if isinstance(vid, int) and not isinstance(vid, bool) else -2}
      esc.update(more)
      self.ev.append(esc)
      self.escaped.append(at)
      if at not in ('new', 'reg'):
        self.dead = True
      return False, None

  def set(self, i, kind):
    if self.dead:
      return
    ar = self.ars[i]
    if kind == 'ok':
      v = VOK(i)
      ok, _ = self._guard('set', lambda: ar.set(v))
    elif kind == 'fail':
      v = VEX(i)
      err = self.Err(v)
      ok, _ = self._guard('set', lambda: ar.set_exception(err))
    else:
      v = i + 1
      ok, _ = self._guard('set', lambda: ar.set(self.ars[v]))
    if ok:
      self.ev.append({'e': 'Set', 'i': i, 'k': kind, 'v': v})

  def mut(self, kind):
    """The caller mutates the list object it passed to WhenAll / WhenAny."""
    l = self.ins
    if self.dead or not isinstance(l, list):
      return

    def extra(done):
      ar = self.AsyncResult()
      if done:
        ar.set(90 + len(self.extras))
      self.extras.append(ar)
      return ar

    def do():
      if kind == 'clear':
        del l[:]
      elif kind == 'pop':
        if l:
          l.pop()
      elif kind == 'append':
        l.append(extra(False))
      elif kind == 'appenddone':
        l.append(extra(True))
      elif kind == 'reverse':
        l.reverse()
      elif kind == 'replace':
        if l:
          l[0] = extra(True)
      elif kind == 'insert0':
        l.insert(0, extra(False))
      elif kind == 'refill':       # the scratch list is re-used for the next batch
        del l[:]
        l.extend([extra(True), extra(False)])
      else:
        raise ValueError(kind)
    ok, _ = self._guard('init', do)   # the only calls into the code here construct / complete foreign results
    if ok:
      self.ev.append({'e': 'Mut', 'k': kind})

  def _register(self, node, by):
    """One ContinueWith / Map / Unwrap call of a re-entrant tree; the kids are registered from inside the
    running continuation / mapped function."""
    if self.dead:
      return
    c = len(self.regs) + 1
    self.regs.append(None)
    kind = node['kind']
    src = self.complete0 if node['src'] == 0 else self.ars[node['src']]
    self.ev.append({'e': 'Reg', 'c': c, 'src': node['src'], 'kind': kind, 'by': by})

    def finish(rdy, arg, w):
      raises = node['fnk'] == 'raise'
      v = 700 + c if raises else w
      self.ev.append({'e': 'RunC', 'c': c, 'ready': rdy, 'arg': arg, 'out': 'raise' if raises else 'ret', 'v': v})
      for kid in node['kids']:
        self._register(kid, c)
      if raises:
        raise self.Err(v)
      return v

    if kind == 'cw':
      def cont(_ar):
        if _ar.exception is not None:
          w = 200 + int(getattr(_ar.exception, 'vid', 0))
        elif isinstance(_ar.value, int):
          w = 100 + _ar.value
        else:
          w = 99
        return finish(bool(_ar.ready()), 0, 1000 * c + w)
      call = lambda: src.ContinueWith(cont, on_hub=node['on_hub'])
    elif kind == 'map':
      def fn(v):
        arg = v if isinstance(v, int) and not isinstance(v, bool) else -2
        return finish(True, arg, 1000 * c + 100 + arg)
      call = lambda: src.Map(fn)
    else:
      call = lambda: src.Unwrap()
    ok, res = self._guard('reg', call, c=c)
    self.regs[c - 1] = res if ok else None

  def new(self):
    if self.dead:
      return
    if self.comb == 'Reentrant':
      for node in self.tree:
        self._register(node, 0)
      return
    # logged before the call: whatever the combinator does synchronously (e.g. run the continuation of an
    # already complete source) happens after New
    self.ev.append({'e': 'New'})
    ok, res = self._guard('new', self._call)
    self.res = res if ok else None

  def _call(self):
    AR = self.AsyncResult
    comb = self.comb
    ins = [self.ars[i] for i in range(1, self.n + 1)]
    if comb in ('WhenAll', 'WhenAny'):
      self.ins = tuple(ins) if self.coll == 'tuple' else ins
      return (AR.WhenAll if comb == 'WhenAll' else AR.WhenAny)(self.ins)
    elif comb == 'Unwrap':
      return self.ars[1].Unwrap()
    elif comb == 'ContinueWith':
      src = self.ars[1]

      def cont(_ar):
        rdy = bool(_ar.ready())
        if self.fnk in ('raise', 'raiseb'):
          self.ev.append({'e': 'Run', 'ready': rdy, 'out': 'raise', 'v': 77})
          raise (self.Err if self.fnk == 'raise' else self.BaseErr)(77)
        if self.fnk in ('retar', 'retself'):
          # hand back a result OBJECT (2 = a follow-up operation, 1 = the source itself)
          k = 2 if self.fnk == 'retar' else 1
          self.ev.append({'e': 'Run', 'ready': rdy, 'out': 'ar', 'v': k})
          return self.ars[k]
        if _ar.exception is not None:
          w = 200 + int(getattr(_ar.exception, 'vid', 0))
        elif isinstance(_ar.value, int):
          w = 100 + _ar.value
        else:
          w = 99
        self.ev.append({'e': 'Run', 'ready': rdy, 'out': 'ret', 'v': w})
        return w
      return src.ContinueWith(cont, on_hub=self.on_hub)
    elif comb == 'Map':
      src = self.ars[1]

      def fn(v):
        arg = v if isinstance(v, int) and not isinstance(v, bool) else -2
        if self.fnk in ('raise', 'raiseb'):
          self.ev.append({'e': 'Run', 'arg': arg, 'out': 'raise', 'v': 77})
          raise (self.Err if self.fnk == 'raise' else self.BaseErr)(77)
        if self.fnk == 'nest':
          self.ev.append({'e': 'Run', 'arg': arg, 'out': 'nest', 'v': 2})
          return self.ars[2]
        self.ev.append({'e': 'Run', 'arg': arg, 'out': 'ret', 'v': 100 + arg})
        return 100 + arg
      return src.Map(fn)
    raise ValueError(comb)

  def observe(self):
    """Observation of the returned result at a quiescent point (None when there is nothing to observe)."""
    if self.comb == 'Reentrant':
      for c, res in enumerate(self.regs, 1):
        if self.dead or res is None:
          continue
        ok, o = self._guard('obs', lambda: self.obs(res))
        if ok:
          o['e'] = 'ObsC'
          o['c'] = c
          self.ev.append(o)
      return None
    if self.dead or self.res is None:
      return None
    ok, o = self._guard('obs', lambda: self.obs(self.res))
    if not ok:
      return None
    o['e'] = 'Obs'
    self.ev.append(o)
    return o


BUNDLE = 8


def run_case(script):
  if 'behaviour' in script:
    o = _replay_one(script)
    return {'cfg': o['cfg'], 'ev': o['ev']}
  if 'episodes' in script:
    ev = []
    first = None
    for j, sub in enumerate(script['episodes']):
      o = _run_one(sub)
      if j == 0:
        first = o['cfg']
      else:
        ev.append({'e': 'Reset', 'comb': o['cfg']['comb'], 'n': o['cfg']['n']})
      ev.extend(o['ev'])
    return {'cfg': first, 'ev': ev}
  return _run_one(script)


def _run_one(script):
  loop = common.boot()
  loop.run_until_idle()
  cx = _Ctx(script['comb'], script['n'], script.get('on_hub', True), script.get('fnk', 'ret'),
            script.get('coll', 'list'), script.get('tree'))
  for op in script['ops']:
    if cx.dead:
      break
    k = op[0]
    if k == 'set':
      cx.set(op[1], op[2])
    elif k == 'new':
      cx.new()
    elif k == 'mut':
      cx.mut(op[1])
    elif k == 'q':
      loop.run_until_idle()
      cx.observe()
    elif k == 'step':
      loop.step(op[1])
  return {'cfg': {'comb': script['comb'], 'n': script['n']}, 'ev': cx.ev,
          'meta': {'errors': [str(e[1:3]) for e in loop.errors][:3]}}


def nontrivial(prop, t):
  ev = t['ev']
  if t['cfg']['n'] >= 2 or t['cfg']['comb'] in ('ContinueWith', 'Map', 'Reentrant') or any(e['e'] == 'Reset' for e in ev):
    return common.canon([t['cfg'], ev])
  return None


def _episode(t, consumed):
  """(combinator, events of the episode that contains event index `consumed`, index inside it)."""
  ev = t['ev']
  comb = t['cfg']['comb']
  start = 0
  for j, e in enumerate(ev[:consumed + 1]):
    if e['e'] == 'Reset':
      comb = e['comb']
      start = j + 1
  end = next((j for j in range(start, len(ev)) if ev[j]['e'] == 'Reset'), len(ev))
  return comb, ev[start:end], consumed - start


def extra_coverage(prop, tier, traces):
  return {'combinator_calls_evaluated': sum(1 + sum(1 for e in t['ev'] if e['e'] == 'Reset') for t in traces),
          # exceptions that escaped from a call into the code under test (judged by EscCheck; the ones the
          # statement is silent about pass as unjudged events)
          'escaped_calls': sum(1 for t in traces for e in t['ev'] if e['e'] == 'Esc')}


def witness(prop, t, consumed, clause):
  comb, ev, consumed = _episode(t, consumed)
  shape = 'other'
  if consumed < len(ev) and ev[consumed].get('e') == 'Esc':
    shape = 'escaped-call'
  elif consumed < len(ev) and ev[consumed].get('e') == 'Obs':
    o = ev[consumed]
    new_at = next((j for j, e in enumerate(ev) if e['e'] == 'New'), len(ev))
    pre = [e for e in ev[:new_at] if e['e'] == 'Set']
    if o['ok'] and o['exn'] != -1:
      shape = 'failure-after-success'
    elif any(e['k'] == 'fail' for e in pre):
      shape = 'precompleted-failure'
  return {'combinator': comb, 'shape': shape}


# ------------------------------------------------------------------ direction A
_SIM = [
  # (cfg, WhenAny variant modelled)
  ('AsyncImpl_q.cfg', 'fixed'),
  ('AsyncImpl_any_orig_sim.cfg', 'orig'),   # same constants, no invariant: simulation must not stop at the counterexample
]


def _spec_obs(st):
  """Observation of the result the spec state predicts (phase post only)."""
  rid = st['retid']
  c = st['cell'][rid] if isinstance(st['cell'], dict) else st['cell'][rid]
  val = c['val']
  ready = c['exc'] != -1 or val['vk'] != 'unset'
  ok = val['vk'] != 'unset'
  vk = 'none' if val['vk'] == 'unset' else val['vk']
  return {'ready': ready, 'ok': ok, 'exn': c['exc'], 'vk': vk,
          'val': list(val['val']) if vk in ('int', 'list', 'ar') else []}


def _slim(st):
  """Keep only what the replay reads."""
  keep = ('acomb', 'an', 'onhub', 'fnk', 'retid', 'cell', 'phase')
  out = {k: st[k] for k in keep if k in st}
  out['runq'] = [0] * len(st.get('runq', []))
  out['aruns'] = [0] * len(st.get('aruns', []))
  return out


def _replay_one(script):
  beh = script['behaviour']
  loop = common.boot()
  loop.run_until_idle()
  st0 = beh[0][1]
  comb, n = st0['acomb'], st0['an']
  cx = _Ctx(comb, n, bool(st0.get('onhub', True)), st0.get('fnk', 'ret'))
  steps = 0
  drift = None
  for (act, st) in beh[1:]:
    if cx.dead:
      break
    name, params = act
    raised = None
    try:
      if name == 'SetInput':
        cx.set(params[0], params[1])
      elif name == 'Call':
        cx.new()
      elif name == 'RunTask':
        loop.step_callback()
      else:
        raise RuntimeError('unknown action %r' % (name,))
    except RuntimeError:
      raise
    except Exception as e:   # a step of the replay itself failed: drift, never a crash
      raised = 'step: %r' % (e,)
    steps += 1
    if raised is None and cx.escaped:
      # the model never lets an exception out of a call: the real code did (the Esc event is in the trace
      # and is judged by AsyncAbs like any other observation)
      raised = 'exception escaped from the code under test at %s' % cx.escaped[-1]
    if drift is None and raised is not None:
      drift = {'step': steps, 'action': [name, params], 'spec': 'no exception', 'real': raised}
    if drift is None:
      try:
        spec = {'pending': len(st['runq'])}
        real = {'pending': int(loop.pendingcnt) if loop.has_callbacks() else 0}
        if st['phase'] == 'post':
          spec['obs'] = _spec_obs(st)
          real['obs'] = cx.obs(cx.res)
          spec['runs'] = len(st['aruns'])
          real['runs'] = sum(1 for e in cx.ev if e['e'] == 'Run')
      except Exception:  # projection unavailable: degrade to the observable-only oracle
        spec = real = None
      if spec != real:
        drift = {'step': steps, 'action': [name, params], 'spec': spec, 'real': real}
  loop.run_until_idle()
  cx.observe()
  return {'cfg': {'comb': comb, 'n': n}, 'ev': cx.ev, 'steps': steps, 'drift': drift}


def replay_behaviours(prop, tier, seed):
  _preload()
  groups = {}
  for cfg, variant in _SIM:
    if variant == 'fixed':
      # 14 initial states (combinator x on_hub x kind of continuation), 8 of them ContinueWith: enough
      # behaviours that every other combinator still gets about 50 (quick) / 500 (thorough)
      num = 700 if tier == 'quick' else 7000
    else:
      num = 120 if tier == 'quick' else 1000
    r, behs = tlc.simulate_behaviours('AsyncImpl', cfg, num=num, depth=40, seed=int(seed) + 1, timeout=900)
    if not behs:
      raise RuntimeError('no behaviours from TLC simulate (%s):\n%s' % (cfg, r.stdout[-2000:]))
    scripts = [{'behaviour': [[a, _slim(s)] for a, s in b]} for b in behs]
    del behs   # keep the parent small: it is forked once per behaviour
    res = common.run_forked(_replay_one, scripts)
    errs = [x['err'] for x in res if 'err' in x]
    if errs:
      raise RuntimeError('replay failed (%s): %s' % (cfg, errs[0]))
    for sc, x in zip(scripts, res):
      o = x['ok']
      key = variant if o['cfg']['comb'] == 'WhenAny' else 'common'
      groups.setdefault(key, []).append((cfg, sc, o))
  # WhenAny: the code is compared with both documented variants; it must conform to one of them
  ndrift = {v: sum(1 for _, _, o in groups.get(v, []) if o['drift']) for v in ('fixed', 'orig')}
  matched = min(('fixed', 'orig'), key=lambda v: (ndrift[v], v))
  traces, drift, steps, nbeh = [], [], 0, 0
  for key in ('common', matched):
    for cfg, sc, o in groups.get(key, []):
      steps += o['steps']
      nbeh += 1
      if o['drift']:
        d = dict(o['drift'])
        d['cfg'] = cfg
        drift.append(d)
      traces.append({'cfg': o['cfg'], 'ev': o['ev'], 'script': sc})
  return {'summary': {'behaviours_replayed': nbeh, 'steps_compared': steps, 'drift': len(drift),
                      'whenany_variant_matched': matched, 'whenany_drift_by_variant': ndrift},
          'traces': traces, 'drift': drift}
