"""Engine `muxwire` (C13): ThriftMux frames are byte-exact.

Reference-function form of the TLA+ technique (DESIGN 5/C13, 7): specs/MuxWire.tla defines the
mux encoder, an independently written decoder and the reply-header reader over Seq(0..255);
  * MuxWireCheck.tla model-checks Decode(Encode(m)) = m, ReadHeader(Header(t, g)) = <<t, g>> and
    "the Check operators accept every reference frame / reject every single-byte corruption" over
    a bounded domain (and documents the design-level counterexamples of the code-shaped writer);
  * MuxWireTrace.tla validates recorded (input, bytes) pairs produced by the REAL code, in batches.
There is no Python oracle: the driver only supplies inputs and copies out the bytes the code wrote.

Two driving modes (both use only real classes from /repo):
  direct  scales.thriftmux.serializer.MessageSerializer.Marshal on an in-memory stream, then the real
          SocketTransportSink._BuildHeader(tag, type, len) -- any tag in [0, 2^24), any deadline;
          ThriftMuxMessageSerializerSink.ReadHeader on the header bytes the writer produced.
  stack   ClientIdInterceptorSink -> ThriftMuxMessageSerializerSink -> SocketTransportSink opened over
          a fake socket on the virtual loop: the frames are exactly what the send loop wrote to the
          socket (Tping of the open handshake, Tdispatch, Tdiscarded after the timeout event).
The Thrift call inside a Tdispatch is opaque here (C14 owns it): a stand-in "generated" service
writes a scripted blob; the expected payload is what scales.thrift.serializer produces for the
same call on its own.
"""
import random

from harness import common

NAME = 'muxwire'
PROPS = ['C13']
LEVEL = {'C13': 'exploration'}
TRACE_MODULE = 'MuxWireTrace'
TRACE_CFG = 'MuxWireTrace.cfg'
TRACE_CHUNK = 40
CASE_TIMEOUT = 300
ASSUMPTIONS = [
  'input-universal property: TLC cannot enumerate the input space; the TLA+ reference codec (MuxWire) is '
  'evaluated by TLC on recorded (input, bytes) pairs (exploration) and is itself model-checked for '
  'Decode(Encode(m)) = m over a bounded domain (MuxWireCheck)',
  'context keys/values are text (Unicode scalar values, no lone surrogates) whose UTF-8 form is shorter than '
  '32768 bytes (the mux length prefix is 16 bit); keys are distinct (a dictionary) and caller keys do not '
  'start with "__" (scales-private) nor collide with the finagle ClientId/Deadline context names',
  'the Thrift call inside a Tdispatch is opaque: the expected payload is the output of '
  'scales.thrift.serializer for the same call (its correctness is C14)',
  'header writer/reader are exercised for the message types of scales/thriftmux/protocol.py; the reader for '
  'the reply types (negative types and BAD_Rerr = 127)',
  'Tdiscarded frames taken from the socket: the reason text and the frame\'s own tag are chosen by the '
  'transport, only the discarded tag is an input (reason/tag clauses are evaluated in direct mode)',
]
RULE = {'C13': 'records generated from VERIF_SEED: message kind x tag class (byte boundaries + random) x context '
               'dictionaries (0-6 entries; ASCII, 2/3/4-byte code points, empty strings, long strings) x client id x '
               'deadline (boundary and random int64) x opaque payload, plus every context of the bounded model domain '
               '(<= 2 entries over a 1-/2-/3-/4-byte alphabet); ~12 records per trace, one class per trace; '
               'a trace is non-trivial if it has a Tdispatch with a non-empty context, a Tdiscarded or a header '
               'read-back; distinct by canonical record list'}

CLIENT_ID_KEY = 'com.twitter.finagle.thrift.ClientIdContext'    # finagle context names (protocol constants)
DEADLINE_KEY = 'com.twitter.finagle.Deadline'
TAG_BOUNDARY = [0, 1, 2, 255, 256, 65535, 65536, (1 << 24) - 2, (1 << 24) - 1]
MSG_TYPES = [2, -2, -128, 127, 65, -65, 66, -62]                # scales/thriftmux/protocol.py MessageType
Z4 = [0, 0, 0, 0]


# ------------------------------------------------------------------ stand-in generated thrift service
class Iface(object):
  def call(self, blob):
    pass

  def other(self, blob):
    pass


class _Args(object):
  thrift_spec = None

  def __init__(self, blob=b''):
    self.blob = blob

  def write(self, oprot):
    oprot.trans.write(self.blob)


class call_args(_Args):
  pass


class call_result(object):
  pass


class other_args(_Args):     # no other_result: a oneway call
  pass


# ------------------------------------------------------------------ model checking
def models(prop, tier):
  if tier == 'quick':
    return [
      dict(module='MuxWireCheck', cfg='MuxWireCheck_q.cfg', workers=8,
           what='round trip + Check operators accept/reject on: 3 tags, contexts <= 2 entries over 1-4 byte '
                'code points (keys/values <= 1 cp), deadlines, 3 payloads; headers: all 256 types x boundary '
                'tags, protocol types x 5 blocks of 65536 tags'),
      dict(module='MuxWireCheck', cfg='MuxWireCheck_asis.cfg', workers=4, expect_violation='ImplAgrees',
           what='code-shaped _WriteContext as of the snapshot (length = characters): TLC returns the '
                'counterexample (a non-ASCII context string)'),
      dict(module='MuxWireCheck', cfg='MuxWireCheck_asis_hdr.cfg', workers=4, expect_violation='ImplAgrees',
           what='code-shaped ReadHeader as of the snapshot ((256 - b) * -1): counterexample reply type 127'),
    ]
  return [
    dict(module='MuxWireCheck', cfg='MuxWireCheck_t.cfg', workers=12, timeout=3000,
         what='5 boundary tags, contexts <= 2 entries (keys <= 2 cp, 231 entries), all 2^24 tags for the 7 protocol types, all 256 type bytes x boundary tags of every 65536-block'),
    dict(module='MuxWireCheck', cfg='MuxWireCheck_asis.cfg', workers=4, expect_violation='ImplAgrees',
         what='code-shaped _WriteContext as of the snapshot: counterexample'),
    dict(module='MuxWireCheck', cfg='MuxWireCheck_asis_hdr.cfg', workers=4, expect_violation='ImplAgrees',
         what='code-shaped ReadHeader as of the snapshot: counterexample reply type 127'),
  ]


# ------------------------------------------------------------------ input generators
ASCII = [chr(c) for c in range(32, 127)]
CP2 = [0x80, 0xE9, 0xFC, 0x3B1, 0x7FF]
CP3 = [0x800, 0x20AC, 0x4E2D, 0xD7FF, 0xE000, 0xFFFD, 0xFFFF]
CP4 = [0x10000, 0x1F600, 0x2070E, 0x10FFFF]


def _text(rng, cls, maxlen=12):
  """cls: 'ascii' | 'uni' (mixed 1-4 byte code points) | 'long'."""
  if cls == 'long':
    n = rng.choice([127, 128, 255, 256, 300, 1000])
    pool = rng.choice([ASCII, [chr(c) for c in CP2], [chr(c) for c in CP3 + CP4]])
    return ''.join(rng.choice(pool) for _ in range(n))
  n = rng.choice([0, 1, 1, 2, 3, 5, 8, maxlen])
  if cls == 'ascii':
    return ''.join(rng.choice(ASCII) for _ in range(n))
  out = []
  for _ in range(n):
    k = rng.random()
    if k < 0.35:
      out.append(rng.choice(ASCII))
    elif k < 0.4:
      out.append('\x00')
    elif k < 0.6:
      out.append(chr(rng.choice(CP2)))
    elif k < 0.8:
      out.append(chr(rng.choice(CP3)))
    elif k < 0.92:
      out.append(chr(rng.choice(CP4)))
    else:
      c = rng.randint(0x80, 0x10FFFF)
      if 0xD800 <= c <= 0xDFFF:
        c = 0xE9
      out.append(chr(c))
  return ''.join(out)


def _props(rng, cls, nmax=6):
  n = rng.choice([0, 1, 1, 2, 2, 3, nmax])
  d = {}
  tries = 0
  while len(d) < n and tries < 50:
    tries += 1
    k = _text(rng, cls)
    if rng.random() < 0.12:
      k = '_' + k.lstrip('_')        # a single leading underscore is still a public property
    if k.startswith('__') or k in (CLIENT_ID_KEY, DEADLINE_KEY) or k in d:
      continue
    d[k] = _text(rng, cls)
  if cls == 'long' and d:
    k = next(iter(d))
    d[k] = _text(rng, 'long')
  return [[k, v] for k, v in d.items()]


I64_BOUNDARY = [0, 1, -1, 255, 256, (1 << 31) - 1, 1 << 31, (1 << 32) - 1, 1 << 32, (1 << 63) - 1, -(1 << 63),
                1000000 * 10 ** 9, 1758826000 * 10 ** 9]


def _i64(rng):
  if rng.random() < 0.5:
    return rng.choice(I64_BOUNDARY)
  return rng.randint(-(1 << 63), (1 << 63) - 1)


def _tag(rng, i, lo=0, hi=(1 << 24) - 1):
  c = [t for t in TAG_BOUNDARY if lo <= t <= hi]
  if i < len(c):
    return c[i]
  return rng.choice([rng.randint(lo, hi), rng.randint(lo, min(hi, 70000)), rng.choice(c)])


def _blob(rng, big=False):
  n = rng.choice([0, 1, 2, 7, 16, 33, 64]) if not big else rng.choice([255, 256, 1000, 4096])
  return [rng.randint(0, 255) for _ in range(n)]


def _disp_rec(rng, i, cls, mode):
  rec = {'k': 'disp', 'props': _props(rng, cls), 'method': rng.choice(['call', 'call', 'other']),
         'blob': _blob(rng, big=(cls == 'long' and rng.random() < 0.3)), 'client_id': None, 'deadline': None}
  if rng.random() < 0.5:
    rec['client_id'] = _text(rng, 'ascii' if cls == 'ascii' else 'uni') or 'client'
  if mode == 'direct':
    rec['tag'] = _tag(rng, i)
    if rng.random() < 0.5:
      rec['deadline'] = {'ts': _i64(rng), 'to': _i64(rng)}
  else:
    rec['tag'] = _tag(rng, i, 2, (1 << 24) - 2)
    if rng.random() < 0.6:
      rec['deadline'] = {'in_ms': rng.choice([1, 10, 250, 1000, 10000, 3600000])}     # time to the deadline
    rec['discard'] = rng.random() < 0.4
  return rec


def cases(prop, tier, seed):
  rng = random.Random(7919 * int(seed) + 13)
  quick = tier == 'quick'
  mult = 1 if quick else 5          # thorough: 5x the traces, 3x the records per trace (fork cost is per trace)
  per = 12 if quick else 36
  out = []
  # header writer / reader: every protocol type x tag classes x body lengths (systematic + random)
  lens = [0, 1, 3, 255, 256, 65535, 65536, 1 << 24, 1 << 30]
  for rep in range(2 * mult):
    for ty in MSG_TYPES:
      recs = []
      for i in range(per):
        recs.append({'k': 'hdr', 'type': ty, 'tag': _tag(rng, i if rep == 0 else 99),
                     'len': lens[(i + rep) % len(lens)] if rng.random() < 0.8 else rng.randint(0, 1 << 20)})
      out.append({'mode': 'direct', 'cls': 'hdr', 'recs': recs})
  # Tdispatch / Tdiscarded, one class per trace
  plan = [('direct', 'ascii', 24), ('direct', 'uni', 28), ('direct', 'long', 6),
          ('stack', 'ascii', 18), ('stack', 'uni', 22), ('stack', 'long', 4)]
  for mode, cls, n in plan:
    for c in range(n * mult):
      recs = [_disp_rec(rng, i if c % 3 == 0 else 99, cls, mode) for i in range(per if cls != 'long' else per // 3)]
      sc = {'mode': mode, 'cls': cls, 'recs': recs}
      if mode == 'stack':    # clock offset (s, on the 1/16 lattice) at which the connection lives
        sc['clock'] = rng.choice([0, 1, 1000, 758826000]) + rng.randint(0, 15) / 16.0
        sc['rnd'] = rng.randint(0, 1 << 30)
      out.append(sc)
  # systematic: the bounded domain of MuxWireCheck (alphabet with 1-, 2-, 3-, 4-byte code points) on the real code
  alpha = ['A', chr(0xE9), chr(0x20AC), chr(0x1F600)]
  strs1 = [''] + alpha
  strs2 = strs1 + [a + b for a in alpha for b in alpha]
  sysrecs = []
  for k in strs2:
    for v in strs1:
      sysrecs.append([[k, v]])
  for k1 in alpha:
    for k2 in alpha:
      if k1 != k2:
        for v1 in strs1:
          for v2 in strs1:
            sysrecs.append([[k1, v1], [k2, v2]])
  for i in range(0, len(sysrecs), per):
    recs = []
    for j, props in enumerate(sysrecs[i:i + per]):
      recs.append({'k': 'disp', 'props': props, 'method': 'call', 'blob': [0, 255][:(i + j) % 3], 'client_id': None,
                   'deadline': None if (i + j) % 4 else {'ts': I64_BOUNDARY[(i + j) % len(I64_BOUNDARY)], 'to': -1},
                   'tag': TAG_BOUNDARY[(i + j) % len(TAG_BOUNDARY)]})
    out.append({'mode': 'direct', 'cls': 'systematic', 'recs': recs})
  for cls, n in (('ascii', 6), ('uni', 8)):
    for c in range(n * mult):
      recs = [{'k': 'disc', 'tag': rng.choice([0, 0, 1, 65536, (1 << 24) - 1]), 'which': _tag(rng, i if c == 0 else 99),
               'why': _text(rng, cls, 40) if rng.random() < 0.8 else 'Client timeout'} for i in range(per)]
      recs.append({'k': 'ping'})
      out.append({'mode': 'direct', 'cls': 'disc-' + cls, 'recs': recs})
  return out


# ------------------------------------------------------------------ drivers
def _cps(s):
  return [ord(c) for c in s]


def _limbs(x):
  x &= (1 << 64) - 1
  return [(x >> 48) & 0xffff, (x >> 32) & 0xffff, (x >> 16) & 0xffff, x & 0xffff]


def _text_entry(k, v):
  return {'k': _cps(k), 'vt': 's', 'v': _cps(v), 'ts': Z4, 'to': Z4}


def _dl_entry(ts, to):
  return {'k': _cps(DEADLINE_KEY), 'vt': 'd', 'v': [], 'ts': _limbs(ts), 'to': _limbs(to)}


class _FakeSocket(object):
  """An in-memory connection: records every write; answers Tping with Rping (own encoding)."""
  host = 'peer'
  port = 9

  def __init__(self):
    from gevent.event import Event
    self.written = []
    self.rbuf = b''
    self.ev = Event()
    self.closed = False

  def open(self):
    pass

  def isOpen(self):
    return not self.closed

  def close(self):
    self.closed = True
    self.ev.set()

  def write(self, b):
    b = bytes(b)
    self.written.append(b)
    if b[4:5] == b'\x41':
      self.rbuf += b'\x00\x00\x00\x04\xbf' + b[5:8]
      self.ev.set()

  def readAll(self, n):
    while len(self.rbuf) < n:
      if self.closed:
        raise EOFError('closed')
      self.ev.clear()
      self.ev.wait()
    r, self.rbuf = self.rbuf[:n], self.rbuf[n:]
    return r


def _expected_payload(msg):
  """The Thrift call as the (neighbouring) Thrift serializer produces it on its own."""
  from scales.compat import BytesIO
  from scales.thrift.serializer import MessageSerializer as ThriftSerializer
  b = BytesIO()
  ThriftSerializer(Iface).SerializeThriftCall(msg, b)
  return list(b.getvalue())


def _new_msg(rec):
  from scales.message import MethodCallMessage
  msg = MethodCallMessage(Iface, rec['method'], (bytes(bytearray(rec['blob'])),), {})
  msg.properties['__Endpoint'] = None           # as MessageDispatcher does; private, never transported
  for k, v in rec['props']:
    msg.properties[k] = v
  return msg


def _run_direct(script, loop):
  from scales.compat import BytesIO
  from scales.constants import TransportHeaders
  from scales.message import MethodDiscardMessage, Deadline
  from scales.thriftmux.serializer import MessageSerializer
  from scales.thriftmux.sink import SocketTransportSink, ThriftMuxMessageSerializerSink
  transport = SocketTransportSink(_FakeSocket(), 'svc')
  ev = []
  for rec in script['recs']:
    k = rec['k']
    if k == 'hdr':
      e = {'e': 'Hdr', 'type': rec['type'], 'tag': rec['tag'], 'len': rec['len'], 'bytes': [], 'raised': 'none',
           'read': False, 'rtype': 0, 'rtag': 0, 'rraised': 'none'}
      try:
        hdr = transport._BuildHeader(rec['tag'], rec['type'], rec['len'])
        e['bytes'] = list(bytearray(hdr))
      except Exception as ex:
        e['raised'] = type(ex).__name__
      if e['raised'] == 'none' and (rec['type'] < 0 or rec['type'] == 127) and len(e['bytes']) == 8:
        e['read'] = True
        try:
          rtype, rtag = ThriftMuxMessageSerializerSink.ReadHeader(BytesIO(hdr[4:]))
          e['rtype'], e['rtag'] = int(rtype), int(rtag)
        except Exception as ex:
          e['rraised'] = type(ex).__name__
      ev.append(e)
    elif k == 'ping':
      e = {'e': 'Ping', 'tag': 1, 'frame': [], 'raised': 'none'}
      try:
        e['frame'] = list(bytearray(transport._BuildHeader(1, 65, 0)))
      except Exception as ex:
        e['raised'] = type(ex).__name__
      ev.append(e)
    elif k == 'disc':
      e = {'e': 'Disc', 'tag': rec['tag'], 'which': rec['which'], 'why': _cps(rec['why']), 'whyKnown': True,
           'frame': [], 'raised': 'none'}
      try:
        buf, headers = BytesIO(), {}
        MessageSerializer(None).Marshal(MethodDiscardMessage(rec['which'], rec['why']), buf, headers)
        hdr = transport._BuildHeader(rec['tag'], headers[TransportHeaders.MessageType], buf.tell())
        e['frame'] = list(bytearray(hdr + buf.getvalue()))
      except Exception as ex:
        e['raised'] = type(ex).__name__
      ev.append(e)
    elif k == 'disp':
      msg = _new_msg(rec)
      ctx = [_text_entry(a, b) for a, b in rec['props']]
      if rec['client_id'] is not None:
        msg.properties[CLIENT_ID_KEY] = rec['client_id']
        ctx.append(_text_entry(CLIENT_ID_KEY, rec['client_id']))
      headers = {}
      if rec['deadline'] is not None:
        d = Deadline(1)
        if hasattr(d, '_ts') and hasattr(d, '_timeout'):      # any int64 pair
          d._ts, d._timeout = rec['deadline']['ts'], rec['deadline']['to']
          ctx.append(_dl_entry(d._ts, d._timeout))
        else:                                                 # documented meaning: (now, timeout) in ns
          ctx.append(_dl_entry(int(loop.now()) * 10 ** 9, 10 ** 9))
        headers[DEADLINE_KEY] = d
      e = {'e': 'Disp', 'tag': rec['tag'], 'ctx': ctx, 'payload': _expected_payload(msg), 'frame': [],
           'raised': 'none'}
      try:
        buf = BytesIO()
        MessageSerializer(Iface).Marshal(msg, buf, headers)
        hdr = transport._BuildHeader(rec['tag'], headers[TransportHeaders.MessageType], buf.tell())
        e['frame'] = list(bytearray(hdr + buf.getvalue()))
      except Exception as ex:
        e['raised'] = type(ex).__name__
      ev.append(e)
  return ev, {'mode': 'direct'}


def _run_stack(script, loop):
  import collections
  from harness.simgevent.vloop import EPOCH
  from scales.constants import SinkProperties
  from scales.message import Deadline
  from scales.observable import Observable
  from scales.sink import ClientMessageSink, ClientMessageSinkStack
  from scales.thriftmux.sink import (SocketTransportSink, ThriftMuxMessageSerializerSink,
                                     ClientIdInterceptorSink)
  try:
    from scales.mux.sink import Tag
    tag_key = Tag.KEY
  except Exception:
    tag_key = '__Tag'

  class Prov(object):
    def __init__(self, s):
      self.s = s

    def CreateSink(self, props):
      return self.s

  class Tap(ClientMessageSink):
    """Pass-through between serializer and transport: sees the Deadline object that is marshalled."""
    def __init__(self, nxt):
      super(Tap, self).__init__()
      self.next_sink = nxt
      self.seen = None

    def AsyncProcessRequest(self, sink_stack, msg, stream, headers):
      self.seen = (msg, headers)
      self.next_sink.AsyncProcessRequest(sink_stack, msg, stream, headers)

    def AsyncProcessResponse(self, sink_stack, context, stream, msg):
      raise NotImplementedError()

  class Reply(ClientMessageSink):
    def __init__(self):
      super(Reply, self).__init__()
      self.got = []

    def AsyncProcessRequest(self, *a):
      pass

    def AsyncProcessResponse(self, sink_stack, context, stream, msg):
      self.got.append(msg)

  import scales.thriftmux.sink as tmsink
  tmsink.random = random.Random(script.get('rnd', 0))        # ping period 30..40 s: scripted
  loop.advance_to(EPOCH + script.get('clock', 0))
  sock = _FakeSocket()
  transport = SocketTransportSink(sock, 'svc')
  open_ar = transport.Open()
  loop.run_until_idle()
  if not (open_ar.ready() and open_ar.successful()):
    raise RuntimeError('harness: transport did not open over the fake socket: %r' % (open_ar.exception,))
  ev = []
  for w in sock.written:                      # the Tping of the open handshake (its tag is the transport's choice)
    if w[4:5] == b'\x41':
      ev.append({'e': 'Ping', 'tag': -1, 'frame': list(bytearray(w)), 'raised': 'none'})
  tap = Tap(transport)
  ser = ThriftMuxMessageSerializerSink(Prov(tap), None, {SinkProperties.ServiceInterface: Iface,
                                                         SinkProperties.Label: 'svc'})
  Params = collections.namedtuple('Params', 'client_id')
  forced = 0
  for rec in script['recs']:
    msg = _new_msg(rec)
    ctx = [_text_entry(a, b) for a, b in rec['props']]
    top = ser
    if rec['client_id'] is not None:
      top = ClientIdInterceptorSink(Prov(ser), Params(client_id=rec['client_id']), {})
      ctx.append(_text_entry(CLIENT_ID_KEY, rec['client_id']))
    evt = Observable()
    msg.properties[Deadline.EVENT_KEY] = evt
    dl = rec['deadline']
    if dl is not None:
      msg.properties[Deadline.KEY] = loop.now() + dl['in_ms'] / 1000.0
    now, deadline = loop.now(), msg.properties.get(Deadline.KEY)
    try:                                      # choose the tag the pool hands out next (optional knob)
      pool = transport._tag_pool
      if not pool._set:
        pool._next = rec['tag'] - 1
        forced += 1
    except AttributeError:
      pass
    expected_payload = _expected_payload(msg)
    reply = Reply()
    stack = ClientMessageSinkStack()
    stack.Push(reply, None)
    n0 = len(sock.written)
    tap.seen = None
    raised = 'none'
    try:
      top.AsyncProcessRequest(stack, msg, None, {})
      loop.run_until_idle()
    except Exception as ex:
      raised = type(ex).__name__
    if raised == 'none' and reply.got and reply.got[0].error is not None:
      raised = type(reply.got[0].error).__name__
    if dl is not None:
      d = tap.seen[1].get(DEADLINE_KEY) if tap.seen else None
      try:
        ts, to = int(d._ts), int(d._timeout)
      except AttributeError:                  # documented meaning: (now, deadline) in nanoseconds
        ts, to = int(now) * 10 ** 9, int(deadline * 1000000000)
      ctx.append(_dl_entry(ts, to))
    tag = msg.properties.get(tag_key)
    frames = sock.written[n0:]
    if raised == 'none' and (len(frames) != 1 or not isinstance(tag, int)):
      raise RuntimeError('harness: expected one frame per request, got %d (tag %r)' % (len(frames), tag))
    ev.append({'e': 'Disp', 'tag': tag if raised == 'none' else 0, 'ctx': ctx, 'payload': expected_payload,
               'frame': list(bytearray(frames[0])) if raised == 'none' else [], 'raised': raised})
    if raised == 'none' and rec.get('discard'):
      n1 = len(sock.written)
      evt.Set(True)                           # the call timed out in transit -> Tdiscarded(tag)
      loop.run_until_idle()
      fr = sock.written[n1:]
      if len(fr) != 1:
        raise RuntimeError('harness: expected one Tdiscarded frame, got %d' % len(fr))
      ev.append({'e': 'Disc', 'tag': -1, 'which': tag, 'why': [], 'whyKnown': False,
                 'frame': list(bytearray(fr[0])), 'raised': 'none'})
  return ev, {'mode': 'stack', 'tags_forced': forced, 'errors': [repr(x[1:3]) for x in loop.errors][:3]}


def run_case(script):
  loop = common.boot()
  if script['mode'] == 'stack':
    ev, meta = _run_stack(script, loop)
  else:
    ev, meta = _run_direct(script, loop)
  return {'cfg': {'mode': script['mode'], 'cls': script.get('cls', '')}, 'ev': ev, 'meta': meta}


# ------------------------------------------------------------------ classification
def _non_ascii(e):
  if e['e'] == 'Disp':
    return any(c >= 128 for x in e['ctx'] for c in x['k'] + x['v'])
  if e['e'] == 'Disc':
    return any(c >= 128 for c in e['why'])
  return False


def nontrivial(prop, t):
  for e in t['ev']:
    if (e['e'] == 'Disp' and e['ctx']) or e['e'] == 'Disc' or (e['e'] == 'Hdr' and e['read']):
      return common.canon(t['ev'])
  return None


def witness(prop, t, consumed, clause):
  if consumed >= len(t['ev']):
    return {}
  e = t['ev'][consumed]
  w = {'kind': e['e']}
  if e['e'] == 'Hdr':
    w['type'] = e['type']
  else:
    w['non_ascii'] = _non_ascii(e)
  return w


def extra_coverage(prop, tier, traces):
  kinds = {}
  nonascii = 0
  via_socket = 0
  tags = set()
  for t in traces:
    for e in t['ev']:
      kinds[e['e']] = kinds.get(e['e'], 0) + 1
      nonascii += 1 if _non_ascii(e) else 0
      if t['cfg'].get('mode') == 'stack':
        via_socket += 1
      if 'tag' in e:
        tags.add(e['tag'])
  return {'records': sum(kinds.values()), 'records_by_kind': kinds, 'records_non_ascii': nonascii,
          'frames_taken_from_socket': via_socket, 'distinct_tags': len(tags),
          'boundary_tags_seen': sorted(tg for tg in tags if tg in TAG_BOUNDARY)}
