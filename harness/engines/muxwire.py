"""Engine `muxwire` (C13): ThriftMux frames are byte-exact.

Reference-function form of the TLA+ technique (DESIGN 5/C13, 7): specs/MuxWire.tla defines the
mux encoder, an independently written decoder and the reply-header reader over Seq(0..255);
  * MuxWireCheck.tla model-checks Decode(Encode(m)) = m, ReadHeader(Header(t, g)) = <<t, g>> and
    "the Check operators accept every reference frame / reject every single-byte corruption" over
    a bounded domain (and documents the design-level counterexamples of the code-shaped writer);
  * MuxWireTrace.tla validates recorded (input, bytes) pairs produced by the REAL code, in batches.
  * MuxStreamAbs.tla (stream mode) judges the byte stream of a LIVE connection: the chunks the connection
    accepted are framed (4-byte length + exactly that many bytes, trailing partial frame only if the
    connection was closed in mid-write) and every frame is matched against what was supplied: each Tdispatch
    is the encoding of exactly one supplied dispatch (at most once), each Tdiscarded names the tag of an
    earlier Tdispatch whose call's discard was supplied (its timeout was signalled to the transport) and that
    no earlier Tdiscarded has named, and carries a reason, each Tping has an empty body;
  * MuxSendLoop.tla is the code-shaped model of the writer side (callers parking during the open, send queue,
    single writer greenlet with partial socket writes, ping loop, deadline events) with MuxStreamAbs embedded
    in lock-step; TLC checks "the delivered stream is the concatenation of the supplied frames in queue
    order" and returns counterexamples for four seeded designs (shared marshal buffer, ping written
    directly to the socket, blocked write abandoned at the deadline, shared prebuilt Tdiscarded frame).
There is no Python oracle: the driver only supplies inputs and copies out the bytes the code wrote.

Three driving modes (all use only real classes from /repo):
  direct  scales.thriftmux.serializer.MessageSerializer.Marshal on an in-memory stream, then the real
          SocketTransportSink._BuildHeader(tag, type, len) -- any tag in [0, 2^24), any deadline;
          ThriftMuxMessageSerializerSink.ReadHeader on the header bytes the writer produced.
  stack   ClientIdInterceptorSink -> ThriftMuxMessageSerializerSink -> SocketTransportSink opened over
          a fake socket on the virtual loop: the frames are exactly what the send loop wrote to the
          socket (Tping of the open handshake, Tdispatch, Tdiscarded after the timeout event).
  stream  TimeoutSink -> [ClientIdInterceptorSink] -> ThriftMuxMessageSerializerSink -> SocketTransportSink ->
          VarzSocketWrapper/ScalesSocket over a simulated connection with a send-buffer model (partial
          writes, write low-water mark) on the virtual loop: calls from concurrent greenlets (also while
          the connection is still opening), deadlines (Tdiscarded), the periodic ping (scripted period),
          back-pressure placed around those instants, replies, faults.  Recorded: what the script supplied
          (dispatches: contexts incl. client id and deadline + Thrift call; discards: the call whose deadline
          event the stack's timeout sink signalled) and every chunk the connection accepted.  Variants: large
          bodies (up to 66 kB, exact body lengths around 16384 / 65536) against a socket that blocks inside the
          8-byte frame header; 'raw' = the transport sink over a bare ScalesSocket (ScalesSocket.write's loop
          over partial send() calls is on the write path) with a handle that takes a frame in 3-6 pieces.
The Thrift call inside a Tdispatch is opaque here (C14 owns it): a stand-in "generated" service
writes a scripted blob; the expected payload is what scales.thrift.serializer produces for the
same call on its own.
"""
import random

from harness import common

NAME = 'muxwire'
PROPS = ['C13']
LEVEL = {'C13': 'exploration'}
TRACE_MODULE = 'MuxWireTrace'
TRACE_CFG = 'MuxWireTrace.cfg'
TRACE_CHUNK = 40
CASE_TIMEOUT = 300
ASSUMPTIONS = [
  'input-universal property: TLC cannot enumerate the input space; the TLA+ reference codec (MuxWire) is '
  'evaluated by TLC on recorded (input, bytes) pairs (exploration) and is itself model-checked for '
  'Decode(Encode(m)) = m over a bounded domain (MuxWireCheck)',
  'context keys/values are text (Unicode scalar values, no lone surrogates) whose UTF-8 form is shorter than '
  '32768 bytes (the mux length prefix is 16 bit); keys are distinct (a dictionary) and caller keys do not '
  'start with "__" (scales-private) nor collide with the finagle ClientId/Deadline context names',
  'the Thrift call inside a Tdispatch is opaque: the expected payload is the output of '
  'scales.thrift.serializer for the same call (its correctness is C14)',
  'header writer/reader are exercised for the message types of scales/thriftmux/protocol.py; the reader for '
  'the reply types (negative types and BAD_Rerr = 127)',
  'Tdiscarded frames taken from the socket: the reason text and the frame\'s own tag are chosen by the '
  'transport, only the discarded tag is an input (reason/tag clauses are evaluated in direct mode)',
  'calls the Thrift serializer rejects (unknown keyword, wrong argument count, wrong type, text without UTF-8 form) '
  'are not inputs: they are interleaved with good calls on the same serializer / client stack in all three modes, '
  'nothing is supplied for them (a frame carrying one would match no supplied call) and the frames of later calls '
  'are judged as always',
  'stream mode: one connection per trace; the tag of a Tdispatch/Tping is the transport\'s choice (C11), a frame '
  'is attributed to a supplied dispatch by its Thrift call (the script makes the calls pairwise distinct); '
  'whether/when a supplied message (dispatch or discard) is written at all, and the order among discards, is not '
  'judged (C12, C02); a discard is supplied when the timeout sink signals the call\'s deadline event (observed by a '
  'subscriber on that event; if a tree has no such event the oracle falls back to "tag of an earlier Tdispatch"); '
  'a Tdiscarded must name the tag of an earlier Tdispatch frame whose call\'s discard was supplied and not yet named '
  'by another Tdiscarded, and carry UTF-8 text; a trailing partial frame is accepted only '
  'if the connection was closed while a write was in progress; the simulated socket accepts what fits its send '
  'buffer, wakes a blocked sender at the write low-water mark and, like gevent, refuses a second blocked sender',
]
RULE = {'C13': 'records generated from VERIF_SEED: message kind x tag class (byte boundaries + random) x context '
               'dictionaries (0-6 entries; ASCII, 2/3/4-byte code points, empty strings, long strings) x client id x '
               'deadline (boundary and random int64) x opaque payload, plus every context of the bounded model domain '
               '(<= 2 entries over a 1-/2-/3-/4-byte alphabet); ~12 records per trace, one class per trace; '
               'a trace is non-trivial if it has a Tdispatch with a non-empty context, a Tdiscarded or a header '
               'read-back; distinct by canonical record list.  Stream mode: seeded timelines in four families '
               '(calls while the connection opens; periodic ping due while a frame is stuck in the socket; deadline '
               'expiring while a frame is stuck or queued behind it; 2-4 calls with one deadline instant; calls on the '
               'wire timing out while the writer is blocked; random mix with faults/close; calls the Thrift serializer rejects between good calls; large calls whose Tdispatch '
               'body has exactly 1400..20000 (thorough: ..66000) bytes, straddling 16384 and 65536, meeting a socket that '
               'takes only 0..7 bytes of the frame header, their own deadline inside that block; "raw": the same stack '
               'with the transport over a bare ScalesSocket taking a frame in several send() calls), ASCII and non-ASCII '
               'contexts; a stream trace is non-trivial if at least two dispatches were supplied and a write was '
               'split, a call was issued before the open completed, or a Tdiscarded / periodic Tping was written'}

CLIENT_ID_KEY = 'com.twitter.finagle.thrift.ClientIdContext'    # finagle context names (protocol constants)
DEADLINE_KEY = 'com.twitter.finagle.Deadline'
TAG_BOUNDARY = [0, 1, 2, 255, 256, 65535, 65536, (1 << 24) - 2, (1 << 24) - 1]
MSG_TYPES = [2, -2, -128, 127, 65, -65, 66, -62]                # scales/thriftmux/protocol.py MessageType
Z4 = [0, 0, 0, 0]


# ------------------------------------------------------------------ stand-in generated thrift service
class Iface(object):
  def call(self, blob):
    pass

  def other(self, blob):
    pass


class _Args(object):
  thrift_spec = None

  def __init__(self, blob=b''):
    self.blob = blob

  def write(self, oprot):
    oprot.trans.write(self.blob)


class call_args(_Args):
  pass


class call_result(object):
  pass


class other_args(_Args):     # no other_result: a oneway call
  pass


# ------------------------------------------------------------------ model checking
def models(prop, tier):
  if tier == 'quick':
    return [
      dict(module='MuxWireCheck', cfg='MuxWireCheck_q.cfg', workers=8,
           what='round trip + Check operators accept/reject on: 3 tags, contexts <= 2 entries over 1-4 byte '
                'code points (keys/values <= 1 cp), deadlines, 3 payloads; headers: all 256 types x boundary '
                'tags, protocol types x 5 blocks of 65536 tags'),
      dict(module='MuxWireCheck', cfg='MuxWireCheck_asis.cfg', workers=4, expect_violation='ImplAgrees',
           what='code-shaped _WriteContext as of the snapshot (length = characters): TLC returns the '
                'counterexample (a non-ASCII context string)'),
      dict(module='MuxWireCheck', cfg='MuxWireCheck_asis_hdr.cfg', workers=4, expect_violation='ImplAgrees',
           what='code-shaped ReadHeader as of the snapshot ((256 - b) * -1): counterexample reply type 127'),
    ] + _sendloop_models(True)
  return [
    dict(module='MuxWireCheck', cfg='MuxWireCheck_t.cfg', workers=12, timeout=3000,
         what='5 boundary tags, contexts <= 2 entries (keys <= 2 cp, 231 entries), all 2^24 tags for the 7 protocol types, all 256 type bytes x boundary tags of every 65536-block'),
    dict(module='MuxWireCheck', cfg='MuxWireCheck_asis.cfg', workers=4, expect_violation='ImplAgrees',
         what='code-shaped _WriteContext as of the snapshot: counterexample'),
    dict(module='MuxWireCheck', cfg='MuxWireCheck_asis_hdr.cfg', workers=4, expect_violation='ImplAgrees',
         what='code-shaped ReadHeader as of the snapshot: counterexample reply type 127'),
  ] + _sendloop_models(False)


def _sendloop_models(quick):
  """MuxSendLoop: the writer side of a connection (stream mode).  TLC's -coverage cannot be used on modules that
  extend WireBytes (it disables the caching that makes the CRC table constant cheap): the vacuity guard is the
  expected counterexample of MuxSendLoop_reach.cfg instead."""
  asis = 'send queue + single writer greenlet + partial writes + ping loop + deadline events, as the code is: ' \
         'the delivered stream is the concatenation of the supplied frames in queue order, MuxStreamAbs accepts'
  ms = [dict(module='MuxSendLoop', cfg='MuxSendLoop_q.cfg', workers=8,
             what=asis + ' (2 calls, 1 deadline, 1 ping, send buffer 16, drains 3/16)'),
        dict(module='MuxSendLoop', cfg='MuxSendLoop_q3.cfg', workers=8,
             what=asis + ' (2 calls, both with a deadline: two supplied discards; no ping)')]
  if not quick:
    ms += [
      dict(module='MuxSendLoop', cfg='MuxSendLoop_q2.cfg', workers=8, what=asis + ' (write low-water mark 12)'),
      dict(module='MuxSendLoop', cfg='MuxSendLoop_t2.cfg', workers=12, timeout=3000,
           what=asis + ' (2 pings, send buffer 60, 6 initial rooms, 4 drain sizes)'),
      dict(module='MuxSendLoop', cfg='MuxSendLoop_t3.cfg', workers=12, timeout=3000,
           what=asis + ' (both calls with deadline, low-water mark 10)'),
      dict(module='MuxSendLoop', cfg='MuxSendLoop_t.cfg', workers=12, timeout=3000,
           what=asis + ' (3 calls, 1 deadline, send buffer 16)'),
      dict(module='MuxSendLoop', cfg='MuxSendLoop_reach.cfg', workers=8, expect_violation='NotAllWritten',
           what='vacuity guard: a run in which both Tdispatch, a Tdiscarded and a Tping are written exists'),
    ]
  for v, design in (('B', 'one marshal buffer shared by all calls (seeded C13-B)'),
                    ('C', 'ping written to the socket by the ping greenlet, a second writer (seeded C13-C)'),
                    ('D', 'blocked write abandoned at the message deadline (seeded C13-D)'),
                    ('E', 'one prebuilt Tdiscarded frame patched per timeout and queued by reference (seeded C13-E)')):
    ms.append(dict(module='MuxSendLoop', cfg='MuxSendLoop_%s.cfg' % v, workers=2, expect_violation='WholeFramesInOrder',
                   what='design variant: ' + design + ': counterexample to whole frames in queue order'))
    if not quick:
      ms.append(dict(module='MuxSendLoop', cfg='MuxSendLoop_%s_abs.cfg' % v, workers=2, expect_violation='AbsAccepts',
                     what='design variant: ' + design + ': rejected by the stream machine MuxStreamAbs'))
  return ms


# ------------------------------------------------------------------ input generators
ASCII = [chr(c) for c in range(32, 127)]
CP2 = [0x80, 0xE9, 0xFC, 0x3B1, 0x7FF]
CP3 = [0x800, 0x20AC, 0x4E2D, 0xD7FF, 0xE000, 0xFFFD, 0xFFFF]
CP4 = [0x10000, 0x1F600, 0x2070E, 0x10FFFF]


def _text(rng, cls, maxlen=12):
  """cls: 'ascii' | 'uni' (mixed 1-4 byte code points) | 'long'."""
  if cls == 'long':
    n = rng.choice([127, 128, 255, 256, 300, 1000])
    pool = rng.choice([ASCII, [chr(c) for c in CP2], [chr(c) for c in CP3 + CP4]])
    return ''.join(rng.choice(pool) for _ in range(n))
  n = rng.choice([0, 1, 1, 2, 3, 5, 8, maxlen])
  if cls == 'ascii':
    return ''.join(rng.choice(ASCII) for _ in range(n))
  out = []
  for _ in range(n):
    k = rng.random()
    if k < 0.35:
      out.append(rng.choice(ASCII))
    elif k < 0.4:
      out.append('\x00')
    elif k < 0.6:
      out.append(chr(rng.choice(CP2)))
    elif k < 0.8:
      out.append(chr(rng.choice(CP3)))
    elif k < 0.92:
      out.append(chr(rng.choice(CP4)))
    else:
      c = rng.randint(0x80, 0x10FFFF)
      if 0xD800 <= c <= 0xDFFF:
        c = 0xE9
      out.append(chr(c))
  return ''.join(out)


def _props(rng, cls, nmax=6):
  n = rng.choice([0, 1, 1, 2, 2, 3, nmax])
  d = {}
  tries = 0
  while len(d) < n and tries < 50:
    tries += 1
    k = _text(rng, cls)
    if rng.random() < 0.12:
      k = '_' + k.lstrip('_')        # a single leading underscore is still a public property
    if k.startswith('__') or k in (CLIENT_ID_KEY, DEADLINE_KEY) or k in d:
      continue
    d[k] = _text(rng, cls)
  if cls == 'long' and d:
    k = next(iter(d))
    d[k] = _text(rng, 'long')
  return [[k, v] for k, v in d.items()]


I64_BOUNDARY = [0, 1, -1, 255, 256, (1 << 31) - 1, 1 << 31, (1 << 32) - 1, 1 << 32, (1 << 63) - 1, -(1 << 63),
                1000000 * 10 ** 9, 1758826000 * 10 ** 9]


def _i64(rng):
  if rng.random() < 0.5:
    return rng.choice(I64_BOUNDARY)
  return rng.randint(-(1 << 63), (1 << 63) - 1)


def _tag(rng, i, lo=0, hi=(1 << 24) - 1):
  c = [t for t in TAG_BOUNDARY if lo <= t <= hi]
  if i < len(c):
    return c[i]
  return rng.choice([rng.randint(lo, hi), rng.randint(lo, min(hi, 70000)), rng.choice(c)])


def _blob(rng, big=False):
  n = rng.choice([0, 1, 2, 7, 16, 33, 64]) if not big else rng.choice([255, 256, 1000, 4096])
  return [rng.randint(0, 255) for _ in range(n)]


def _disp_rec(rng, i, cls, mode):
  rec = {'k': 'disp', 'props': _props(rng, cls), 'method': rng.choice(['call', 'call', 'other']),
         'blob': _blob(rng, big=(cls == 'long' and rng.random() < 0.3)), 'client_id': None, 'deadline': None}
  if rng.random() < 0.5:
    rec['client_id'] = _text(rng, 'ascii' if cls == 'ascii' else 'uni') or 'client'
  if mode == 'direct':
    rec['tag'] = _tag(rng, i)
    if rng.random() < 0.5:
      rec['deadline'] = {'ts': _i64(rng), 'to': _i64(rng)}
  else:
    rec['tag'] = _tag(rng, i, 2, (1 << 24) - 2)
    if rng.random() < 0.6:
      rec['deadline'] = {'in_ms': rng.choice([1, 10, 250, 1000, 10000, 3600000])}     # time to the deadline
    rec['discard'] = rng.random() < 0.4
  if rng.random() < 0.12:
    # a call the Thrift serializer rejects (caller mistake): it must leave no trace in the frames that follow
    rec['bad'] = rng.choice(['kwarg', 'count', 'type'])
    rec['discard'] = False
  return rec


def cases(prop, tier, seed):
  rng = random.Random(7919 * int(seed) + 13)
  quick = tier == 'quick'
  mult = 1 if quick else 5          # thorough: 5x the traces, 3x the records per trace (fork cost is per trace)
  per = 12 if quick else 36
  out = []
  # header writer / reader: every protocol type x tag classes x body lengths (systematic + random)
  lens = [0, 1, 3, 255, 256, 65535, 65536, 1 << 24, 1 << 30]
  for rep in range(2 * mult):
    for ty in MSG_TYPES:
      recs = []
      for i in range(per):
        recs.append({'k': 'hdr', 'type': ty, 'tag': _tag(rng, i if rep == 0 else 99),
                     'len': lens[(i + rep) % len(lens)] if rng.random() < 0.8 else rng.randint(0, 1 << 20)})
      out.append({'mode': 'direct', 'cls': 'hdr', 'recs': recs})
  # Tdispatch / Tdiscarded, one class per trace
  plan = [('direct', 'ascii', 24), ('direct', 'uni', 28), ('direct', 'long', 6),
          ('stack', 'ascii', 18), ('stack', 'uni', 22), ('stack', 'long', 4)]
  for mode, cls, n in plan:
    for c in range(n * mult):
      recs = [_disp_rec(rng, i if c % 3 == 0 else 99, cls, mode) for i in range(per if cls != 'long' else per // 3)]
      sc = {'mode': mode, 'cls': cls, 'recs': recs}
      if mode == 'stack':    # clock offset (s, on the 1/16 lattice) at which the connection lives
        sc['clock'] = rng.choice([0, 1, 1000, 758826000]) + rng.randint(0, 15) / 16.0
        sc['rnd'] = rng.randint(0, 1 << 30)
      out.append(sc)
  # systematic: the bounded domain of MuxWireCheck (alphabet with 1-, 2-, 3-, 4-byte code points) on the real code
  alpha = ['A', chr(0xE9), chr(0x20AC), chr(0x1F600)]
  strs1 = [''] + alpha
  strs2 = strs1 + [a + b for a in alpha for b in alpha]
  sysrecs = []
  for k in strs2:
    for v in strs1:
      sysrecs.append([[k, v]])
  for k1 in alpha:
    for k2 in alpha:
      if k1 != k2:
        for v1 in strs1:
          for v2 in strs1:
            sysrecs.append([[k1, v1], [k2, v2]])
  for i in range(0, len(sysrecs), per):
    recs = []
    for j, props in enumerate(sysrecs[i:i + per]):
      recs.append({'k': 'disp', 'props': props, 'method': 'call', 'blob': [0, 255][:(i + j) % 3], 'client_id': None,
                   'deadline': None if (i + j) % 4 else {'ts': I64_BOUNDARY[(i + j) % len(I64_BOUNDARY)], 'to': -1},
                   'tag': TAG_BOUNDARY[(i + j) % len(TAG_BOUNDARY)]})
    out.append({'mode': 'direct', 'cls': 'systematic', 'recs': recs})
  for cls, n in (('ascii', 6), ('uni', 8)):
    for c in range(n * mult):
      recs = [{'k': 'disc', 'tag': rng.choice([0, 0, 1, 65536, (1 << 24) - 1]), 'which': _tag(rng, i if c == 0 else 99),
               'why': _text(rng, cls, 40) if rng.random() < 0.8 else 'Client timeout'} for i in range(per)]
      recs.append({'k': 'ping'})
      out.append({'mode': 'direct', 'cls': 'disc-' + cls, 'recs': recs})
  # stream mode: the byte stream of a live connection (own generator: the cases above keep their seeds)
  out.extend(_stream_cases(random.Random(104729 * int(seed) + 71), quick))
  return out


# ------------------------------------------------------------------ stream-mode scenario generators
def _pad(n, salt=0):
  """n ASCII letters without a short period (so that a skipped or repeated stretch shows)."""
  out = []
  x = (salt * 2654435761 + 12345) & 0xffffffff
  for _ in range(n):
    x = (x * 1103515245 + 12345) & 0x7fffffff
    out.append(chr(97 + (x >> 16) % 26))
  return ''.join(out)


def _stream_call(rng, n, cls, T=0):
  """['call', thrift argument (distinct per call), caller properties, timeout ms]."""
  arg = 'c%d-%s' % (n, _text(rng, cls, 10))
  return ['call', arg, _props(rng, cls, 3), T]


def _stream_base(rng, cls):
  return {'mode': 'stream', 'cls': cls,
          'client_id': rng.choice([None, 'cid', _text(rng, cls, 6) or 'me']),
          'ping_gaps': [rng.randint(30, 40) for _ in range(3)],
          't0': rng.choice([0, 437, 1000, 86400000, 758826000000]) + rng.choice([0, 1, 250, 999]),
          'connect_ms': 0, 'ping_reply_ms': 0, 'lowat': 1, 'room0': None}


def _stream_openrace(rng, cls):
  """Calls from concurrent greenlets while the connection is still opening (connect / initial ping round
  trip pending): they park inside the transport and are framed after the open."""
  sc = _stream_base(rng, cls)
  sc['fam'] = 'openrace'
  sc['connect_ms'] = rng.choice([0, 0, 30])
  sc['ping_reply_ms'] = rng.choice([20, 60, 200])
  done = sc['connect_ms'] + sc['ping_reply_ms']
  steps = [['open']]
  n = 0
  t = 0
  for _ in range(rng.choice([2, 3, 3, 4])):
    t = min(done - 1, t + rng.choice([0, 0, 1, 5, 10]))
    steps.append(['at', t])
    n += 1
    steps.append(_stream_call(rng, n, cls, rng.choice([0, 0, 0, 15, 500])))
    if rng.random() < 0.3:
      steps.append(['run'])
  steps.append(['at', done + rng.choice([0, 1, 10])])
  if rng.random() < 0.4:
    steps.append(['room', rng.choice([4, 8, 30, 100])])
  for _ in range(rng.choice([0, 1, 2])):
    n += 1
    steps.append(_stream_call(rng, n, cls, rng.choice([0, 300])))
  steps.append(['adv', rng.choice([1, 20])])
  steps.append(['drain', None])
  for _ in range(rng.choice([0, 1, 3])):
    steps.append(['reply', rng.randint(0, 3)])
  steps.append(['adv', 50])
  for _ in range(rng.choice([0, 1])):        # a tag comes back into use after a reply
    n += 1
    steps.append(_stream_call(rng, n, cls, rng.choice([0, 40])))
  steps.append(['adv', 100])
  sc['steps'] = steps
  return sc


def _stream_pingstall(rng, cls):
  """The periodic ping comes due while a frame is stuck half way in the socket (peer not reading); the
  socket may regain a little room below its write low-water mark just before."""
  sc = _stream_base(rng, cls)
  sc['fam'] = 'pingstall'
  sc['lowat'] = rng.choice([1, 64, 64, 200])
  steps = [['open'], ['at', rng.choice([5, 100])]]
  n = 0
  for _ in range(rng.choice([0, 1, 2])):
    n += 1
    steps.append(_stream_call(rng, n, cls, 0))
  steps.append(['adv', 10])
  for _ in range(rng.choice([0, 1])):
    steps.append(['reply', 0])
  lead = rng.choice([2, 20, 300, 4000])
  steps.append(['atping', -lead])
  steps.append(['room', rng.choice([0, 3, 4, 7, 8, 9, 12, 30, 50, 90])])
  for _ in range(rng.choice([1, 2, 3])):
    n += 1
    steps.append(_stream_call(rng, n, cls, rng.choice([0, 0, lead + 3, 10000])))
  steps.append(['run'])
  if rng.random() < 0.7:
    steps.append(['atping', -1])
    steps.append(['drain', rng.choice([8, 8, 10, 16, 40])])
  if rng.random() < 0.3:
    steps.append(['pingmode', 'silent'])
  steps.append(['atping', rng.choice([0, 1, 50])])
  if rng.random() < 0.3:
    n += 1
    steps.append(_stream_call(rng, n, cls, rng.choice([0, 30])))
  if rng.random() < 0.5:
    steps.append(['drain', rng.choice([5, 20, 60])])
    steps.append(['adv', rng.choice([1, 100, 5500])])
  steps.append(['drain', None])
  steps.append(['adv', 20])
  for _ in range(rng.choice([0, 2])):
    steps.append(['reply', rng.randint(0, 3)])
  steps.append(['adv', 100])
  sc['steps'] = steps
  return sc


def _stream_deadlinestall(rng, cls):
  """A call's deadline expires while its frame is blocked in the socket (or while it waits in the send
  queue behind a blocked frame); the peer resumes reading later."""
  sc = _stream_base(rng, cls)
  sc['fam'] = 'deadlinestall'
  sc['lowat'] = rng.choice([1, 1, 32])
  steps = [['open'], ['at', rng.choice([10, 1000, 7000])]]
  n = 0
  if rng.random() < 0.4:
    n += 1
    steps.append(_stream_call(rng, n, cls, 0))
    steps.append(['adv', 5])
    steps.append(['reply', 0])
    steps.append(['adv', 5])
  steps.append(['room', rng.choice([0, 1, 4, 5, 8, 10, 20, 40, 70, 120])])
  T = rng.choice([10, 50, 200])
  n += 1
  steps.append(_stream_call(rng, n, cls, T))
  for _ in range(rng.choice([0, 1, 2])):
    if rng.random() < 0.5:
      steps.append(['adv', rng.choice([1, T // 2])])
    n += 1
    steps.append(_stream_call(rng, n, cls, rng.choice([0, T, 2 * T, 5])))
  if rng.random() < 0.4:
    steps.append(['adv', T // 2])
    steps.append(['drain', rng.choice([1, 3, 8, 30])])
  steps.append(['adv', rng.choice([T + 10, 3 * T, 1000])])
  if rng.random() < 0.3:
    steps.append(['drain', rng.choice([2, 10, 50])])
    steps.append(['adv', 10])
  steps.append(['drain', None])
  steps.append(['adv', 10])
  n += 1
  steps.append(_stream_call(rng, n, cls, rng.choice([0, 100])))
  for _ in range(rng.choice([0, 1, 2])):
    steps.append(['reply', rng.randint(0, 3)])
  steps.append(['adv', 200])
  sc['steps'] = steps
  return sc


def _stream_samedeadline(rng, cls):
  """k = 2..4 calls whose deadlines fall on the same instant (or within the timer queue's 10 ms resolution):
  their timeouts are handled in one pass of the timer queue, before the send loop runs again."""
  sc = _stream_base(rng, cls)
  sc['fam'] = 'samedeadline'
  t = rng.choice([10, 500, 3000])
  steps = [['open'], ['at', t]]
  n = 0
  if rng.random() < 0.3:
    n += 1
    steps.append(_stream_call(rng, n, cls, 0))
  D = t + rng.choice([20, 50, 200])
  k = rng.choice([2, 2, 3, 4])
  stagger = rng.random() < 0.5
  for i in range(k):
    if stagger and i:
      t += rng.choice([0, 1, 3])
      steps.append(['at', t])
    n += 1
    # same absolute deadline, or a few ms apart inside one 10 ms tick of the timer queue
    T = D - t - (rng.choice([0, 0, 1, 2]) if rng.random() < 0.3 else 0)
    steps.append(_stream_call(rng, n, cls, T))
  if rng.random() < 0.3:
    n += 1
    steps.append(_stream_call(rng, n, cls, 0))
  steps.append(['run'])
  if rng.random() < 0.3:
    steps.append(['reply', rng.randint(0, 3)])       # one of them completes in time
  if rng.random() < 0.3:                              # the discards meet a peer that is not reading
    steps.append(['room', rng.choice([0, 5, 12, 30])])
  steps.append(['at', D + rng.choice([15, 40])])
  if rng.random() < 0.4:
    n += 1
    steps.append(_stream_call(rng, n, cls, rng.choice([0, 30])))
  steps.append(['drain', None])
  steps.append(['adv', 20])
  for _ in range(rng.choice([0, 1, 3])):
    steps.append(['reply', rng.randint(0, 3)])
  steps.append(['adv', 100])
  sc['steps'] = steps
  return sc


def _stream_timeoutsblocked(rng, cls):
  """Calls that are already on the wire time out one after the other (or together) while the send loop is
  blocked in the socket on a later frame: their Tdiscarded pile up in the send queue."""
  sc = _stream_base(rng, cls)
  sc['fam'] = 'timeoutsblocked'
  sc['lowat'] = rng.choice([1, 1, 24])
  t = rng.choice([10, 800])
  steps = [['open'], ['at', t]]
  n = 0
  k = rng.choice([2, 2, 3])
  gap = rng.choice([0, 20, 20, 50])
  D = t + 60
  for i in range(k):
    n += 1
    steps.append(_stream_call(rng, n, cls, D + i * gap - t))
  steps.append(['run'])
  steps.append(['at', t + rng.choice([5, 40])])
  steps.append(['room', rng.choice([0, 3, 8, 10, 20, 40])])
  n += 1
  steps.append(_stream_call(rng, n, cls, rng.choice([0, 0, 5000])))      # the frame the writer gets stuck on
  steps.append(['run'])
  if gap and rng.random() < 0.5:
    # between two timeouts the peer reads a little: the first Tdiscarded may be half way out when the next lands
    steps.append(['at', D + gap // 2])
    steps.append(['drain', rng.choice([10, 60, 130, 150])])
  steps.append(['at', D + k * gap + rng.choice([15, 100])])
  if rng.random() < 0.3:
    steps.append(['drain', rng.choice([5, 30])])
    steps.append(['adv', 5])
  steps.append(['drain', None])
  steps.append(['adv', 20])
  for _ in range(rng.choice([0, 2])):
    steps.append(['reply', rng.randint(0, 3)])
  if rng.random() < 0.4:       # a tag that was discarded and then answered is used again, and times out again
    n += 1
    steps.append(_stream_call(rng, n, cls, 30))
    steps.append(['adv', 60])
  steps.append(['adv', 100])
  sc['steps'] = steps
  return sc


BIG_N_QUICK, BIG_N_THOROUGH = 24, 120
CTX_DL_LEN = 2 + len(DEADLINE_KEY) + 2 + 16
BIG_QUICK = [1400, 4096, 16383, 16384, 16385, 20000]
BIG_THOROUGH = BIG_QUICK + [65535, 65536, 66000]


def _big_call(rng, n, cls, client_id, T, body_len):
  """A call whose marshalled Tdispatch body (contexts + empty dst/dtab + Thrift call) has exactly body_len bytes."""
  props = _props(rng, cls, 2)
  ctx = 2 + sum(4 + len(k.encode('utf8')) + len(v.encode('utf8')) for k, v in props)
  if client_id is not None:
    ctx += 4 + len(CLIENT_ID_KEY) + len(client_id.encode('utf8'))
  if T:
    ctx += CTX_DL_LEN
  prefix = 'c%d-' % n
  # Thrift strict binary call hi(string): version 4, name 4 + 2, seqid 4, field header 3, length 4, stop 1 = 22
  pad = body_len - ctx - 4 - 22 - len(prefix)
  return ['call', prefix, props, T, max(pad, 0)]


def _stream_bigbody(rng, cls, sizes):
  """A large call meets a socket that takes only part of the 8-byte frame header (0..7 bytes of room when the
  frame starts); its own deadline may fire inside that block; other calls wait behind it."""
  sc = _stream_base(rng, cls)
  sc['fam'] = 'bigbody'
  sc['lowat'] = rng.choice([1, 1, 8, 64])
  t = rng.choice([10, 900])
  steps = [['open'], ['at', t]]
  n = 0
  if rng.random() < 0.3:
    n += 1
    steps.append(_stream_call(rng, n, cls, 0))
    steps.append(['adv', 3])
    steps.append(['reply', 0])
    steps.append(['adv', 3])
  near_ping = rng.random() < 0.15
  if near_ping:
    steps.append(['atping', -40])
  r = rng.choice([0, 1, 2, 3, 4, 5, 6, 7, 7, 8, 9, 100, 5000, None])
  steps.append(['room', r])
  T = rng.choice([0, 30, 30, 30, 200])
  n += 1
  steps.append(_big_call(rng, n, cls, sc['client_id'], T, rng.choice(sizes)))
  for _ in range(rng.choice([0, 1, 2])):
    n += 1
    steps.append(_stream_call(rng, n, cls, rng.choice([0, 0, 30, 500])))
  steps.append(['run'])
  k = rng.random()
  if k < 0.6:
    steps.append(['adv', rng.choice([40, 60])])           # past the 30 ms deadline, blocked all the while
  elif k < 0.8:
    steps.append(['adv', 10])
    steps.append(['drain', rng.choice([1, 8, 9, 300])])    # a little room before the deadline
    steps.append(['adv', 50])
  if rng.random() < 0.5:
    steps.append(['drain', rng.choice([1, 7, 8, 20, 1000, 17000])])
    steps.append(['adv', rng.choice([1, 30])])
  if rng.random() < 0.3:
    n += 1
    steps.append(_stream_call(rng, n, cls, rng.choice([0, 40])))
  steps.append(['drain', None])
  steps.append(['adv', 20])
  for _ in range(rng.choice([0, 1, 2])):
    steps.append(['reply', rng.randint(0, 3)])
  if near_ping:
    steps.append(['atping', 10])
  steps.append(['adv', 250])
  sc['steps'] = steps
  return sc


def _stream_raw(rng, cls):
  """The transport sink over a bare ScalesSocket whose handle takes a frame in several send() calls."""
  sc = rng.choice([_stream_openrace, _stream_deadlinestall, _stream_samedeadline, _stream_mixed])(rng, cls)
  sc['fam'] = 'raw-' + sc['fam']
  sc['raw'] = True
  sc['send_max'] = rng.choice([7, 16, 24, 40])
  return sc


BAD_KINDS = ['kwarg', 'count', 'type', 'surrogate']


def _stream_badcall(rng, n, cls, T=0):
  c = _stream_call(rng, n, cls, T)
  return ['badcall', c[1], c[2], c[3], rng.choice(BAD_KINDS)]


def _stream_rejected(rng, cls):
  """Calls the Thrift serializer rejects (caller mistakes) between good calls on the same client stack: they
  leave no frame and no trace in the frames of the calls that follow."""
  sc = _stream_base(rng, cls)
  sc['fam'] = 'rejected'
  early = rng.random() < 0.3
  if early:
    sc['ping_reply_ms'] = 40
  steps = [['open'], ['at', 5 if early else rng.choice([50, 2000])]]
  n = 0
  for _ in range(rng.randint(3, 7)):
    n += 1
    if rng.random() < 0.4:
      steps.append(_stream_badcall(rng, n, cls, rng.choice([0, 0, 40])))
    else:
      steps.append(_stream_call(rng, n, cls, rng.choice([0, 0, 40, 300])))
    k = rng.random()
    if k < 0.3:
      steps.append(['run'])
    elif k < 0.5:
      steps.append(['adv', rng.choice([1, 10, 60])])
    elif k < 0.6:
      steps.append(['reply', rng.randint(0, 2)])
  n += 1
  steps.append(_stream_call(rng, n, cls, 0))       # always a good call at the end
  steps.append(['adv', 100])
  steps.append(['reply', 0])
  steps.append(['adv', 300])
  sc['steps'] = steps
  return sc


def _stream_mixed(rng, cls):
  """Random timeline: calls, back-pressure, replies, the ping instants, faults, close."""
  sc = _stream_base(rng, cls)
  sc['fam'] = 'mixed'
  sc['connect_ms'] = rng.choice([0, 0, 10])
  sc['ping_reply_ms'] = rng.choice([0, 0, 25])
  sc['lowat'] = rng.choice([1, 1, 16, 100])
  sc['room0'] = rng.choice([None, None, 8, 100])
  steps = [['open']]
  n = 0
  for _ in range(rng.randint(6, 16)):
    k = rng.random()
    if k < 0.1:                  # a burst of calls with one deadline
      T = rng.choice([5, 40, 40, 300])
      for _ in range(rng.choice([2, 3])):
        n += 1
        steps.append(_stream_call(rng, n, cls, T))
    elif k < 0.13:
      n += 1
      steps.append(_stream_badcall(rng, n, cls, rng.choice([0, 40])))
    elif k < 0.3:
      n += 1
      steps.append(_stream_call(rng, n, cls, rng.choice([0, 0, 5, 40, 40, 300, 20000])))
    elif k < 0.42:
      steps.append(['room', rng.choice([0, 2, 6, 8, 11, 25, 60, 150, None])])
    elif k < 0.54:
      steps.append(['drain', rng.choice([1, 4, 8, 20, 100, None])])
    elif k < 0.66:
      steps.append(['adv', rng.choice([0, 1, 7, 30, 120, 1000])])
    elif k < 0.76:
      steps.append(['reply', rng.randint(0, 4)])
    elif k < 0.86:
      steps.append(['atping', rng.choice([-50, -3, -1, 0, 1, 20])])
    elif k < 0.89:
      steps.append(['fault', rng.choice(['err', 'eof'])])
    elif k < 0.91:
      steps.append(['close'])
    elif k < 0.94:
      steps.append(['pingmode', rng.choice(['silent', 'answer'])])
    elif k < 0.97:
      steps.append(['lowat', rng.choice([1, 8, 64])])
    else:
      steps.append(['run'])
  sc['steps'] = steps
  return sc


def _stream_cases(rng, quick):
  mult = 1 if quick else 5
  out = []
  for fam, n in ((_stream_openrace, 40), (_stream_pingstall, 50), (_stream_deadlinestall, 40), (_stream_mixed, 60),
                 (_stream_samedeadline, 30), (_stream_timeoutsblocked, 30)):
    for i in range(n * mult):
      out.append(fam(rng, 'ascii' if i % 3 == 0 else 'uni'))
  # own generators: the families above keep their seeds
  rng2 = random.Random(rng.random())
  for i in range(10 * mult):
    out.append(_stream_raw(rng2, 'ascii' if i % 3 == 0 else 'uni'))
  for i in range(16 * mult):
    out.append(_stream_rejected(rng2, 'ascii' if i % 3 == 0 else 'uni'))
  for i in range(BIG_N_QUICK if quick else BIG_N_THOROUGH):
    out.append(_stream_bigbody(rng2, 'ascii' if i % 3 == 0 else 'uni', BIG_QUICK if quick or i % 2 else BIG_THOROUGH))
  return out


# ------------------------------------------------------------------ drivers
def _cps(s):
  return [ord(c) for c in s]


def _limbs(x):
  x &= (1 << 64) - 1
  return [(x >> 48) & 0xffff, (x >> 32) & 0xffff, (x >> 16) & 0xffff, x & 0xffff]


def _text_entry(k, v):
  return {'k': _cps(k), 'vt': 's', 'v': _cps(v), 'ts': Z4, 'to': Z4}


def _dl_entry(ts, to):
  return {'k': _cps(DEADLINE_KEY), 'vt': 'd', 'v': [], 'ts': _limbs(ts), 'to': _limbs(to)}


class _FakeSocket(object):
  """An in-memory connection: records every write; answers Tping with Rping (own encoding)."""
  host = 'peer'
  port = 9

  def __init__(self):
    from gevent.event import Event
    self.written = []
    self.rbuf = b''
    self.ev = Event()
    self.closed = False

  def open(self):
    pass

  def isOpen(self):
    return not self.closed

  def close(self):
    self.closed = True
    self.ev.set()

  def write(self, b):
    b = bytes(b)
    self.written.append(b)
    if b[4:5] == b'\x41':
      self.rbuf += b'\x00\x00\x00\x04\xbf' + b[5:8]
      self.ev.set()

  def readAll(self, n):
    while len(self.rbuf) < n:
      if self.closed:
        raise EOFError('closed')
      self.ev.clear()
      self.ev.wait()
    r, self.rbuf = self.rbuf[:n], self.rbuf[n:]
    return r


def _expected_payload(msg):
  """The Thrift call as the (neighbouring) Thrift serializer produces it on its own."""
  from scales.compat import BytesIO
  from scales.thrift.serializer import MessageSerializer as ThriftSerializer
  b = BytesIO()
  ThriftSerializer(Iface).SerializeThriftCall(msg, b)
  return list(b.getvalue())


def _new_msg(rec):
  from scales.message import MethodCallMessage
  args, kwargs = (bytes(bytearray(rec['blob'])),), {}
  bad = rec.get('bad')
  if bad == 'kwarg':
    kwargs = {'bogus': 1}            # unknown keyword argument
  elif bad == 'count':
    args = args + (b'extra',)        # too many arguments
  elif bad == 'type':
    args = (len(rec['blob']) + 7,)   # an int where bytes belong
  msg = MethodCallMessage(Iface, rec['method'], args, kwargs)
  msg.properties['__Endpoint'] = None           # as MessageDispatcher does; private, never transported
  for k, v in rec['props']:
    msg.properties[k] = v
  return msg


def _run_direct(script, loop):
  from scales.compat import BytesIO
  from scales.constants import TransportHeaders
  from scales.message import MethodDiscardMessage, Deadline
  from scales.thriftmux.serializer import MessageSerializer
  from scales.thriftmux.sink import SocketTransportSink, ThriftMuxMessageSerializerSink
  transport = SocketTransportSink(_FakeSocket(), 'svc')
  mser = MessageSerializer(Iface)
  ev = []
  for rec in script['recs']:
    k = rec['k']
    if k == 'hdr':
      e = {'e': 'Hdr', 'type': rec['type'], 'tag': rec['tag'], 'len': rec['len'], 'bytes': [], 'raised': 'none',
           'read': False, 'rtype': 0, 'rtag': 0, 'rraised': 'none'}
      try:
        hdr = transport._BuildHeader(rec['tag'], rec['type'], rec['len'])
        e['bytes'] = list(bytearray(hdr))
      except Exception as ex:
        e['raised'] = type(ex).__name__
      if e['raised'] == 'none' and (rec['type'] < 0 or rec['type'] == 127) and len(e['bytes']) == 8:
        e['read'] = True
        try:
          rtype, rtag = ThriftMuxMessageSerializerSink.ReadHeader(BytesIO(hdr[4:]))
          e['rtype'], e['rtag'] = int(rtype), int(rtag)
        except Exception as ex:
          e['rraised'] = type(ex).__name__
      ev.append(e)
    elif k == 'ping':
      e = {'e': 'Ping', 'tag': 1, 'frame': [], 'raised': 'none'}
      try:
        e['frame'] = list(bytearray(transport._BuildHeader(1, 65, 0)))
      except Exception as ex:
        e['raised'] = type(ex).__name__
      ev.append(e)
    elif k == 'disc':
      e = {'e': 'Disc', 'tag': rec['tag'], 'which': rec['which'], 'why': _cps(rec['why']), 'whyKnown': True,
           'frame': [], 'raised': 'none'}
      try:
        buf, headers = BytesIO(), {}
        MessageSerializer(None).Marshal(MethodDiscardMessage(rec['which'], rec['why']), buf, headers)
        hdr = transport._BuildHeader(rec['tag'], headers[TransportHeaders.MessageType], buf.tell())
        e['frame'] = list(bytearray(hdr + buf.getvalue()))
      except Exception as ex:
        e['raised'] = type(ex).__name__
      ev.append(e)
    elif k == 'disp':
      msg = _new_msg(rec)
      ctx = [_text_entry(a, b) for a, b in rec['props']]
      if rec['client_id'] is not None:
        msg.properties[CLIENT_ID_KEY] = rec['client_id']
        ctx.append(_text_entry(CLIENT_ID_KEY, rec['client_id']))
      headers = {}
      if rec['deadline'] is not None:
        d = Deadline(1)
        if hasattr(d, '_ts') and hasattr(d, '_timeout'):      # any int64 pair
          d._ts, d._timeout = rec['deadline']['ts'], rec['deadline']['to']
          ctx.append(_dl_entry(d._ts, d._timeout))
        else:                                                 # documented meaning: (now, timeout) in ns
          ctx.append(_dl_entry(int(loop.now()) * 10 ** 9, 10 ** 9))
        headers[DEADLINE_KEY] = d
      e = {'e': 'Disp', 'tag': rec['tag'], 'ctx': ctx, 'payload': [] if rec.get('bad') else _expected_payload(msg),
           'frame': [], 'raised': 'none'}
      try:
        buf = BytesIO()
        mser.Marshal(msg, buf, headers)          # one serializer for all calls of the trace, like a client's
        hdr = transport._BuildHeader(rec['tag'], headers[TransportHeaders.MessageType], buf.tell())
        e['frame'] = list(bytearray(hdr + buf.getvalue()))
      except Exception as ex:
        e['raised'] = type(ex).__name__
      if rec.get('bad') and e['raised'] != 'none':
        continue      # rejected, nothing produced: not a record (had it been marshalled, no supplied call matches)
      ev.append(e)
  return ev, {'mode': 'direct'}


def _run_stack(script, loop):
  import collections
  from harness.simgevent.vloop import EPOCH
  from scales.constants import SinkProperties
  from scales.message import Deadline
  from scales.observable import Observable
  from scales.sink import ClientMessageSink, ClientMessageSinkStack
  from scales.thriftmux.sink import (SocketTransportSink, ThriftMuxMessageSerializerSink,
                                     ClientIdInterceptorSink)
  try:
    from scales.mux.sink import Tag
    tag_key = Tag.KEY
  except Exception:
    tag_key = '__Tag'

  class Prov(object):
    def __init__(self, s):
      self.s = s

    def CreateSink(self, props):
      return self.s

  class Tap(ClientMessageSink):
    """Pass-through between serializer and transport: sees the Deadline object that is marshalled."""
    def __init__(self, nxt):
      super(Tap, self).__init__()
      self.next_sink = nxt
      self.seen = None

    def AsyncProcessRequest(self, sink_stack, msg, stream, headers):
      self.seen = (msg, headers)
      self.next_sink.AsyncProcessRequest(sink_stack, msg, stream, headers)

    def AsyncProcessResponse(self, sink_stack, context, stream, msg):
      raise NotImplementedError()

  class Reply(ClientMessageSink):
    def __init__(self):
      super(Reply, self).__init__()
      self.got = []

    def AsyncProcessRequest(self, *a):
      pass

    def AsyncProcessResponse(self, sink_stack, context, stream, msg):
      self.got.append(msg)

  import scales.thriftmux.sink as tmsink
  tmsink.random = random.Random(script.get('rnd', 0))        # ping period 30..40 s: scripted
  loop.advance_to(EPOCH + script.get('clock', 0))
  sock = _FakeSocket()
  transport = SocketTransportSink(sock, 'svc')
  open_ar = transport.Open()
  loop.run_until_idle()
  if not (open_ar.ready() and open_ar.successful()):
    raise RuntimeError('harness: transport did not open over the fake socket: %r' % (open_ar.exception,))
  ev = []
  for w in sock.written:                      # the Tping of the open handshake (its tag is the transport's choice)
    if w[4:5] == b'\x41':
      ev.append({'e': 'Ping', 'tag': -1, 'frame': list(bytearray(w)), 'raised': 'none'})
  tap = Tap(transport)
  ser = ThriftMuxMessageSerializerSink(Prov(tap), None, {SinkProperties.ServiceInterface: Iface,
                                                         SinkProperties.Label: 'svc'})
  Params = collections.namedtuple('Params', 'client_id')
  forced = 0
  for rec in script['recs']:
    msg = _new_msg(rec)
    ctx = [_text_entry(a, b) for a, b in rec['props']]
    top = ser
    if rec['client_id'] is not None:
      top = ClientIdInterceptorSink(Prov(ser), Params(client_id=rec['client_id']), {})
      ctx.append(_text_entry(CLIENT_ID_KEY, rec['client_id']))
    evt = Observable()
    msg.properties[Deadline.EVENT_KEY] = evt
    dl = rec['deadline']
    if dl is not None:
      msg.properties[Deadline.KEY] = loop.now() + dl['in_ms'] / 1000.0
    now, deadline = loop.now(), msg.properties.get(Deadline.KEY)
    try:                                      # choose the tag the pool hands out next (optional knob)
      pool = transport._tag_pool
      if not pool._set:
        pool._next = rec['tag'] - 1
        forced += 1
    except AttributeError:
      pass
    expected_payload = [] if rec.get('bad') else _expected_payload(msg)
    reply = Reply()
    stack = ClientMessageSinkStack()
    stack.Push(reply, None)
    n0 = len(sock.written)
    tap.seen = None
    raised = 'none'
    try:
      top.AsyncProcessRequest(stack, msg, None, {})
      loop.run_until_idle()
    except Exception as ex:
      raised = type(ex).__name__
    if raised == 'none' and reply.got and reply.got[0].error is not None:
      raised = type(reply.got[0].error).__name__
    if dl is not None:
      d = tap.seen[1].get(DEADLINE_KEY) if tap.seen else None
      try:
        ts, to = int(d._ts), int(d._timeout)
      except AttributeError:                  # documented meaning: (now, deadline) in nanoseconds
        ts, to = int(now) * 10 ** 9, int(deadline * 1000000000)
      ctx.append(_dl_entry(ts, to))
    tag = msg.properties.get(tag_key)
    frames = sock.written[n0:]
    if rec.get('bad') and raised != 'none' and not frames:
      continue        # rejected by the serializer, nothing written: not a record
    if raised == 'none' and (len(frames) != 1 or not isinstance(tag, int)):
      raise RuntimeError('harness: expected one frame per request, got %d (tag %r)' % (len(frames), tag))
    ev.append({'e': 'Disp', 'tag': tag if raised == 'none' else 0, 'ctx': ctx, 'payload': expected_payload,
               'frame': list(bytearray(frames[0])) if raised == 'none' else [], 'raised': raised})
    if raised == 'none' and rec.get('discard'):
      n1 = len(sock.written)
      evt.Set(True)                           # the call timed out in transit -> Tdiscarded(tag)
      loop.run_until_idle()
      fr = sock.written[n1:]
      if len(fr) != 1:
        raise RuntimeError('harness: expected one Tdiscarded frame, got %d' % len(fr))
      ev.append({'e': 'Disc', 'tag': -1, 'which': tag, 'why': [], 'whyKnown': False,
                 'frame': list(bytearray(fr[0])), 'raised': 'none'})
  return ev, {'mode': 'stack', 'tags_forced': forced, 'errors': [repr(x[1:3]) for x in loop.errors][:3]}


# ------------------------------------------------------------------ stream mode: the byte stream of a live connection
def _stream_conn_class(simnet):
  """SimConn with a send-buffer model for partial writes (defined after boot: simnet imports gevent).

  `room` = bytes the socket accepts right now (None: unlimited, the peer reads freely).  send() accepts
  min(room, len) bytes and returns that count, like a non-blocking socket under gevent; with room == 0 the
  caller blocks until the driver lets the peer read (`drain`) and the free space reaches `lowat` (the
  socket's write low-water mark).  A second greenlet that would have to block on the same socket gets
  gevent's ConcurrentObjectUseError.  Send waits have their own waiter (a read may be parked at the same
  time).  Every accepted chunk is reported to `on_accept` in order: that is the connection's byte stream."""
  import errno
  from gevent.hub import Waiter
  try:
    from gevent.exceptions import ConcurrentObjectUseError
  except ImportError:            # pragma: no cover
    ConcurrentObjectUseError = AssertionError

  class StreamConn(simnet.SimConn):
    def __init__(self, net, family=None, type_=None):
      self.room = None
      self.lowat = 1
      self._swaiter = None
      self.on_accept = None
      self.on_closed = None
      self.send_failed = False
      self.blocked_sends = 0
      self.partial_sends = 0
      simnet.SimConn.__init__(self, net, family, type_)

    def send(self, data):
      data = bytes(data)
      self._check_open()
      if not self.connected:
        self.net._log('send_unusable', self)
        raise OSError(errno.ENOTCONN, 'Transport endpoint is not connected (simulated)')
      self.opn += 1
      while True:
        if self.tx_err is not None:
          self.send_failed = True
          self.net._log('send_failed', self)
          raise self.tx_err
        if self.room is None or self.room > 0:
          k = len(data) if self.room is None else min(self.room, len(data))
          if self.send_max:
            k = min(k, self.send_max)          # one send() takes at most this much (several sends per frame)
          if self.room is not None:
            self.room -= k
          chunk = data[:k]
          if k < len(data):
            self.partial_sends += 1
          self.sent += chunk
          self.net._log('send', self, n=k, data=chunk)
          if self.on_accept is not None:
            self.on_accept(chunk)
          self.net._on_send(self, chunk)
          return k
        if self._swaiter is not None:
          raise ConcurrentObjectUseError('This socket is already used by another greenlet (simulated)')
        self.net._log('send_stalled', self)
        self.blocked_sends += 1
        w = Waiter()
        self._swaiter = w
        try:
          w.get()
        finally:
          if self._swaiter is w:
            self._swaiter = None
        self._check_open()

    def sendall(self, data):
      data = bytes(data)
      while data:
        k = self.send(data)
        data = data[k:]

    def _wake_send(self):
      w = self._swaiter
      if w is not None and not self.closed:
        self._swaiter = None
        w.switch(None)

    def _throw_send(self, exc):
      w = self._swaiter
      if w is not None:
        self._swaiter = None
        w.throw(exc)

    def _writable(self):
      if self._swaiter is not None and (self.room is None or self.room >= max(1, self.lowat) or
                                        self.tx_err is not None):
        self.net.loop.run_callback(self._wake_send)

    def set_room(self, n):
      self.room = n
      self._writable()

    def drain(self, n):
      """The peer reads n bytes (None: everything, and keeps reading)."""
      if n is None or self.room is None:
        self.room = None
      else:
        self.room += n
      self._writable()

    def feed_error(self, exc=None):
      simnet.SimConn.feed_error(self, exc)
      self._writable()

    def close(self):
      if self.closed:
        return
      mid = self._swaiter is not None or self.send_failed
      if self.on_closed is not None:
        self.on_closed(mid)
      simnet.SimConn.close(self)
      if self._swaiter is not None:
        self.net.loop.run_callback(self._throw_send,
                                   OSError(errno.EBADF, 'Bad file descriptor (simulated: closed during wait)'))

  return StreamConn


def _run_stream(script, loop):
  """The real client sink stack  TimeoutSink -> [ClientIdInterceptorSink] -> ThriftMuxMessageSerializerSink ->
  thriftmux SocketTransportSink -> VarzSocketWrapper/ScalesSocket  over a simulated connection, driven by a
  scripted timeline (calls from concurrent greenlets, deadlines, the periodic ping, write back-pressure,
  replies, faults).  Recorded: what the test supplied (Sup dispatch: contexts + Thrift call, computed
  from the script -- only the deadline pair is taken from the Deadline object handed to the marshaller; Sup
  discard: the call whose deadline event was signalled) and every chunk of bytes the connection accepted."""
  import gevent
  from harness.simgevent import simnet, peers
  from harness.simgevent.vloop import EPOCH
  t0 = script.get('t0', 0)
  loop.advance_to(EPOCH + t0 / 1000.0)        # before scales is imported: its 1 s clock tick starts here
  if abs(loop.now() - (EPOCH + t0 / 1000.0)) > 1e-6:
    raise RuntimeError('harness: could not place the clock')
  import scales.scales_socket as ss
  import scales.thriftmux.sink as tmsink
  from scales.compat import BytesIO
  from scales.constants import SinkProperties, MessageProperties
  from scales.loadbalancer.zookeeper import Endpoint
  from scales.message import MethodCallMessage, Deadline
  from scales.sink import ClientMessageSink, ClientMessageSinkStack, TimeoutSinkProvider
  from scales.thrift.serializer import MessageSerializer as ThriftSerializer
  from scales.thriftmux.sink import (SocketTransportSink, ThriftMuxMessageSerializerSink,
                                     ClientIdInterceptorSink)
  from test.scales.thrift.gen_py.hello import Hello

  loop.settle()
  net = simnet.SimNet(loop).install()
  StreamConn = _stream_conn_class(simnet)
  ss.gsocket = lambda family=None, type_=None, *a, **kw: StreamConn(net, family, type_)

  ev = []
  st = {'next_ping': None, 'pings_due': 0, 'open_done': False, 'early_calls': 0, 'closed': False,
        'delivered': 0, 'errors': 0, 'supdisc': 1, 'rejected': 0}
  gaps = list(script.get('ping_gaps', []))

  class _Rnd(object):            # the ping period (30..40 s) is scripted
    def randint(self, a, b):
      g = gaps.pop(0) if gaps else 35
      g = min(max(g, a), b)
      st['next_ping'] = loop.now() + g
      st['pings_due'] += 1
      return g
  tmsink.random = _Rnd()

  peer = peers.MuxPeer(net, ping_delay=script.get('ping_reply_ms', 0) / 1000.0)
  net.peer_factory = lambda c: peer

  def on_connect_start(conn):
    if conn.idx != 0:
      raise RuntimeError('harness: stream mode expects one connection per trace')
    conn.connect_plan = ('ok', script.get('connect_ms', 0) / 1000.0)
    conn.lowat = script.get('lowat', 1)
    conn.room = script.get('room0')
    conn.send_max = script.get('send_max')
    conn.on_accept = lambda chunk: ev.append({'e': 'Bytes', 'data': list(bytearray(chunk))})

    def on_closed(mid):
      st['closed'] = True
      ev.append({'e': 'Closed', 'mid': 1 if mid else 0})
    conn.on_closed = on_closed
  net.on_connect_start = on_connect_start

  pending = {}                   # id(msg) -> Sup event to be completed when the message is marshalled
  timed_out = set()

  def on_timeout(payload, value):
    key = bytes(bytearray(payload))
    if value and key not in timed_out:
      timed_out.add(key)
      ev.append({'e': 'Sup', 'k': 'discard', 'ctx': [], 'payload': payload})

  class Tap(ClientMessageSink):
    """Pass-through between serializer sink and transport: the supplied deadline is the Deadline object the
    marshaller was handed (as in stack mode); the Sup event is emitted here, i.e. before the transport sees
    the message."""
    def __init__(self, nxt):
      super(Tap, self).__init__()
      self.next_sink = nxt

    def AsyncProcessRequest(self, sink_stack, msg, stream, headers):
      sup = pending.pop(id(msg), None)
      if sup is not None:
        if sup['dl'] is not None:
          d = (headers or {}).get(DEADLINE_KEY)
          try:
            ts, to = int(d._ts), int(d._timeout)
          except AttributeError:   # documented meaning: (time of the call in whole seconds, absolute deadline), ns
            ts, to = sup['dl']
          sup['ctx'].append(_dl_entry(ts, to))
        ev.append({'e': 'Sup', 'k': 'dispatch', 'ctx': sup['ctx'], 'payload': sup['payload']})
        # A discard is supplied when the call's timeout is signalled to the transport: the stack's timeout
        # sink sets the message's deadline event (a persistent subscriber is notified before the transport's
        # one-shot handler, and in any case before the send loop can write the Tdiscarded).
        evt = msg.properties.get(Deadline.EVENT_KEY)
        if evt is not None and callable(getattr(evt, 'Subscribe', None)):
          evt.Subscribe(lambda v, p=sup['payload']: on_timeout(p, v))
        elif sup['dl'] is not None:
          st['supdisc'] = 0          # cannot be observed on this tree: the oracle falls back to the weaker clause
      self.next_sink.AsyncProcessRequest(sink_stack, msg, stream, headers)

    def AsyncProcessResponse(self, sink_stack, context, stream, msg):
      raise NotImplementedError()

  class TapProvider(object):
    next_provider = None

    def CreateSink(self, properties):
      return Tap(self.next_provider.CreateSink(properties))

  if script.get('raw'):
    # 'raw': the transport sink over a bare ScalesSocket (no VarzSocketWrapper): frames go through
    # ScalesSocket.write, the loop over partial handle.send() calls
    class RawTransportProvider(object):
      next_provider = None

      def CreateSink(self, properties):
        ep = properties[SinkProperties.Endpoint]
        return SocketTransportSink(ss.ScalesSocket(ep.host, ep.port), properties[SinkProperties.Label])
    tprov = RawTransportProvider()
  else:
    tprov = SocketTransportSink.Builder()
  tap = TapProvider()
  tap.next_provider = tprov
  ser = ThriftMuxMessageSerializerSink.Builder()
  ser.next_provider = tap
  below = ser
  client_id = script.get('client_id')
  if client_id is not None:
    below = ClientIdInterceptorSink.Builder(client_id=client_id)
    below.next_provider = ser
  top_prov = TimeoutSinkProvider()
  top_prov.next_provider = below
  top = top_prov.CreateSink({SinkProperties.Endpoint: Endpoint('10.0.0.1', 9090), SinkProperties.Label: 'svc',
                             SinkProperties.ServiceInterface: Hello.Iface})

  class Terminal(ClientMessageSink):
    def AsyncProcessRequest(self, *a):
      raise NotImplementedError()

    def AsyncProcessResponse(self, sink_stack, context, stream, msg):
      st['delivered'] += 1
      if msg is None or getattr(msg, 'error', None) is not None:
        st['errors'] += 1
  terminal = Terminal()

  def conn():
    return net.conns[0] if net.conns else None

  def do_open():
    try:
      top.Open().wait()
    except Exception:
      pass
    st['open_done'] = True

  def call(arg, props, T, bad=None):
    args, kwargs = (arg,), {}
    if bad == 'kwarg':
      kwargs = {'bogus': arg}                   # misspelt keyword argument
    elif bad == 'count':
      args = (arg, arg)                         # too many arguments
    elif bad == 'type':
      args = (len(arg) + 1000,)                 # an int where a string belongs
    elif bad == 'surrogate':
      args = (arg + u'\ud800',)                 # text that has no UTF-8 form
    msg = MethodCallMessage(Hello.Iface, 'hi', args, kwargs)
    msg.properties[MessageProperties.Endpoint] = None      # as MessageDispatcher does; private, never transported
    ctx = []
    for k, v in props:
      msg.properties[k] = v
      ctx.append(_text_entry(k, v))
    if client_id is not None:
      ctx.append(_text_entry(CLIENT_ID_KEY, client_id))
    dl = None
    if T:
      now = loop.now()
      deadline = now + T / 1000.0
      msg.properties[Deadline.KEY] = deadline
      dl = (int(now) * 10 ** 9, int(deadline * 1000000000))
    b = BytesIO()
    try:     # the Thrift call as its own serializer, a fresh one for every call, writes it (C14)
      ThriftSerializer(Hello.Iface).SerializeThriftCall(msg, b)
      pending[id(msg)] = {'ctx': ctx, 'payload': list(bytearray(b.getvalue())), 'dl': dl, 'msg': msg}
    except Exception:
      if bad is None:
        raise
      st['rejected'] += 1        # not a Thrift payload: nothing is supplied to the transport, no frame is due
    if not st['open_done']:
      st['early_calls'] += 1
    stack = ClientMessageSinkStack()
    stack.Push(terminal, arg)
    gevent.spawn(top.AsyncProcessRequest, stack, msg, None, {})

  def run_to(t):
    if t > loop.now():
      loop.run_until(t)

  for op in script['steps']:
    k = op[0]
    if k == 'open':
      gevent.spawn(do_open)
      loop.run_until_idle()
    elif k == 'at':
      run_to(EPOCH + (t0 + op[1]) / 1000.0)
    elif k == 'adv':
      loop.run_for(op[1] / 1000.0)
    elif k == 'atping':          # relative to the instant the next periodic ping is due
      if st['next_ping'] is not None:
        run_to(st['next_ping'] + op[1] / 1000.0)
    elif k == 'call':                # [.., arg, props, T] or [.., arg prefix, props, T, padding length]
      call(op[1] + (_pad(op[4], len(op[1])) if len(op) > 4 else ''), op[2], op[3])
    elif k == 'badcall':             # [.., arg, props, T, kind]: a call the Thrift serializer rejects
      call(op[1], op[2], op[3], bad=op[4])
    elif k == 'sendmax':
      if conn() is not None:
        conn().send_max = op[1]
    elif k == 'run':
      loop.run_until_idle()
    elif k == 'room':
      if conn() is not None and not conn().closed:
        conn().set_room(op[1])
    elif k == 'drain':
      if conn() is not None and not conn().closed:
        conn().drain(op[1])
    elif k == 'lowat':
      if conn() is not None:
        conn().lowat = op[1]
    elif k == 'reply':
      un = [p for p in peer.unanswered() if not p.conn.closed and p.reply is not None]
      if un:
        peer.release(un[op[1] % len(un)])
    elif k == 'pingmode':
      peer.ping_mode = op[1]
    elif k == 'fault':
      c = conn()
      if c is not None and c.connected and not c.closed:
        if op[1] == 'err':
          c.feed_error()
        else:
          c.feed_eof()
    elif k == 'close':
      top.Close()
      loop.run_until_idle()
    else:
      raise RuntimeError('harness: unknown stream step %r' % (op,))
  # end of observation: the peer reads everything; run past every deadline and ping timeout
  c = conn()
  if c is not None and not c.closed:
    c.lowat = 1
    c.drain(None)
  loop.run_for(6.0)
  loop.settle()
  if c is not None and not c.closed and c._swaiter is not None:
    raise RuntimeError('harness: a write is still blocked at the end of the scenario')
  ev.append({'e': 'End'})
  meta = {'mode': 'stream', 'rejected_calls': st['rejected'], 'supdisc': st['supdisc'], 'discards_supplied': len(timed_out),
          'early_calls': st['early_calls'], 'pings_due': st['pings_due'],
          'closed': st['closed'], 'delivered': st['delivered'], 'call_errors': st['errors'],
          'partial_sends': c.partial_sends if c is not None else 0,
          'blocked_sends': c.blocked_sends if c is not None else 0,
          'srv_frames': [[f[2], f[3]] for f in peer.frames][:60],
          'errors': [list(x[1:3]) for x in loop.errors][:4]}
  return ev, meta


def run_case(script):
  loop = common.boot()
  if script['mode'] == 'stream':
    ev, meta = _run_stream(script, loop)
  elif script['mode'] == 'stack':
    ev, meta = _run_stack(script, loop)
  else:
    ev, meta = _run_direct(script, loop)
  return {'cfg': {'mode': script['mode'], 'cls': script.get('cls', ''), 'fam': script.get('fam', ''),
                  'supdisc': meta.get('supdisc', 0)}, 'ev': ev, 'meta': meta}


# ------------------------------------------------------------------ classification
def _non_ascii(e):
  if e['e'] == 'Disp':
    return any(c >= 128 for x in e['ctx'] for c in x['k'] + x['v'])
  if e['e'] == 'Disc':
    return any(c >= 128 for c in e['why'])
  return False


def _frames_of(t):
  """(type, tag) of the frames the simulated server received (coverage / witness only)."""
  return [tuple(f) for f in t.get('meta', {}).get('srv_frames', [])]


def nontrivial(prop, t):
  if t['cfg'].get('mode') == 'stream':
    m = t.get('meta', {})
    fr = _frames_of(t)
    if sum(1 for e in t['ev'] if e['e'] == 'Sup' and e.get('k') == 'dispatch') >= 2 and (
        m.get('partial_sends') or m.get('early_calls') or any(ty == 66 for ty, _ in fr) or
        sum(1 for ty, _ in fr if ty == 65) > 1):
      return common.canon(t['ev'])
    return None
  for e in t['ev']:
    if (e['e'] == 'Disp' and e['ctx']) or e['e'] == 'Disc' or (e['e'] == 'Hdr' and e['read']):
      return common.canon(t['ev'])
  return None


def witness(prop, t, consumed, clause):
  if consumed >= len(t['ev']):
    return {}
  e = t['ev'][consumed]
  w = {'kind': e['e']}
  if t['cfg'].get('mode') == 'stream':
    m = t.get('meta', {})
    w.update({'family': t['cfg'].get('fam'), 'split_writes': bool(m.get('partial_sends')),
              'calls_before_open': m.get('early_calls', 0) > 0, 'closed': bool(m.get('closed'))})
    return w
  if e['e'] == 'Hdr':
    w['type'] = e['type']
  else:
    w['non_ascii'] = _non_ascii(e)
  return w


def extra_coverage(prop, tier, traces):
  kinds = {}
  nonascii = 0
  via_socket = 0
  tags = set()
  for t in traces:
    for e in t['ev']:
      kinds[e['e']] = kinds.get(e['e'], 0) + 1
      nonascii += 1 if _non_ascii(e) else 0
      if t['cfg'].get('mode') == 'stack':
        via_socket += 1
      if 'tag' in e:
        tags.add(e['tag'])
  st = {'traces': 0, 'by_family': {}, 'dispatches_supplied': 0, 'discards_supplied': 0,
        'with_2_or_more_discards_supplied': 0, 'with_2_or_more_tdiscarded': 0, 'discards_observed': 0,
        'rejected_calls': 0, 'raw_scales_socket': 0, 'with_body_of_16384_or_more': 0, 'largest_dispatch_supplied': 0, 'chunks': 0, 'bytes': 0, 'with_split_writes': 0,
        'with_calls_before_open': 0, 'with_tdiscarded': 0, 'with_periodic_ping': 0, 'connection_closed': 0,
        'closed_in_mid_write': 0}
  for t in traces:
    if t['cfg'].get('mode') != 'stream':
      continue
    m = t.get('meta', {})
    fr = _frames_of(t)
    st['traces'] += 1
    st['by_family'][t['cfg'].get('fam')] = st['by_family'].get(t['cfg'].get('fam'), 0) + 1
    st['dispatches_supplied'] += sum(1 for e in t['ev'] if e['e'] == 'Sup' and e.get('k') == 'dispatch')
    nd = sum(1 for e in t['ev'] if e['e'] == 'Sup' and e.get('k') == 'discard')
    st['discards_supplied'] += nd
    st['rejected_calls'] += m.get('rejected_calls', 0)
    st['raw_scales_socket'] += 1 if t.get('script', {}).get('raw') else 0
    big = max([len(e['payload']) for e in t['ev'] if e['e'] == 'Sup' and e.get('k') == 'dispatch'] + [0])
    st['with_body_of_16384_or_more'] += 1 if big >= 16384 else 0       # Thrift call alone >= 16 KiB
    st['largest_dispatch_supplied'] = max(st['largest_dispatch_supplied'], big)
    st['with_2_or_more_discards_supplied'] += 1 if nd >= 2 else 0
    st['with_2_or_more_tdiscarded'] += 1 if sum(1 for ty, _ in fr if ty == 66) >= 2 else 0
    st['discards_observed'] += 1 if t['cfg'].get('supdisc') else 0
    st['chunks'] += sum(1 for e in t['ev'] if e['e'] == 'Bytes')
    st['bytes'] += sum(len(e['data']) for e in t['ev'] if e['e'] == 'Bytes')
    st['with_split_writes'] += 1 if m.get('partial_sends') else 0
    st['with_calls_before_open'] += 1 if m.get('early_calls') else 0
    st['with_tdiscarded'] += 1 if any(ty == 66 for ty, _ in fr) else 0
    st['with_periodic_ping'] += 1 if sum(1 for ty, _ in fr if ty == 65) > 1 else 0
    st['connection_closed'] += 1 if m.get('closed') else 0
    st['closed_in_mid_write'] += 1 if any(e['e'] == 'Closed' and e['mid'] for e in t['ev']) else 0
  return {'stream_mode': st,
          'records': sum(kinds.values()), 'records_by_kind': kinds, 'records_non_ascii': nonascii,
          'frames_taken_from_socket': via_socket, 'distinct_tags': len(tags),
          'boundary_tags_seen': sorted(tg for tg in tags if tg in TAG_BOUNDARY)}
