"""Growth engine (no listed property of its own): scales.observable.Observable against specs/Observable.tla.
Every transition of the bounded model's state graph is replayed on the real class; used by the C09 check
(ResurrectorSink.Close() relies on 'unsubscribed before the notification runs => not called')."""
from harness import common, tlc


def _replay(beh):
  loop = common.boot()
  from scales.observable import Observable
  loop.settle()
  ob = Observable()
  calls = {}
  last = {}
  cbs = {}

  def cb(s):
    if s not in cbs:
      def f(v):
        calls[s] = calls.get(s, 0) + 1
        last[s] = v
      cbs[s] = f
    return cbs[s]
  drift = None
  steps = 0
  for (act, st) in beh[1:]:
    name, params = act
    if name == 'Set':
      ob.Set(params[0])
    elif name == 'Notify':
      loop.step_callback()
    elif name == 'Subscribe':
      ob.Subscribe(cb(params[0]), bool(params[1]))
    elif name == 'Unsubscribe':
      ob.Unsubscribe(cb(params[0]))
    steps += 1
    real = {'value': ob.Get() or 0, 'calls': sorted((s, n) for s, n in calls.items() if n),
            'last': sorted((s, v) for s, v in last.items())}
    spec = {'value': st['value'], 'calls': sorted((i + 1, n) for i, n in enumerate(st['calls']) if n),
            'last': sorted((i + 1, v) for i, v in enumerate(st['last']) if st['calls'][i])}
    if drift is None and real != spec:
      drift = {'step': steps, 'action': [name, params], 'spec': spec, 'real': real}
  return {'steps': steps, 'drift': drift}


def replay(seed=0):
  behs, gstats = tlc.graph_behaviours('Observable', 'Observable_g.cfg', seed=seed)
  res = common.run_forked(_replay, behs)
  errs = [x['err'] for x in res if 'err' in x]
  if errs:
    raise RuntimeError('observable replay failed: ' + errs[0])
  drift = [x['ok']['drift'] for x in res if x['ok']['drift']]
  summ = {'model': 'Observable', 'behaviours_replayed': len(behs), 'steps_compared': sum(x['ok']['steps'] for x in res),
          'drift': len(drift)}
  summ.update(gstats)
  return summ, drift
