"""Engine `stack` (C01, C02, C12): complete Thrift / ThriftMux clients built by the public
builders, running over the simulated network under the virtual-time loop.

Oracle: specs/CallAbs.tla via CallAbsTrace (TLC decides every verdict).
Code-shaped model: specs/CallStack.tla (per-call sink stack, timeout sink, open gating,
abstract transport) model-checked by TLC; its behaviours are env-level schedules.
"""
import random

from harness import common

NAME = 'stack'
PROPS = ['C01', 'C02', 'C12']
LEVEL = {'C01': 'model_checking', 'C02': 'model_checking', 'C12': 'model_checking'}
TRACE_MODULE = 'CallAbsTrace'
TRACE_CFG = 'CallAbsTrace.cfg'
TRACE_CHUNK = 800
CASE_TIMEOUT = 300
ASSUMPTIONS = [
  'SimNet stands in for TCP (in-order byte stream, connect-then-transfer); peers use their own codecs',
  'virtual-time loop preserves gevent FIFO callback order; same-instant timer order as started',
  'issue times are multiples of 10 ms and timeouts are not, so float rounding of the deadline never decides a verdict',
  'each call carries a unique argument; a request is attributed to a call by its decoded argument',
]
RULE_DEFAULT = ('seeded random + templated scenarios (deadline placed at each hop: dispatcher open, balancer gate, '
                'pool queue, connect, wire) on real Thrift and ThriftMux stacks; non-trivial = at least 2 calls and at '
                'least one of timeout / fault / late or reordered reply / pre-open issue / membership change; distinct by '
                'canonical event list without times')

T0 = 1000
TIMEOUTS = [23, 53, 107, 203, 507, 1003]


def models(prop, tier):
  q = tier == 'quick'
  ms = [
    dict(module='CallStack', cfg='CallStack_cov.cfg', coverage=True, may_be_unused=['SendDiscard'],
         what='serial stack, 2 calls, with per-action coverage (vacuity guard)'),
    dict(module='CallStack', cfg='CallStack_covm.cfg', coverage=True, may_be_unused=['ProcessQueue', 'FailNow', 'ConnectDone'],
         what='multiplexed stack, 2 calls, with per-action coverage (vacuity guard)'),
    dict(module='CallStack', cfg='CallStack_q.cfg' if q else 'CallStack_t.cfg', timeout=2400, heap='16g',
         what='serial stack (pool of 1, queue of 1): 3 calls x {pre-open issue, reply, late reply, fault, timer, queue hand-over} in every order'),
    dict(module='CallStack', cfg='CallStack_qm.cfg' if q else 'CallStack_tm.cfg', timeout=2400, heap='16g',
         what='multiplexed stack: 3 calls x {send queue, wire, discard owed/sent, reply, fault, timer} in every order'),
  ]
  if prop == 'C01':
    ms += [
      dict(module='CallStack', cfg='CallStack_orig1.cfg', expect_violation='NotEarly',
           what='counterexample generator: dispatcher as it was before fix f49bf1d (deadline - open latency)'),
      dict(module='CallStack', cfg='CallStack_orig2.cfg', expect_violation='Completes',
           what='counterexample generator: dispatcher as it was before fix e380619 (no timer for calls chained behind Open)'),
    ]
  return ms


# ------------------------------------------------------------------ script generation
def _gen_script(rng, i):
  kind = 'thrift' if i % 2 == 0 else 'mux'
  nep = rng.choice([1, 1, 2, 2, 3])
  s = {'kind': kind, 'nep': nep, 'rseed': rng.randint(0, 10 ** 6),
       'open_timeout': rng.choice([None, None, 0]),
       'plans': [], 'steps': [], 'pool': None, 'auto': rng.choice([None, None, 0, 20, 80, 300])}
  for _ in range(nep):
    s['plans'].append(rng.choice([['ok', 0], ['ok', 0], ['ok', 20], ['ok', 60], ['refuse', 0], ['refuse', 30], ['hang']]))
  if not any(p[0] == 'ok' for p in s['plans']) and rng.random() < 0.7:
    s['plans'][0] = ['ok', rng.choice([0, 20, 60])]
  if kind == 'thrift' and rng.random() < 0.5:
    s['pool'] = {'max_watermark': rng.choice([1, 1, 2]), 'min_watermark': rng.choice([0, 1]),
                 'max_queue_len': rng.choice([0, 1, 2, 1000])}
  template = rng.choice(['random', 'random', 'preopen', 'preopen', 'preopen', 'queue', 'connect', 'latereply', 'faults', 'members', 'sendq', 'pingrace',
                         'agedtags' if kind == 'mux' else 'random', 'opentick', 'emptyset', 'bigstall', 'deadq', 'twinlate', 'jitterhang',
                         'pinglate' if kind == 'mux' else 'bigstall', 'dupq' if kind == 'mux' else 'deadq'])
  steps = s['steps']
  nc = [0]

  def issue(T=None):
    nc[0] += 1
    steps.append(['issue', nc[0], T or rng.choice(TIMEOUTS)])

  if template == 'preopen':
    s['open_timeout'] = 0
    s['plans'] = [rng.choice([['ok', 60], ['ok', 200], ['hang'], ['refuse', 100]]) for _ in range(nep)]
    T1 = rng.choice([23, 53, 107])
    if rng.random() < 0.5:
      # the open completes inside the last timer tick before the first call's deadline: the call reaches
      # the timeout sink (and every hop below) with 1..9 ms to go
      s['plans'] = [['ok', T1 - rng.choice([1, 1, 2, 2, 3, 4, 6, 9])] for _ in range(nep)]
    issue(T1)
    steps.append(['adv', rng.choice([10, 30])])
    issue()
  elif template == 'queue' and kind == 'thrift':
    s['pool'] = {'max_watermark': 1, 'min_watermark': rng.choice([0, 1]), 'max_queue_len': rng.choice([1, 2, 1000])}
    s['nep'] = 1
    s['plans'] = [['ok', rng.choice([0, 20])]]
    steps.append(['adv', 50])
    issue(rng.choice([507, 1003]))
    steps.append(['adv', 10])
    issue(rng.choice([23, 53, 107]))
    issue(rng.choice([53, 107, 507]))
  elif template == 'connect':
    s['plans'] = [['ok', rng.choice([60, 200])] for _ in range(nep)]
    if rng.random() < 0.5:
      s['open_timeout'] = 0
    steps.append(['adv', 300])
    steps.append(['plan', 0, ['ok', rng.choice([60, 300])]])
    steps.append(['fault', 0, rng.choice(['err', 'eof'])])
    steps.append(['adv', rng.choice([10, 5000, 6000])])
    issue(rng.choice([23, 53]))
  elif template == 'sendq':
    # the peer stops reading for a while: writes block, later requests wait in the send queue
    # (mux) or in their transaction greenlet (serial) past their deadline
    steps.append(['adv', 300])
    issue(rng.choice([507, 1003]))
    steps.append(['adv', 10])
    steps.append(['stall', rng.choice([200, 800])])
    issue(rng.choice([507, 1003]))
    issue(rng.choice([23, 53, 107]))
    steps.append(['adv', rng.choice([10, 100])])
    issue(rng.choice([53, 107]))
  elif template == 'bigstall':
    # the peer stops reading; a request (small, or tens of KiB: above the transports' size thresholds) whose
    # deadline is shorter than the stall is handed in: its write blocks part-way and the deadline fires inside
    # that very write; afterwards the connection is used again
    s['nep'] = 1
    s['plans'] = [['ok', 0]]
    steps.append(['adv', 300])
    if rng.random() < 0.5:
      issue(1003)
      steps.append(['adv', 10])
    stall = rng.choice([200, 800])
    steps.append(['stall', stall])
    nc[0] += 1
    steps.append(['issue', nc[0], rng.choice([23, 53, 107]), rng.choice([0, 100, 16500, 20000, 66000])])
    if rng.random() < 0.5:
      nc[0] += 1
      steps.append(['issue', nc[0], rng.choice([53, 1003]), rng.choice([0, 0, 16500])])
    steps.append(['adv', stall + 50])
    issue(rng.choice([203, 1003]))
    issue(rng.choice([203, 1003]))
    steps.append(['adv', 20])
    steps += [['reply', 0], ['reply', 0], ['reply', 0], ['adv', 50]]
  elif template == 'pinglate':
    # the peer answers pings late (0.5-0.9 s); around the periodic ping (30-40 s after the open) unanswered calls
    # with short deadlines are issued back to back, so that some deadline falls inside the ping round trip
    s['nep'] = 1
    s['plans'] = [['ok', 0]]
    s['auto'] = None
    s['ping_delay'] = rng.choice([500, 800, 900])
    steps.append(['adv', 29000])
    for _ in range(44):
      issue(rng.choice([203, 107]))
      steps.append(['adv', 300])
    steps.append(['adv', 2000])
  elif template == 'dupq':
    # an answered tag is re-used by a request whose write is blocked (or which waits behind it); the peer repeats
    # the old reply for that tag; the request is then written, stays unanswered and times out on the open connection
    s['nep'] = 1
    s['plans'] = [['ok', 0]]
    s['auto'] = None
    steps.append(['adv', 300])
    k = rng.randint(1, 2)
    for _ in range(k):
      issue(1003)
    steps.append(['adv', 10])
    for _ in range(k):
      steps.append(['reply', 0])
    steps.append(['adv', 10])
    steps.append(['stall', 500])
    for _ in range(k):
      issue(rng.choice([1003, 2003]))
    steps.append(['adv', 10])
    for j in range(k):
      steps.append(['dup', j])
    steps.append(['adv', 600])
    issue(1003)
    steps.append(['adv', 10])
    steps.append(['reply', k])
    steps.append(['adv', 2500])
  elif template == 'jitterhang':
    # minutes of light traffic across the aperture's jitter rounds (120-240 s apart) while every NEW connect
    # hangs: the member a jitter round brings in never finishes opening; calls keep their deadlines
    s['nep'] = rng.choice([2, 3])
    s['plans'] = [['ok', 0] for _ in range(s['nep'])]
    s['auto'] = rng.choice([None, None, 20])     # mostly unanswered: each call is in flight until its deadline
    steps.append(['adv', 100000])
    for i in range(s['nep']):
      steps.append(['plan', i, ['hang']])
    for _ in range(rng.randint(22, 28)):
      issue(rng.choice([5003, 5003, 1003]))
      steps.append(['adv', rng.choice([5000, 6000, 7000])])
  elif template == 'twinlate':
    # a second client of the same service to the same server is created while the first has calls in flight;
    # calls and replies then alternate between the two connections (calls whose number is a multiple of 3 use it)
    s['nep'] = 1
    s['plans'] = [['ok', 0]]
    s['auto'] = None
    s['twin'] = 'later'
    steps.append(['adv', 100])
    issue(1003)
    issue(1003)
    steps.append(['adv', 10])
    steps.append(['mktwin'])
    issue(1003)             # 3: second client
    steps.append(['adv', 10])
    steps.append(['reply', rng.choice([0, 1])])
    steps.append(['adv', 10])
    issue(1003)
    issue(1003)
    issue(1003)             # 6: second client
    steps.append(['adv', 10])
    for _ in range(5):
      steps.append(['reply', rng.choice([0, 0, 1, 2])])
    steps.append(['adv', 50])
  elif template == 'deadq':
    # the peer stops reading: a request's write blocks and the request times out (its discard is queued); a second
    # request is handed in after that and times out in the queue behind the discard; when the peer reads again
    # the connection is used by further calls
    s['nep'] = 1
    s['plans'] = [['ok', 0]]
    s['auto'] = rng.choice([None, 0])
    steps.append(['adv', 300])
    if rng.random() < 0.5:
      issue(1003)
      steps.append(['adv', 10])
      steps.append(['reply', 0])
      steps.append(['adv', 10])
    steps.append(['stall', 800])
    issue(rng.choice([53, 107]))
    steps.append(['adv', 150])
    issue(rng.choice([23, 53]))
    if rng.random() < 0.5:
      issue(rng.choice([23, 1003]))
    steps.append(['adv', 700])
    issue(1003)
    issue(1003)
    steps.append(['adv', 20])
    steps += [['reply', 0], ['reply', 0], ['reply', 0], ['reply', 0], ['adv', 50]]
  elif template == 'emptyset':
    # every member leaves the server set while several calls with different deadlines are in flight on it
    # (and maybe comes back): the calls still complete on time
    steps.append(['adv', rng.choice([50, 300])])
    for _ in range(rng.randint(2, 4)):
      issue(rng.choice([53, 107, 203, 507, 1003]))
      if rng.random() < 0.5:
        steps.append(['adv', rng.choice([10, 20, 50])])
    order = list(range(nep))
    rng.shuffle(order)
    for i in order:
      steps.append(['leave', i])
      if rng.random() < 0.3:
        steps.append(['stepq', rng.randint(1, 4)])
    if rng.random() < 0.4:
      issue(rng.choice([53, 203]))
    if rng.random() < 0.5:
      steps.append(['adv', rng.choice([30, 100])])
      steps.append(['join', rng.randint(0, 3)])
      issue()
    steps.append(['adv', 100])
  elif template == 'opentick':
    # a call issued before the client has opened; the open completes in the very instant in which the
    # call's timer comes due (rounded up to the 10 ms tick), or one tick earlier / later, with the timers of
    # that instant firing in start order or in a scripted order
    s['open_timeout'] = 0
    s['nep'] = 1
    T1 = rng.choice([23, 53, 107])
    tick = ((T1 + 9) // 10) * 10 + rng.choice([0, 0, 0, -10, 10])
    if kind == 'mux' and rng.random() < 0.7:
      s['plans'] = [['ok', rng.choice([0, 10])]]
      s['ping_delay'] = tick - s['plans'][0][1]
    else:
      s['plans'] = [['ok', tick]]
    s['tiebreak'] = rng.choice([None, rng.randint(0, 999)])
    s['libev'] = rng.random() < 0.7
    issue(T1)
    if rng.random() < 0.5:
      issue(rng.choice([T1, 53, 1003]))
    steps.append(['adv', tick + 20])
  elif template == 'agedtags':
    # a long-lived connection: calls in flight with small tags, then the tag counter is fast-forwarded to a
    # boundary of the tag field (as if that many earlier calls had timed out unanswered), then more calls
    s['nep'] = 1
    s['plans'] = [['ok', 0]]
    s['auto'] = None
    steps.append(['adv', 50])
    for _ in range(rng.randint(1, 4)):
      issue(rng.choice([1003, 5003]))
    steps.append(['adv', 10])
    steps.append(['age', rng.choice([253, 254, 32765, 65532, 65533, 65534, 8388605, 16777208, 16777211])])
    for _ in range(rng.randint(2, 6)):
      issue(rng.choice([53, 1003, 5003]))
    steps.append(['adv', 10])
    for _ in range(rng.randint(2, 8)):
      steps.append(['reply', rng.choice([0, 5, 4, 3, 1])])
    steps.append(['adv', 100])
  elif template == 'pingrace' and kind == 'mux':
    # requests whose writes block (peer not reading) all through the window in which the periodic ping
    # (30-40 s after the open) comes due: the ping must wait its turn behind the frame being written
    s['nep'] = 1
    s['plans'] = [['ok', 0]]
    s['auto'] = rng.choice([0, 20])
    steps.append(['adv', 29000 + rng.choice([0, 500])])
    for _ in range(7):
      issue(5003)
      steps.append(['stall', rng.choice([1500, 1800])])
      steps.append(['adv', 2000])
  n = rng.randint(4, 16)
  for _ in range(n):
    k = rng.random()
    if k < 0.27:
      issue()
    elif k < 0.50:
      steps.append(['reply', rng.choice([0, 0, 0, 1, 2, 5])])
    elif k < 0.58:
      steps.append(['stepq', rng.randint(1, 6)])
    elif k < 0.80:
      steps.append(['adv', rng.choice([10, 10, 20, 30, 50, 100, 200, 500, 1000, 6000])])
    elif k < 0.87:
      steps.append(['fault', rng.randint(0, 5), rng.choice(['err', 'eof'])])
    elif k < 0.92:
      steps.append(['plan', rng.randint(0, nep - 1), rng.choice([['ok', 0], ['ok', 40], ['refuse', 0], ['hang']])])
    elif k < 0.935:
      steps.append(['stall', rng.choice([50, 200, 800])])
    elif k < 0.96 and template in ('members', 'random'):
      steps.append([rng.choice(['join', 'leave']), rng.randint(0, 3)])
    else:
      steps.append(['badreply', rng.randint(0, 5), rng.choice(['appexc', 'garbage', 'empty', 'empty'])])
  return s


def _decorate(rng, s):
  """Second-order variations applied to a generated script: another interface (with two-way void calls
  sprinkled between the traced calls), and large requests (tens of KiB: several partial writes under
  back-pressure, frames above the transports' size thresholds)."""
  k = rng.random()
  if k < 0.12:
    s['iface'] = 'base'
    st = []
    for op in s['steps']:
      st.append(op)
      if op[0] == 'issue' and rng.random() < 0.5:
        st.append(['vping', rng.choice([203, 1003])])
        if rng.random() < 0.5:
          st.append(['adv', 10])
    s['steps'] = st
  elif k < 0.22:
    big = rng.choice([1500, 16500, 20000, 66000, 140000])
    for op in s['steps']:
      if op[0] == 'issue' and rng.random() < 0.5:
        op.append(big if rng.random() < 0.8 else rng.choice([100, 4000]))
    if rng.random() < 0.6:
      s['send_max'] = rng.choice([700, 30000, 65536, 70000])
  elif k < 0.32 and not any(o[0] in ('join', 'leave') for o in s['steps']):
    if rng.random() < 0.3:
      s['twin'] = 'start'
    else:
      s['twin'] = 'later'
      idx = [i for i, o in enumerate(s['steps']) if o[0] == 'issue']
      at = idx[rng.randrange(len(idx))] + 1 if idx else 0
      s['steps'].insert(at, ['mktwin'])
  return s


def cases(prop, tier, seed):
  rng = random.Random(7919 * int(seed) + 101)
  rng2 = random.Random(31 * int(seed) + 7)
  n = 1200 if tier == 'quick' else 24000
  out = [_decorate(rng2, _gen_script(rng, i)) for i in range(n)]
  # large requests through a socket whose send() accepts only part of the buffer (own generator: the scripts above
  # are not perturbed)
  rng3 = random.Random(53 * int(seed) + 29)
  for i in range(16 if tier == 'quick' else 160):
    kind = 'mux' if i % 2 else 'thrift'
    steps = [['adv', 100]]
    c = 0
    for _ in range(rng3.randint(3, 5)):
      c += 1
      steps.append(['issue', c, 2003, rng3.choice([66000, 70000, 140000, 224000])])
      steps.append(['adv', 10])
      steps.append(['reply', 0])
      steps.append(['adv', 10])
    steps.append(['adv', 50])
    out.append({'kind': kind, 'nep': 1, 'rseed': rng3.randint(0, 10 ** 6), 'open_timeout': None, 'plans': [['ok', 0]],
                'steps': steps, 'pool': None, 'auto': None, 'send_max': rng3.choice([65000, 60000, 40000, 700, 65536])})
  # more than 32 (64) frames queued behind a stall that ends in the very tick in which the deadline of one of them
  # (position 30-36, 63-66 in the queue) fires: a send loop that gives way between looking at a queued call's
  # deadline and writing it (batching, fairness yields) writes the request of a call that has just timed out
  for pos in ((30, 31, 32, 33, 34, 35, 36, 63, 64, 65, 66) if tier == 'quick' else tuple(range(2, 70))):
    for T in (297, 303):
      stall = 300
      steps = [['adv', 300], ['issue', 1, 1003], ['adv', 10], ['reply', 0], ['adv', 10], ['stall', stall]]
      ncalls = max(40, pos + 6)
      for c in range(2, ncalls + 2):
        steps.append(['issue', c, T if c - 1 == pos else 2003])
      steps += [['adv', stall + 100]] + [['reply', 0]] * ncalls + [['adv', 100]]
      # same-instant order of the stall ending and the timer queue waking up: every discipline of the virtual loop
      for libev, tb in ((False, None), (True, None), (True, 1), (False, 0), (True, 0)):
        out.append({'kind': 'mux', 'nep': 1, 'rseed': pos, 'open_timeout': None, 'plans': [['ok', 0]],
                    'steps': steps, 'pool': None, 'auto': None, 'libev': libev, 'tiebreak': tb})
  return out


# ------------------------------------------------------------------ driver
import re as _re
_ARG = _re.compile(r'^c(\d+)(:x*)?$')


def _call_of(arg):
  """Call number of a request argument 'c<N>' or 'c<N>:xxxx...' (padding makes large payloads); -1 otherwise."""
  m = _ARG.match(arg) if isinstance(arg, str) else None
  return int(m.group(1)) if m else -1


class _Recorder(object):
  def __init__(self, loop, net, kind='thrift'):
    from harness.simgevent.vloop import EPOCH
    self.kind = kind
    self.loop = loop
    self.net = net
    self.epoch = EPOCH
    self.ev = []
    self.calls = {}     # c -> dict(ar, obs, done)
    self.args = {}      # c -> the argument the call was issued with
    self.method = 'hi' 
    net.listeners.append(self.on_net)
    loop.on_quantum = self.poll

  def ms(self):
    return int(round((self.loop.now() - self.epoch) * 1000))

  @staticmethod
  def _obs(ar):
    return (ar.ready(), ar.successful() if ar.ready() else None, ar.value, ar.exception)

  def _kind(self, c, ar):
    from scales.message import TimeoutError as STimeout
    ex = ar.exception
    if ar.successful() and ex is None:
      if isinstance(ar.value, BaseException):
        # an exception object handed over as the call's value (what the unchanged serializer does with a reply
        # whose result struct is empty, DESIGN 0.7 iv): the caller got an error, not a value of another call
        return 'error', 0
      return 'value', 1 if ar.value == 'echo:' + self.args.get(c, 'c%d' % c) else 0
    if isinstance(ex, STimeout):
      return 'timeout', 0
    return 'error', 0

  def track(self, c, ar):
    st = {'ar': ar, 'obs': None, 'done': False}
    self.calls[c] = st
    rec = self

    def note():
      if not st['done'] and ar.ready():
        st['done'] = True
        st['obs'] = rec._obs(ar)
        kind, ok = rec._kind(c, ar)
        rec.ev.append({'e': 'Done', 'c': c, 'kind': kind, 'ok': ok, 't': rec.ms()})
    try:
      oset, oexc = ar.set, ar.set_exception

      def set_(*a, **kw):
        r = oset(*a, **kw)
        note()
        return r

      def set_exception(*a, **kw):
        r = oexc(*a, **kw)
        note()
        return r
      ar.set = set_
      ar.set_exception = set_exception
    except Exception:
      pass
    st['note'] = note
    note()

  def poll(self, _kind=None):
    for c, st in self.calls.items():
      ar = st['ar']
      if not st['done']:
        if ar.ready():
          st['note']()
      else:
        o = self._obs(ar)
        if o[0] != st['obs'][0] or o[1] != st['obs'][1] or o[2] is not st['obs'][2] or o[3] is not st['obs'][3]:
          st['obs'] = o
          self.ev.append({'e': 'Changed', 'c': c, 't': self.ms()})

  def _wire(self, e):
    """Attribute the buffer of one write call to the call(s) whose request frames it holds."""
    from harness.simgevent import peers
    data = e.get('data') or b''
    p = 0
    while p + 4 <= len(data):
      n = int.from_bytes(data[p:p + 4], 'big', signed=True)
      if n < 0 or p + 4 + n > len(data):
        break
      frame = data[p + 4:p + 4 + n]
      p += 4 + n
      tag = -1
      call = None
      if self.kind == 'mux':
        if len(frame) >= 4 and frame[0] == 2:
          tag = (frame[1] << 16) | (frame[2] << 8) | frame[3]
          parsed = peers.mux_parse_tdispatch(frame[4:])
          call = peers.tbin_decode_call(parsed[3]) if parsed else None
      else:
        call = peers.tbin_decode_call(frame)
      arg = (call or {}).get('arg')
      if _call_of(arg) >= 0:
        self.ev.append({'e': 'Wire', 'conn': e['conn'], 'c': _call_of(arg), 'tag': tag, 't': self.ms()})

  def on_net(self, e):
    k = e['kind']
    if k == 'send':
      self._wire(e)
    elif k == 'srv_recv':
      arg = e.get('arg')
      c = _call_of(arg)
      self.ev.append({'e': 'SrvRecv', 'conn': e['conn'], 'c': c, 'tag': e['tag'] if e.get('tag') is not None else -1,
                      'argOk': 1 if (e.get('ok') and c >= 0 and arg == self.args.get(c)) else 0,
                      'methodOk': 1 if e.get('method') == self.method and e.get('mtype') == 1 else 0, 't': self.ms()})
    elif k == 'srv_discard':
      self.ev.append({'e': 'Discard', 'conn': e['conn'], 'tag': e['which'], 't': self.ms()})
    elif k == 'close':
      self.ev.append({'e': 'ConnClosed', 'conn': e['conn'], 't': self.ms()})


def build_client(script, loop, net):
  """Build the real client through the public builder API. Returns dict with handles."""
  import gevent
  from scales.loadbalancer.serverset import ServerSetProvider
  from scales.core import ScalesUriParser
  from scales.loadbalancer.zookeeper import Endpoint
  from test.scales.thrift.gen_py.hello import Hello
  if script.get('iface') == 'base':
    # a hand-written interface with a two-way void method: string echo(1: string s), void ping(), ...
    from harness.gen_py_x.base import Base as Hello

  class DynProvider(ServerSetProvider):
    def __init__(self, eps):
      self.members = list(eps)
      self.on_join = self.on_leave = None

    def Initialize(self, on_join, on_leave):
      self.on_join, self.on_leave = on_join, on_leave

    def Close(self):
      pass

    def GetServers(self):
      return [ScalesUriParser.Server(Endpoint(h, p)) for h, p in self.members]

  eps = [('10.0.0.%d' % (i + 1), 9090) for i in range(4)]
  provider = DynProvider(eps[:script['nep']])
  if script['kind'] == 'thrift':
    from scales.thrift import Thrift
    b = Thrift.NewBuilder(Hello.Iface)
    if script.get('pool'):
      from scales.pool import WatermarkPoolSink
      from scales.constants import SinkRole
      b = b.ReplaceRole(SinkRole.Pool, WatermarkPoolSink.Builder(**script['pool']))
  else:
    from scales.thriftmux import ThriftMux
    b = ThriftMux.NewBuilder(Hello.Iface)
  b = b.SetServerSetProvider(provider).SetTimeout(10).SetOpenTimeout(script.get('open_timeout'))
  h = {'client': None, 'provider': provider, 'eps': eps}

  def build():
    h['client'] = b.Build()
  h['greenlet'] = gevent.spawn(build)
  return h


def patch_random(seed):
  rnd = random.Random(seed)
  import scales.loadbalancer.aperture as ap
  import scales.loadbalancer.base as lb
  import scales.loadbalancer.heap as hp
  import scales.thriftmux.sink as ts
  for m in (ap, lb, hp, ts):
    m.random = rnd
  return rnd


def run_case(script):
  loop = common.boot()
  common.cpu_watchdog(30)
  import gevent
  from harness.simgevent import simnet, peers
  from harness.simgevent.vloop import EPOCH
  from scales.loadbalancer.zookeeper import Endpoint
  from scales.core import ScalesUriParser
  loop.run_until(EPOCH + T0 / 1000.0)
  loop.settle()
  net = simnet.SimNet(loop).install()
  patch_random(script['rseed'])
  auto = script.get('auto')
  auto = None if auto is None else auto / 1000.0
  if script['kind'] == 'thrift':
    peer = peers.ThriftPeer(net, auto_delay=auto)
  else:
    peer = peers.MuxPeer(net, auto_delay=auto, ping_delay=script.get('ping_delay', 0) / 1000.0)
  net.peer_factory = lambda c: peer
  if script.get('libev'):
    # the event-loop discipline of libev: I/O and timers that are due in one iteration are all handled before the
    # run queue is served, and a reader parked on a socket runs inside the event that made it readable
    loop.timer_batch = True
    net.direct_wake = True
  if script.get('tiebreak') is not None:
    # timers due at the same virtual instant fire in a scripted order instead of start order
    tb = random.Random(script['tiebreak'])
    loop.timer_tiebreak = lambda due: tb.randrange(len(due))
  plans = [list(p) for p in script['plans']] + [['ok', 0]] * 4

  def on_connect_start(conn):
    try:
      i = int(conn.addr[0].split('.')[-1]) - 1
    except Exception:
      i = 0
    p = plans[i]
    if script.get('send_max'):
      conn.send_max = script['send_max']      # a single send() accepts at most that many bytes
    if p[0] == 'hang':
      conn.connect_plan = ('hang',)
    else:
      conn.connect_plan = (p[0], p[1] / 1000.0)
  net.on_connect_start = on_connect_start
  rec = _Recorder(loop, net, script['kind'])
  if script.get('iface') == 'base':
    rec.method = 'echo'
    peer.void_methods = ('ping',)
  h = build_client(script, loop, net)
  # a second client of the same service to the same servers in the same process (every third call goes through it)
  h2 = build_client(script, loop, net) if script.get('twin') == 'start' else None
  loop.settle()
  max_deadline = T0

  for op in script['steps']:
    k = op[0]
    if k == 'issue':
      cl = h['client']
      if h2 is not None and op[1] % 3 == 0 and h2['client'] is not None:
        cl = h2['client']
      if cl is None:
        continue
      c, T = op[1], op[2]
      arg = 'c%d' % c + (':' + 'x' * op[3] if len(op) > 3 and op[3] else '')
      rec.args[c] = arg
      rec.ev.append({'e': 'Issue', 'c': c, 'T': T, 't': rec.ms()})
      max_deadline = max(max_deadline, rec.ms() + T)
      # odd calls: MessageDispatcher.DispatchMethodCall with an explicit timeout; even calls: the
      # generated proxy method (which uses the dispatcher default, set to T for this call).
      d = cl._dispatcher
      old = d._dispatch_timeout
      try:
        if c % 2:
          ar = d.DispatchMethodCall(rec.method, (arg,), {}, timeout=T / 1000.0)
        elif c % 4 == 0:
          d._dispatch_timeout = T / 1000.0
          ar = getattr(cl, rec.method + '_async')(**{'test_data' if rec.method == 'hi' else 's': arg})   # keyword argument
        else:
          d._dispatch_timeout = T / 1000.0
          ar = getattr(cl, rec.method + '_async')(arg)
      except Exception as ex:
        from scales.asynchronous import AsyncResult
        ar = AsyncResult()
        ar.set_exception(ex)
      finally:
        d._dispatch_timeout = old
      rec.track(c, ar)
    elif k == 'dup':
      # the peer repeats the reply it gave to the op[1]-th request it answered
      done = [p for p in peer.requests if p.answered and not p.conn.closed and p.reply is not None and p.tag is not None]
      if done and script['kind'] == 'mux':
        p = done[op[1] % len(done)]
        peer.send_frame(p.conn, peers.RDISPATCH, p.tag, b'\x00\x00\x00' + p.reply)
    elif k == 'mktwin':
      if h2 is None:
        h2 = build_client(script, loop, net)      # opens while the first client has calls in flight
        loop.settle()
    elif k == 'vping':
      # a two-way void call without arguments (answered by the peer at once); not one of the traced calls
      cl = h['client']
      if cl is not None and script.get('iface') == 'base':
        try:
          cl._dispatcher.DispatchMethodCall('ping', (), {}, timeout=op[1] / 1000.0)
        except Exception:
          pass
    elif k == 'reply':
      un = [p for p in peer.unanswered() if not p.conn.closed and p.reply is not None]
      if un:
        peer.release(un[op[1] % len(un)])
    elif k == 'badreply':
      un = [p for p in peer.unanswered() if not p.conn.closed and p.reply is not None]
      if un:
        p = un[op[1] % len(un)]
        if op[2] == 'appexc':
          peer.release(p, payload=peers.tbin_encode_appexc(rec.method, 'boom', p.call.get('seqid', 0)))
        elif op[2] == 'empty':
          # a well-formed reply whose result struct has no field set (no value, no declared exception)
          peer.release(p, payload=peers.tbin_encode_void_reply(rec.method, p.call.get('seqid', 0)))
        else:
          peer.release(p, payload=b'\x00\x01garbage')
    elif k == 'stepq':
      loop.step(op[1])
    elif k == 'age':
      common.age_tag_pools(op[1])
    elif k == 'adv':
      loop.run_for(op[1] / 1000.0)
      loop.settle()
      # a quiescent point only counts while no connection's writes are blocked (a queued
      # discard cannot reach the peer before the socket drains)
      if not any(c.stall_until > loop.now() and not c.closed for c in net.conns):
        rec.ev.append({'e': 'Quiet', 't': rec.ms()})
    elif k == 'fault':
      live = [c for c in net.conns if c.connected and not c.closed]
      if live:
        c = live[op[1] % len(live)]
        if op[2] == 'err':
          c.feed_error()
        else:
          c.feed_eof()
    elif k == 'stall':
      for c in net.conns:
        if c.connected and not c.closed:
          c.stall_until = max(c.stall_until, loop.now() + op[1] / 1000.0)
    elif k == 'plan':
      plans[op[1]] = list(op[2])
    elif k == 'join' or k == 'leave':
      pr = h['provider']
      ep = h['eps'][op[1] % 4]
      inst = ScalesUriParser.Server(Endpoint(ep[0], ep[1]))
      if k == 'join':
        if ep not in pr.members:
          pr.members.append(ep)
        if pr.on_join:
          gevent.spawn(pr.on_join, inst)
      else:
        if ep in pr.members:
          pr.members.remove(ep)
        if pr.on_leave:
          gevent.spawn(pr.on_leave, inst)
  # run past every deadline, then quiesce
  stall_end = max([int((c.stall_until - EPOCH) * 1000) for c in net.conns] + [0])
  end = max(max_deadline + 50, rec.ms() + 50, stall_end + 50)
  end = ((end + 9) // 10) * 10
  loop.run_until(EPOCH + end / 1000.0)
  loop.settle()
  rec.ev.append({'e': 'End', 't': rec.ms()})
  return {'cfg': {'t0': T0, 'kind': script['kind']}, 'ev': rec.ev,
          'meta': {'errors': [list(e[1:3]) for e in loop.errors][:4], 'built': h['client'] is not None}}


def trace_for_tlc(t):
  return {'cfg': {'t0': t['cfg']['t0']}, 'ev': t['ev']}


def nontrivial(prop, t):
  ev = t['ev']
  if sum(1 for e in ev if e['e'] == 'Issue') < 2:
    return None
  kinds = set(e.get('kind') for e in ev if e['e'] == 'Done')
  interesting = bool(kinds - {'value'}) or any(e['e'] in ('Discard', 'Changed') for e in ev)
  if not interesting:
    return None
  return common.canon([{k: v for k, v in e.items() if k != 't'} for e in ev])


def witness(prop, t, consumed, clause):
  ev = t['ev']
  e = ev[consumed] if consumed < len(ev) else {}
  w = {'kind': t['cfg'].get('kind')}
  if e.get('e') == 'Done':
    c = e['c']
    issue = next(x for x in ev if x['e'] == 'Issue' and x['c'] == c)
    sent = any(x['e'] == 'Wire' and x['c'] == c for x in ev[:consumed])
    w['sent'] = sent
    w['done_kind'] = e['kind']
  if e.get('e') == 'End':
    pending = [x['c'] for x in ev if x['e'] == 'Issue' and not any(y['e'] == 'Done' and y['c'] == x['c'] for y in ev)]
    w['pending_never_sent'] = all(not any(y['e'] == 'Wire' and y['c'] == c for y in ev) for c in pending)
  return w
