"""Engine `pool` (C07): scales.pool.watermark.WatermarkPoolSink (+ PoolSink, sink stacks).

Specs: PoolAbs (oracle), PoolAbsTrace (batched validation), WatermarkPool (code-shaped).

The real WatermarkPoolSink sits on a mock SinkProvider whose connections are driven by the
script: Open() results complete at once or when the script says so (success or failure), requests
are held until the script answers them (reply or error), `state` flips to Closed on Die (with or
without the on_faulted signal).  Every request travels on a real ClientMessageSinkStack whose
bottom frame is a counting response sink.  Timeouts are either injected exactly the way
ClientTimeoutSink._TimeoutHelper does it (a TimeoutError message posted to the top of the stack),
or produced by a real ClientTimeoutSink above the pool with the real GLOBAL_TIMER_QUEUE on the
virtual clock.

Direction A: TLC -simulate behaviours of WatermarkPool.tla (the variant matching the tree: the
three switchable defects are detected by behaviour) single-stepped on the real pool, projection
(_current_size, cache ids, waiter ids, state) compared after every step.
Direction B: seeded random histories + systematic enumeration of short histories.
"""
import itertools
import os
import random
import tempfile

from harness import common, tlc

try:
  # Pure module imports (no hub is created, nothing is patched): forked children inherit them, which
  # halves the per-case start-up cost.  scales itself is imported only in the child, after common.boot().
  import gevent, gevent.event, gevent.lock, gevent.queue, gevent.socket   # noqa: F401,E401
except Exception:   # pragma: no cover
  pass

NAME = 'pool'
PROPS = ['C07']
LEVEL = {'C07': 'model_checking'}
TRACE_MODULE = 'PoolAbsTrace'
TRACE_CFG = 'PoolAbsTrace.cfg'
TRACE_CHUNK = 1200
UNB = 1000     # qlen value standing for "unbounded" (PoolAbs!Unb)
ASSUMPTIONS = [
  'virtual-time gevent loop preserves gevent callback FIFO order and timer semantics (selftest)',
  'connections are mocks at the SinkProvider boundary: Open() completes when the script says, requests are '
  'held until answered, `state` is Closed after Die / failed Open / Close()',
  'a timeout takes the connection back although it is still busy (sink-stack semantics); the connection is '
  'then considered free by the pool and by the oracle',
  'after a pool closed (dead connection released, owner Close(), or state Closed), also when its owner opens it '
  'again, only C07.closeFailsWaiters, C07.exclusive and C07.max in the form "connections lent or being opened '
  'at once <= max_watermark" are judged (connections a closed pool gives up without closing are not counted)',
  'requests that timed out while queued may still occupy queue slots (a max-waiters error is accepted then)',
  'TLC exhaustive only within the stated constants (requests, connections, deaths, timeouts)',
]
RULE = {'C07': 'seeded random histories (arrivals with immediate/deferred/failed opens, answers, timeouts '
               'simulated or by the real ClientTimeoutSink, deaths, owner Close, partial scheduler steps) over '
               '(min,max,queue) in {0,1,2}x{1,2,3}x{0,1,2,unbounded}, systematic enumeration of all short '
               'suffixes over an 11-symbol alphabet after a saturating prefix, a family of close histories (dead connection '
               'released / owner Close() with cached connections, Close()/Open() cycles, bursts of max+2 concurrent '
               'requests afterwards), and TLC-simulated behaviours; every '
               'history ends with drain + Stop + probe burst of max_watermark requests + Stop; non-trivial = at '
               'least 3 arrivals and at least one of: a request had to wait, timeout, death, deferred or failed '
               'open; distinct by canonical event list'}

PST = {1: 'idle', 2: 'open', 3: 'busy', 4: 'closed'}
TICK = 1.0 / 16


# ------------------------------------------------------------------ models
# counterexample generators: the code-shaped model with one defect of the original code switched on
# must violate the clause (documents that the model and the oracle see the defect)
ORIG_MODELS = [
  dict(module='WatermarkPool', cfg='WatermarkPool_orig.cfg', expect_violation='StopOK', workers=4,
       what='original _ProcessQueue (IndexError on a timed-out waiter / empty waiters): connection lost'),
  dict(module='WatermarkPool', cfg='WatermarkPool_origdeq.cfg', expect_violation='ProbeOK', workers=4,
       what='original _Dequeue (no size decrement when a dead cached sink is discarded): capacity lost'),
  dict(module='WatermarkPool', cfg='WatermarkPool_origmaxw.cfg', expect_violation='QuietOK', workers=4,
       what='original FailingMessageSink(MaxWaitersError()) (TypeError): no max-waiters error delivered'),
]


def models(prop, tier):
  if tier == 'quick':
    return [
      dict(module='WatermarkPool', cfg='WatermarkPool_fix.cfg', coverage=True, may_be_unused=['CloseExt', 'Reopen'],
           what='repaired code: (min,max,queue) in {0,1}x{1,2}x{0,1,2}, 4 requests, 2 deaths/failed opens, 2 timeouts'),
      dict(module='WatermarkPool', cfg='WatermarkPool_close.cfg', coverage=True,
           what='repaired code + owner Close() and re-Open(): (min,max,queue) in {1,2}x{1,2}x{1,2}, 3 requests, 1 death, 2 timeouts'),
    ] + ORIG_MODELS
  return [
    dict(module='WatermarkPool', cfg='WatermarkPool_fix.cfg', coverage=True, may_be_unused=['CloseExt', 'Reopen'],
         what='repaired code: (min,max,queue) in {0,1}x{1,2}x{0,1,2}, 4 requests, 2 deaths/failed opens, 2 timeouts'),
    dict(module='WatermarkPool', cfg='WatermarkPool_close.cfg', coverage=True,
         what='repaired code + owner Close() and re-Open(): (min,max,queue) in {1,2}x{1,2}x{1,2}, 3 requests, 1 death, 2 timeouts'),
    dict(module='WatermarkPool', cfg='WatermarkPool_big.cfg', timeout=3000, heap='24g',
         what='repaired code: (min,max,queue) in {0,1,2}x{1,2,3}x{0,1,2,unbounded}, 4 requests, 2 deaths, 3 timeouts'),
  ] + ORIG_MODELS


# ------------------------------------------------------------------ the world (real pool + mocks)
class _World(object):
  """Built inside the forked child after common.boot()."""

  def __init__(self, loop, cfg, tmo):
    import gevent
    from scales.asynchronous import AsyncResult
    from scales.constants import ChannelState, SinkProperties
    from scales.message import Message, MethodReturnMessage, TimeoutError as ScalesTimeout, Deadline
    from scales.pool import watermark
    from scales.sink import ClientMessageSink, ClientMessageSinkStack
    from scales import dispatch
    self.loop = loop
    self.gevent = gevent
    self.cfg = cfg
    self.tmo = tmo
    self.ev = []
    self.errors = []
    self.conns = []
    self.reqs = {}          # r -> dict(ss, term)
    self.order = []         # requests in arrival order
    self.mode = 'ok'
    self.cur = 0            # request whose arrival is executing
    self.last_pst = None
    self.ChannelState = ChannelState
    self.MethodReturnMessage = MethodReturnMessage
    self.ScalesTimeout = ScalesTimeout
    self.Deadline = Deadline
    self.Stack = ClientMessageSinkStack
    world = self
    maxw_cls = getattr(watermark, 'MaxWaitersError', None)
    closed_cls = getattr(dispatch, 'ServiceClosedError', None)

    class ConnError(Exception):
      pass
    self.ConnError = ConnError

    class Msg(Message):
      pass
    self.Msg = Msg

    class Conn(ClientMessageSink):
      def __init__(self, i):
        super(Conn, self).__init__()
        self.i = i
        self._st = ChannelState.Idle
        self.open_ar = None
        self.pending = False
        self.infl = {}
        self.closed = False
        self.dead = False

      def Open(self):
        ar = AsyncResult()
        self.open_ar = ar
        if world.mode == 'ok':
          self._st = ChannelState.Open
          world.log({'e': 'Opened', 'c': self.i, 'ok': 1})
          ar.set(True)
        else:
          self.pending = True
        return ar

      def Close(self):
        self.closed = True
        self._st = ChannelState.Closed
        world.log({'e': 'Closed', 'c': self.i})

      @property
      def state(self):
        return self._st

      def AsyncProcessRequest(self, sink_stack, msg, stream, headers):
        r = getattr(msg, 'rid', 0)
        world.log({'e': 'Start', 'r': r, 'c': self.i})
        self.infl[r] = sink_stack

      def AsyncProcessResponse(self, sink_stack, context, stream, msg):
        raise NotImplementedError('not on the stack')

    class Provider(object):
      def CreateSink(self, properties):
        c = Conn(len(world.conns) + 1)
        world.conns.append(c)
        world.log({'e': 'Create', 'c': c.i, 'r': world.cur})
        return c

    class Terminal(ClientMessageSink):
      def __init__(self, r):
        super(Terminal, self).__init__()
        self.r = r
        self.n = 0

      def AsyncProcessRequest(self, *a):
        raise NotImplementedError()

      def AsyncProcessResponse(self, sink_stack, context, stream, msg):
        err = getattr(msg, 'error', None)
        if err is None:
          k = 'ok'
        elif isinstance(err, ScalesTimeout):
          k = 'timeout'
        elif maxw_cls is not None and isinstance(err, maxw_cls):
          k = 'maxw'
        elif closed_cls is not None and isinstance(err, closed_cls):
          k = 'closed'
        elif isinstance(err, ConnError):
          k = 'err'
        else:
          k = 'other'
        if k == 'timeout' and not world.reqs[self.r].get('tmo_logged'):
          world.reqs[self.r]['tmo_logged'] = True
          world.log({'e': 'TimedOut', 'r': self.r})
        self.n += 1
        world.log({'e': 'Deliver', 'r': self.r, 'k': k})
    self.Terminal = Terminal

    import collections
    Endpoint = collections.namedtuple('Endpoint', 'host port')   # the pool only reads .host/.port
    qlen = cfg['qlen']
    kw = dict(min_watermark=cfg['min'], max_watermark=cfg['max'])
    if qlen != UNB:
      kw['max_queue_len'] = qlen
    props = watermark.WatermarkPoolSink.Builder(**kw).sink_properties
    gprops = {SinkProperties.Endpoint: Endpoint('h', 1), SinkProperties.Label: 'pool'}
    self.pool = watermark.WatermarkPoolSink(Provider(), props, gprops)
    self.top = self.pool
    self.base = loop.now()
    if tmo == 'real':
      from scales import sink as sink_mod

      class Below(object):
        def CreateSink(_, properties):
          return world.pool
      self.top = sink_mod.ClientTimeoutSink(Below(), None, gprops)
      helper = getattr(sink_mod.ClientTimeoutSink, '_TimeoutHelper', None)
      if helper is not None:
        def wrapped(tsink, evt, sink_stack, _orig=helper):
          r = getattr(sink_stack, 'rid', 0)
          q = world.reqs.get(r)
          if q is not None and q['term'].n == 0 and not q.get('tmo_logged'):
            q['tmo_logged'] = True
            world.log({'e': 'TimedOut', 'r': r})
          return _orig(tsink, evt, sink_stack)
        sink_mod.ClientTimeoutSink._TimeoutHelper = wrapped

  # -- observation
  def pst(self):
    try:
      return PST.get(self.pool.state, 'open')
    except Exception:
      return 'open'

  def log(self, e):
    p = self.pst()
    if p != self.last_pst:
      if p == 'closed':
        self.ev.append({'e': 'PState', 'pst': p})
      self.last_pst = p
    self.ev.append(e)

  def projection(self):
    try:
      return {'size': int(self.pool._current_size), 'cache': [c.i for c in self.pool._cache],
              'waiters': [getattr(w[1], 'rid', 0) for w in self.pool._waiters], 'pstate': self.pst()}
    except Exception:
      return None

  def guarded(self, fn, *a):
    try:
      fn(*a)
    except Exception as ex:   # an exception escaping into the environment's greenlet
      self.errors.append(type(ex).__name__)

  # -- environment actions
  def open_pool(self):
    self.mode = 'ok'
    self.cur = 0
    g = self.gevent.spawn(lambda: self.pool.Open().wait())
    self.loop.settle()
    self.last_pst = self.pst()

  def arrive(self, r, mode=None, dl=0):
    ss = self.Stack()
    term = self.Terminal(r)
    ss.Push(term)
    ss.rid = r
    msg = self.Msg()
    msg.rid = r
    if dl and self.tmo == 'real':
      msg.properties[self.Deadline.KEY] = self.base + dl * TICK
    self.reqs[r] = {'ss': ss, 'term': term, 'arrived': False}

    def run():
      if mode is not None:
        self.mode = mode
      self.cur = r
      self.reqs[r]['arrived'] = True
      self.order.append(r)
      self.log({'e': 'Arrive', 'r': r})
      try:
        self.top.AsyncProcessRequest(ss, msg, None, {})
      finally:
        # the part before the first yield is over (or everything is)
        self.cur = 0
    return self.gevent.spawn(run)

  def pending_opens(self):
    return [c for c in self.conns if c.pending]

  def open_done(self, c, ok):
    if not c.pending:
      return False
    c.pending = False
    if ok:
      c._st = self.ChannelState.Open
      self.log({'e': 'Opened', 'c': c.i, 'ok': 1})
      c.open_ar.set(True)
    else:
      c._st = self.ChannelState.Closed
      c.dead = True
      self.log({'e': 'Opened', 'c': c.i, 'ok': 0})
      c.open_ar.set_exception(self.ConnError('open failed'))
    return True

  def inflight(self):
    out = []
    for c in self.conns:
      for r in c.infl:
        out.append((r, c))
    return out

  def answer(self, r, k):
    for c in self.conns:
      if r in c.infl:
        ss = c.infl.pop(r)
        self.log({'e': 'Done', 'r': r, 'c': c.i, 'k': k})
        if k == 'ok':
          m = self.MethodReturnMessage(return_value=r)
        else:
          m = self.MethodReturnMessage(error=self.ConnError('connection error'))
        self.guarded(ss.AsyncProcessResponseMessage, m)
        return True
    return False

  def live(self):
    """arrived requests that nothing has been delivered to"""
    return [r for r in self.order if self.reqs[r]['term'].n == 0]

  def timeout(self, r):
    q = self.reqs.get(r)
    if q is None or not q['arrived'] or q['term'].n > 0 or not q['ss'].Any():
      return False
    q['tmo_logged'] = True
    self.log({'e': 'TimedOut', 'r': r})
    self.guarded(q['ss'].AsyncProcessResponseMessage, self.MethodReturnMessage(error=self.ScalesTimeout()))
    return True

  def open_conns(self):
    return [c for c in self.conns if not c.closed and not c.dead and not c.pending
            and c._st == self.ChannelState.Open]

  def die(self, c, fault):
    if c.closed or c.dead or c.pending or c._st != self.ChannelState.Open:
      return False
    c.dead = True
    c._st = self.ChannelState.Closed
    self.log({'e': 'Die', 'c': c.i})
    if fault:
      c.on_faulted.Set()
    return True

  def close_pool(self):
    if self.pst() == 'closed':
      return False
    self.log({'e': 'PoolClose'})
    self.guarded(self.pool.Close)
    return True

  def reopen_pool(self):
    """The owner opens the pool again after a close (ResurrectorSink.Close()/Open() keep the object)."""
    if self.pst() != 'closed':
      return False
    self.log({'e': 'PoolOpen'})
    self.guarded(self.pool.Open)     # SafeLink: _OpenImpl runs in a spawned greenlet
    return True

  def quiet(self, name='Q'):
    self.loop.settle()
    self.log({'e': name, 'pst': self.pst()})

  def drain(self):
    """Let traffic stop: complete pending opens, answer everything in flight, until nothing moves."""
    for _ in range(200):
      self.loop.settle()
      moved = False
      for c in self.pending_opens():
        moved |= self.open_done(c, True)
      self.loop.settle()
      for r, c in self.inflight():
        moved |= self.answer(r, 'err' if (c.dead or c.closed) else 'ok')
      if not moved:
        return
    raise RuntimeError('drain does not terminate')

  def finish(self, probe_base):
    self.drain()
    self.quiet('Stop')
    if self.pst() != 'closed':
      n = self.cfg['max']
      for i in range(n):
        self.arrive(probe_base + 1 + i, 'ok')
        self.loop.settle()
      self.log({'e': 'Probe', 'lo': probe_base + 1, 'hi': probe_base + n})
      self.drain()
      self.quiet('Stop')
    self.quiet('Q')

  def meta(self):
    errs = sorted(set([e[1] for e in self.loop.errors] + self.errors))
    return {'errors': errs, 'proj': self.projection()}


def _pick(lst, k):
  return lst[k % len(lst)] if lst else None


def _apply(w, op):
  """Execute one script op. Returns False when it was not applicable (skipped)."""
  k = op[0]
  loop = w.loop
  if k == 'A':          # exact: request id, open mode of a connection created for it, deadline (ticks)
    w.arrive(op[1], op[2] if len(op) > 2 else 'ok', op[3] if len(op) > 3 else 0)
  elif k == 'O':
    c = w.conns[op[1] - 1] if 0 < op[1] <= len(w.conns) else None
    return bool(c) and w.open_done(c, bool(op[2]))
  elif k == 'o':
    c = _pick(w.pending_opens(), op[1])
    return bool(c) and w.open_done(c, bool(op[2]))
  elif k == 'D':
    return w.answer(op[1], op[2])
  elif k == 'd':
    x = _pick(w.inflight(), op[1])
    return bool(x) and w.answer(x[0], op[2])
  elif k == 'T':
    return w.timeout(op[1])
  elif k == 't':
    r = _pick(w.live(), op[1])
    return r is not None and w.timeout(r)
  elif k == 'tw':       # oldest live request that is not on a connection (waiting or opening)
    on = set(r for r, _ in w.inflight())
    r = _pick([x for x in w.live() if x not in on], op[1])
    return r is not None and w.timeout(r)
  elif k == 'X':
    c = w.conns[op[1] - 1] if 0 < op[1] <= len(w.conns) else None
    return bool(c) and w.die(c, op[2])
  elif k == 'x':
    c = _pick(w.open_conns(), op[1])
    return bool(c) and w.die(c, op[2])
  elif k == 'C':
    return w.close_pool()
  elif k == 'R':
    w.mode = 'ok'
    return w.reopen_pool()
  elif k == 'xl':       # the connection working on the k-th request in flight dies
    x = _pick(w.inflight(), op[1])
    return bool(x) and w.die(x[1], op[2])
  elif k == 's':
    loop.step(op[1])
  elif k == 'cb':
    loop.step_callback()
  elif k == 'run':
    loop.settle()
  elif k == 'Q':
    w.quiet('Q')
  elif k == 'clk':
    loop.advance_to(w.base + op[1] * TICK)
  elif k == 'adv':
    loop.run_until(w.base + op[1] * TICK)
    loop.settle()
  else:
    raise ValueError('unknown op %r' % (op,))
  return True


def run_case(script):
  if 'behaviour' in script:
    o = _replay_one(script)
    return {'cfg': o['cfg'], 'ev': o['ev'], 'meta': o['meta']}
  loop = common.boot()
  cfg = script['cfg']
  w = _World(loop, cfg, script.get('tmo', 'sim'))
  w.open_pool()
  loop.settle()
  # the pool's own Open() is part of the trace (Create/Opened/Closed of the first connection)
  applied = []
  for op in script['ops']:
    applied.append(1 if _apply(w, op) else 0)
  maxr = max([op[1] for op in script['ops'] if op[0] == 'A'] + [0])
  if script.get('fin', 1):
    w.finish(maxr)
  else:
    w.quiet('Q')
  m = w.meta()
  m['applied'] = applied
  return {'cfg': cfg, 'ev': w.ev, 'meta': m}


def trace_for_tlc(t):
  return {'cfg': t['cfg'], 'ev': t['ev']}


# ------------------------------------------------------------------ direction B: scripts
CONFIGS = [(mn, mx, q) for mn in (0, 1, 2) for mx in (1, 2, 3) for q in (0, 1, 2, UNB)]


def _rand_script(rng, cfg):
  mn, mx, q = cfg
  real = rng.random() < 0.3
  nreq = rng.randint(3, 6)
  ops = []
  r = 0
  t = 0
  n = rng.randint(6, 22)
  p_settle = rng.choice([0.9, 0.7, 0.4])
  p_wait = rng.choice([0.0, 0.15, 0.5])
  for _ in range(n):
    x = rng.random()
    settle = rng.random() < p_settle
    if x < 0.32 and r < nreq:
      r += 1
      mode = 'wait' if rng.random() < p_wait else 'ok'
      dl = 0
      if real and rng.random() < 0.7:
        dl = t + rng.choice([2, 4, 4, 8, 16])
      ops.append(['A', r, mode, dl])
      if rng.random() < 0.85:
        ops.append(['cb'] if rng.random() < 0.3 else ['run'])
      continue
    elif x < 0.55:
      ops.append(['d', rng.randint(0, 3), 'ok' if rng.random() < 0.8 else 'err'])
    elif x < 0.68:
      if real:
        t += rng.choice([1, 2, 4, 8])
        ops.append(['clk', t] if rng.random() < 0.4 else ['adv', t])
      else:
        ops.append([rng.choice(['t', 'tw', 'tw']), rng.randint(0, 3)])
    elif x < 0.76:
      ops.append(['o', rng.randint(0, 2), 1 if rng.random() < 0.75 else 0])
    elif x < 0.84:
      ops.append(['x', rng.randint(0, 2), 1 if rng.random() < 0.5 else 0])
    elif x < 0.86:
      ops.append(['C'] if rng.random() < 0.6 else ['R'])
    elif x < 0.93:
      ops.append(['s', rng.randint(1, 3)])
    else:
      ops.append(['Q'])
    if settle:
      ops.append(['run'])
  return {'cfg': {'min': mn, 'max': mx, 'qlen': q}, 'tmo': 'real' if real else 'sim', 'ops': ops, 'fin': 1}


# systematic alphabet: every symbol is resolved against the run-time situation
SYMS = {
  'a': [['A', None, 'ok', 0], ['run']],            # arrival, connection (if created) opens at once
  'w': [['A', None, 'wait', 0], ['run']],          # arrival, open deferred
  'o': [['o', 0, 1], ['run']],                     # oldest pending open succeeds
  'f': [['o', 0, 0], ['run']],                     # oldest pending open fails
  'd': [['d', 0, 'ok'], ['run']],                  # oldest request in flight answered
  'D': [['d', 0, 'ok']],                           # ... and the scheduler does not run yet
  'e': [['d', -1, 'ok'], ['run']],                 # newest request in flight answered
  't': [['tw', 0], ['run']],                       # oldest request not on a connection times out
  'T': [['tw', 0]],                                # ... without running the scheduler
  'u': [['t', 0], ['run']],                        # oldest live request times out (lent ones first)
  'x': [['x', -1, 0], ['run']],                    # newest healthy connection dies
}


def _sym_script(cfg, prefix, word):
  mn, mx, q = cfg
  ops = []
  r = 0
  for ch in prefix + word:
    for op in SYMS[ch]:
      op = list(op)
      if op[0] == 'A':
        r += 1
        op[1] = r
      ops.append(op)
  ops.append(['run'])
  return {'cfg': {'min': mn, 'max': mx, 'qlen': q}, 'tmo': 'sim', 'ops': ops, 'fin': 1, 'word': prefix + '|' + word}


def _systematic(tier, seed):
  out = []
  alpha = sorted(SYMS)
  if tier == 'quick':
    rot = [((1, 1, 2), 'aaa'), ((0, 2, 1), 'aaa'), ((1, 2, UNB), 'aaaa'), ((0, 1, 1), 'aa'), ((2, 2, 2), 'aaa')]
    plans = [rot[int(seed) % 5]]
    for cfg, prefix in plans:
      for wlen in (1, 2, 3):
        for word in itertools.product(alpha, repeat=wlen):
          out.append(_sym_script(cfg, prefix, ''.join(word)))
    return out
  for cfg in CONFIGS:                     # every configuration: all suffixes of length <= 2
    prefix = 'a' * (cfg[1] + 1)
    for wlen in (1, 2):
      for word in itertools.product(alpha, repeat=wlen):
        out.append(_sym_script(cfg, prefix, ''.join(word)))
  for cfg, prefix in [((1, 1, 2), 'aaa'), ((0, 2, 1), 'aaa'), ((1, 2, UNB), 'aaaa'), ((0, 1, 1), 'aa'),
                      ((2, 2, 2), 'aaa'), ((1, 3, 1), 'aaaa'), ((0, 1, 0), 'a')]:
    for word in itertools.product(alpha, repeat=3):
      out.append(_sym_script(cfg, prefix, ''.join(word)))
  for word in itertools.product(alpha, repeat=4):
    out.append(_sym_script((1, 2, 2), 'aaa', ''.join(word)))
  return out


def _close_family(rng, tier):
  """Histories around a Close() of a pool that still has cached connections, followed by more traffic
  on the same pool object: dead connection found on release with min_watermark >= 2, owner Close() of an
  idle or busy pool, owner Close()/Open() cycles between bursts of max_watermark + 2 concurrent requests."""
  out = []
  reps = 2 if tier == 'quick' else 12
  for mn, mx in [(2, 2), (2, 3), (3, 3), (3, 2), (1, 1), (1, 2), (2, 1), (0, 1), (0, 2), (1, 3)]:
    for q in (1, UNB):
      for variant in ('dead', 'dead-reopen', 'idle', 'idle-reopen', 'busy-reopen', 'cycles'):
        for rep in range(reps):
          ops = []
          r = [0]

          def burst(n, mode='ok'):
            for _ in range(n):
              r[0] += 1
              ops.append(['A', r[0], mode, 0])
              ops.append(['run'])

          def answer_all():
            for _ in range(mx + 3):
              ops.append(['d', 0, 'ok'])
              ops.append(['run'])

          warm = min(mx, max(mn, 1))
          burst(warm)                      # establishes `warm` connections concurrently
          answer_all()                     # min(warm, min_watermark) of them stay cached
          if variant.startswith('dead'):
            burst(1)
            ops.append(['xl', 0, rng.randint(0, 1)])
            ops.append(['d', 0, 'err'])    # released dead: the pool closes, cached sinks are flushed
            ops.append(['run'])
            if variant == 'dead-reopen':
              ops += [['R'], ['run']]
          elif variant.startswith('idle'):
            ops += [['C'], ['run']]
            if variant == 'idle-reopen':
              ops += [['R'], ['run']]
          elif variant == 'busy-reopen':
            burst(1)
            ops += [['C'], ['run'], ['R'], ['run']]
          burst(mx + 2, 'wait' if rep % 2 else 'ok')    # more than max_watermark concurrent requests
          for _ in range(3):
            ops.append(['o', 0, 1])
            ops.append(['run'])
          ops.append(['Q'])
          if variant == 'cycles' or rep >= 2:
            for _ in range(2 if variant == 'cycles' else 1):
              for _ in range(rng.randint(0, mx + 2)):
                ops.append(['d', rng.randint(0, 2), 'ok'])
                ops.append(['run'])
              ops += [['C'], ['run'], ['R']]
              if rng.random() < 0.7:
                ops.append(['run'])
              burst(mx + 2)
              ops.append(['Q'])
          out.append({'cfg': {'min': mn, 'max': mx, 'qlen': q}, 'tmo': 'sim', 'ops': ops, 'fin': 1,
                      'word': 'close:' + variant})
  return out


def cases(prop, tier, seed):
  rng = random.Random(7000003 * int(seed) + 7)
  n = 1000 if tier == 'quick' else 20000
  out = []
  for i in range(n):
    out.append(_rand_script(rng, CONFIGS[(i + int(seed)) % len(CONFIGS)]))
  out.extend(_close_family(rng, tier))
  out.extend(_systematic(tier, seed))
  return out


def nontrivial(prop, t):
  ev = t['ev']
  arr = [e for e in ev if e['e'] == 'Arrive']
  if len(arr) < 3:
    return None
  waited = False
  for i, e in enumerate(ev):
    if e['e'] == 'Arrive':
      nxt = ev[i + 1] if i + 1 < len(ev) else {'e': ''}
      if not (nxt['e'] in ('Start', 'Create', 'Closed') or (nxt['e'] == 'Deliver' and nxt['r'] == e['r'])):
        waited = True
  interesting = waited or any(e['e'] in ('TimedOut', 'Die') or (e['e'] == 'Opened' and not e['ok']) for e in ev)
  return common.canon(ev) if interesting else None


def witness(prop, t, consumed, clause):
  """Features of a failing history (for known_findings matching)."""
  ev = t['ev']
  upto = ev[:consumed + 1]
  on = set()
  dead = set()
  tmo_waiting = False
  dead_cached_discarded = False
  arriving = False
  for e in upto:
    k = e['e']
    if k == 'Start':
      on.add(e['r'])
    elif k == 'Create' and e['r']:
      on.add(e['r'])
    elif k == 'TimedOut' and e['r'] not in on:
      tmo_waiting = True
    elif k == 'Die' or (k == 'Opened' and not e['ok']):
      dead.add(e['c'])
    elif k == 'Closed' and arriving and e['c'] in dead:
      dead_cached_discarded = True      # _Dequeue threw a dead cached connection away
    if k == 'Arrive':
      arriving = True
    elif k != 'Closed':
      arriving = False
  errs = t.get('meta', {}).get('errors', [])
  fe = ev[consumed] if consumed < len(ev) else {'e': 'end'}
  return {'event': fe['e'], 'timed_out_while_waiting': tmo_waiting, 'connection_died': bool(dead),
          'dead_cached_discarded': dead_cached_discarded,
          'index_error': 'IndexError' in errs, 'type_error': 'TypeError' in errs}


# ------------------------------------------------------------------ direction A
def _detect_case(_):
  """Which of the three switchable defects does the tree under test have? (by behaviour)"""
  loop = common.boot()
  out = {}
  # FixPQ: a waiter that timed out while queued is skipped and the connection survives
  w = _World(loop, {'min': 1, 'max': 1, 'qlen': UNB}, 'sim')
  w.open_pool()
  for op in (['A', 1], ['run'], ['A', 2], ['run'], ['A', 3], ['run'], ['T', 2], ['D', 1, 'ok'], ['run']):
    _apply(w, op)
  out['FixPQ'] = any(e['e'] == 'Start' and e['r'] == 3 for e in w.ev)
  w = _World(loop, {'min': 1, 'max': 1, 'qlen': UNB}, 'sim')
  w.open_pool()
  for op in (['X', 1, 0], ['A', 1], ['run']):
    _apply(w, op)
  out['FixDeq'] = any(e['e'] == 'Start' and e['r'] == 1 for e in w.ev)
  w = _World(loop, {'min': 1, 'max': 1, 'qlen': 0}, 'sim')
  w.open_pool()
  for op in (['A', 1], ['run'], ['A', 2], ['run']):
    _apply(w, op)
  out['FixMaxW'] = any(e['e'] == 'Deliver' and e['r'] == 2 and e['k'] == 'maxw' for e in w.ev)
  return out


def detect_variant():
  res = common.run_forked(_detect_case, [0])
  if 'err' in res[0]:
    raise RuntimeError('variant detection failed:\n' + res[0]['err'])
  return res[0]['ok']


SIM_CFG = '''SPECIFICATION Spec
CONSTANTS
  MinS = %(MinS)s
  MaxS = %(MaxS)s
  QS = %(QS)s
  NReq = %(NReq)d
  NConn = %(NConn)d
  MaxDie = %(MaxDie)d
  MaxTmo = %(MaxTmo)d
  ExtClose = %(ExtClose)s
  FixPQ = %(FixPQ)s
  FixDeq = %(FixDeq)s
  FixMaxW = %(FixMaxW)s
CHECK_DEADLOCK FALSE
'''
# TLC's random walks pick uniformly among successor states: with many deaths/timeouts/closes enabled the
# queue hand-off paths are rarely reached, so most behaviours come from traffic-heavy constants.
SIM_PLANS = [
  (0.4, dict(MinS='{0, 1}', MaxS='{1, 2}', QS='{1, 2, 1000}', NReq=6, NConn=4, MaxDie=0, MaxTmo=1, ExtClose='FALSE')),
  (0.3, dict(MinS='{0, 1}', MaxS='{1, 2}', QS='{1, 2, 1000}', NReq=6, NConn=4, MaxDie=1, MaxTmo=2, ExtClose='FALSE')),
  (0.3, dict(MinS='{0, 1, 2}', MaxS='{1, 2, 3}', QS='{0, 1, 2, 1000}', NReq=5, NConn=5, MaxDie=2, MaxTmo=3,
             ExtClose='TRUE')),
]


def _replay_one(script):
  """Step the real pool through one TLC behaviour of WatermarkPool.tla."""
  beh = script['behaviour']
  loop = common.boot()
  s0 = beh[0][1]['st']
  cfg = {'min': s0['min'], 'max': s0['max'], 'qlen': s0['qlen']}
  w = _World(loop, cfg, 'sim')
  w.open_pool()
  loop.settle()
  drift = None
  steps = 0
  nreq = 0

  def compare(act, st):
    real = w.projection()
    if real is None:
      return None
    spec = {'size': st['size'], 'cache': list(st['cache']), 'waiters': list(st['waiters']), 'pstate': st['pstate']}
    if spec != real:
      return {'step': steps, 'action': act, 'spec': spec, 'real': real}
    return None

  drift = compare(['Init', []], s0)

  def conn(i):
    return w.conns[i - 1] if 0 < i <= len(w.conns) else None

  for act, state in beh[1:]:
    name, params = act
    st = state['st']
    ok = True
    if name == 'SpawnArr':
      nreq = st['nextr'] - 1
      w.arrive(nreq, None)
    elif name == 'RunTask':
      w.mode = 'ok' if params[0] else 'wait'
      ok = loop.has_callbacks()
      if ok:
        loop.step_callback()
    elif name == 'OpenDone':
      ok = conn(params[0]) is not None and w.open_done(conn(params[0]), bool(params[1]))
    elif name == 'Respond':
      ok = w.answer(params[0], params[1])
    elif name == 'Timeout':
      ok = w.timeout(params[0])
    elif name == 'Die':
      ok = conn(params[0]) is not None and w.die(conn(params[0]), 0)
    elif name == 'CloseExt':
      ok = w.close_pool()
    elif name == 'Reopen':
      ok = w.reopen_pool()
    else:
      raise ValueError('unknown action %r' % (act,))
    steps += 1
    if not ok:
      # the real pool is not where the model thinks it is: the action cannot be performed
      if drift is None:
        drift = {'step': steps, 'action': [name, params], 'spec': 'action enabled', 'real': 'action not applicable'}
      break
    if drift is None:
      drift = compare([name, params], st)
  w.mode = 'ok'
  w.finish(nreq)
  return {'cfg': cfg, 'ev': w.ev, 'steps': steps, 'drift': drift, 'meta': w.meta()}


def replay_behaviours(prop, tier, seed):
  variant = detect_variant()
  num = 300 if tier == 'quick' else 5000
  behs = []
  for k, (frac, consts) in enumerate(SIM_PLANS):
    consts = dict(consts)
    consts.update((f, 'TRUE' if v else 'FALSE') for f, v in variant.items())
    fd, path = tempfile.mkstemp(prefix='WatermarkPool_sim_', suffix='.cfg')
    try:
      with os.fdopen(fd, 'w') as f:
        f.write(SIM_CFG % consts)
      r, bs = tlc.simulate_behaviours('WatermarkPool', path, num=max(1, int(num * frac)), depth=50,
                                      seed=int(seed) * 10 + k + 1, timeout=900)
    finally:
      os.unlink(path)
    if not bs:
      raise RuntimeError('no behaviours from TLC simulate:\n' + r.stdout[-2000:])
    behs.extend(bs)
  if not behs:
    raise RuntimeError('no behaviours from TLC simulate:\n' + r.stdout[-2000:])
  scripts = [{'behaviour': [[a, s] for a, s in b]} for b in behs]
  res = common.run_forked(_replay_one, scripts)
  errs = [x['err'] for x in res if 'err' in x]
  if errs:
    raise RuntimeError('replay failed: ' + errs[0])
  traces = []
  drift = []
  steps = 0
  for s, x in zip(scripts, res):
    o = x['ok']
    steps += o['steps']
    if o['drift']:
      drift.append(o['drift'])
    traces.append({'cfg': o['cfg'], 'ev': o['ev'], 'meta': o['meta'], 'script': s})
  def has(b, pred):
    return any(pred(st['st']) for _, st in b)
  shape = {
    'with_waiters': sum(1 for b in behs if has(b, lambda st: len(st['waiters']) > 0)),
    'with_handoff_task': sum(1 for b in behs if has(b, lambda st: any(t[0] == 'PQ' for t in st['runq']))),
    'with_two_handoff_tasks': sum(1 for b in behs if has(b, lambda st: sum(1 for t in st['runq'] if t[0] == 'PQ') > 1)),
    'with_timeout_while_queued': sum(1 for b in behs if has(b, lambda st: 'tmoq' in st['ph'])),
    'with_parked_open': sum(1 for b in behs if has(b, lambda st: 'opening' in st['ph'])),
    'with_pool_closed': sum(1 for b in behs if has(b, lambda st: st['pstate'] == 'closed')),
  }
  return {'summary': {'behaviours_replayed': len(behs), 'steps_compared': steps, 'drift': len(drift),
                      'model_variant': variant, 'shape': shape},
          'traces': traces, 'drift': drift}


def extra_coverage(prop, tier, traces):
  clauses_exercised = {
    'requests_waited': 0, 'timeouts_while_waiting': 0, 'timeouts_while_lent': 0, 'deaths': 0, 'failed_opens': 0,
    'pool_closed_by_dead_release': 0, 'maxw_rejections': 0, 'probes': 0}
  for t in traces:
    on = set()
    for e in t['ev']:
      k = e['e']
      if k == 'Start' or (k == 'Create' and e['r']):
        on.add(e['r'])
      elif k == 'TimedOut':
        clauses_exercised['timeouts_while_lent' if e['r'] in on else 'timeouts_while_waiting'] += 1
      elif k == 'Die':
        clauses_exercised['deaths'] += 1
      elif k == 'Opened' and not e['ok']:
        clauses_exercised['failed_opens'] += 1
      elif k == 'Deliver' and e['k'] == 'maxw':
        clauses_exercised['maxw_rejections'] += 1
      elif k == 'Deliver' and e['k'] == 'closed':
        clauses_exercised['pool_closed_by_dead_release'] += 1
      elif k == 'Probe':
        clauses_exercised['probes'] += 1
  return {'exercised': clauses_exercised}
