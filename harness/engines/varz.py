"""Engine `varz` (C18): scales.varz Source / VarzReceiver / _SampleSet / VarzAggregator and the
per-call metric recording of scales.dispatch.MessageDispatcher.

Specs: VarzAbs (oracle), VarzAbsTrace (batched validation), Varz (code-shaped: dict keyed by
Source objects with Python key semantics, reservoir, Aggregate with its sleep(0) yields).
Direction A: TLC -simulate behaviours of Varz (the SourceEq variant that matches the tree, probed
from the real class) replayed on the real VarzReceiver / VarzAggregator, the aggregator greenlet
single-stepped one quantum per AggBegin/AggStep, projection (VARZ_DATA, returned aggregates)
compared after every step.
Direction B: (i) systematic + random update sequences through the three public recording styles
(VarzReceiver static calls, class-level VarzBase metrics called with a source, per-source VarzBase
instances incl. Measure()) from {the same object, fresh equal objects, re-used equal objects};
(ii) end-to-end: a real MessageDispatcher over a mock sink, recordings observed at the
VarzReceiver boundary (the dispatcher builds a fresh Source per call and per reply);
(iii) time: the virtual loop moves the clock (the real LowResolutionTime ticks on the real timer
queue) by seconds ... more than VarzAggregator.MAX_AGG_AGE between recordings, aggregation passes
fall inside the idle windows, long-lived bound holders go idle and resume next to holders of equal
sources made before / after the window and the unbound / static forms (`tick` ops of the api
scripts; _idle_systematic, _gen_timed), and a real VarzSocketWrapper (bound open_latency timer,
byte rates, connection counters) that opens, idles, is polled and re-opens (_gen_sock; recordings
observed at VarzMetric.__call__).  Each Sample event carries where the sample landed (room / took:
the series of its key in VARZ_DATA before and after the call);
(iv) scale: 2300-6500 distinct sources on one counter / rate metric with bystander services, IncRun
events (runs of increments, expanded exactly by the spec), service-level aggregates at checkpoints.
(v) several Varz classes: families that share attribute names under different _VARZ_BASE_NAMEs (`nattr`
of the api scripts; _family_systematic: equal / different sources, every construction order, bound
holders and class-level calls, same and different kinds behind a name) and the Varz classes of the
library itself (_gen_lib: every VarzBase subclass found after importing the scales modules); a recording
is logged under the full metric name of the class it was made through;
(vi) boundary values: 0, 0.0, -0.0, False, negative, large and float-typed integers as increment / gauge
value / sample on every recording path incl. "no amount given" and "nothing measured"
(_boundary_systematic, 20 % of the random values); the dispatcher runs log recordings where the
dispatcher makes them (VarzMetric.__call__), so a call that completes on one clock reading is a sample of 0.
(vii) concurrency: Aggregate passes in their own greenlet while recorder greenlets move +k / -k between the
101-300 series of one counter / rate metric (static, class-level, bound-holder recordings and real
VarzSocketWrapper open()/close()); PassBegin / PassEnd events bracket each pass and the oracle accepts an
entry iff it is right for SOME instant of the pass (_gen_conc);
(viii) client churn: a few hundred short-lived MessageDispatchers of 2-3 services behind equal endpoints,
created, used, closed, dropped and collected in alternation (_gen_churn).  In the dispatcher modes the
driver says whose call is being dispatched / answered, and what the dispatcher records meanwhile is logged
for that (method, service, endpoint), whatever Source object the dispatcher passes to its metrics.
Direction A also replays behaviours with clock steps (Varz_sim_age.cfg, 1 unit = 150 s).
Every verdict is VarzAbs's.
"""
import random

from harness import common, tlc

NAME = 'varz'
PROPS = ['C18']
LEVEL = {'C18': 'model_checking'}
TRACE_MODULE = 'VarzAbsTrace'
TRACE_CFG = 'VarzAbsTrace.cfg'
TRACE_CHUNK = 600
CASE_TIMEOUT = 900      # real-time guard only; a few hundred client lifetimes with gc.collect() are slow on a loaded machine
ASSUMPTIONS = [
  'samples, increments and gauge values are integer-valued; reported totals and percentiles are compared after '
  'the monotone map x -> round(1000 x), so float noise of the interpolation never decides a verdict',
  'time: the virtual gevent loop moves the clock; the real LowResolutionTime ticks once a second on the real timer '
  'queue, so _SampleSet.last_update and the `now` of Aggregate are the code\'s own.  C18 says nothing about age: the '
  'oracle knows no time.  An aggregate entry folded from no series (count 0: what Aggregate reports for a key whose '
  'reservoirs are all older than MAX_AGG_AGE, with zeros as percentiles) is not judged by percentileBounds (there is '
  'no retained sample among the contributing series); an entry with count >= 1 is judged against the retained samples '
  'whatever their age; an implementation may keep or delete old reservoirs',
  'where a sample landed is observed by reading the series of the recorded key in VARZ_DATA before and after the call '
  '(retained samples, offered count); unreadable reservoirs are not judged (room = took = -1)',
  'a recording is what the caller asked for: metric name = <_VARZ_BASE_NAME of the class used>.<attribute>, source and '
  'value as passed (no value = the documented default 1); a recording call that raises is logged all the same (lost, '
  'if the oracle says so).  Values stay integer-valued (0.0, -0.0, False, 3.0, -4.0, 100000.0 are); totals < 2^31 / 1000',
  'concurrent passes: every single recording is an instant; the two recordings of a balanced move are two instants '
  '(the sum in between did exist), so of the stitched sums a mid-metric yield can produce only those are flagged '
  'that no instant of the pass had',
  'dispatcher runs: the recordings made while DispatchMethodCall / the response handling of a call run are recordings '
  'for that call\'s (method, service, endpoint); their metric and value are observed, their source is the call\'s',
  'histories with thousands of sources are encoded with IncRun events (a run of increments in order, expanded exactly '
  'by the spec) and aggregated with the service-level selectors only (the statement defines per-service sums)',
  'the reservoir capacity is set through VarzReceiver._MAX_PERCENTILE_SIZE (2, 3 or the default 1000) and '
  'random.random of scales.varz is scripted; "retained samples" are read from the reservoirs (.data) when '
  'available, otherwise every recorded sample of the source bounds the percentiles (weaker, never stricter)',
  'a gauge aggregated over several *distinct* sources is not judged (the statement defines only the per-source value)',
  'updates that land while Aggregate sleeps are explored in the model and in direction A (aggregate entries are '
  'placed in the trace where the aggregator read the metric, observed through the key selector, independent of '
  'where Aggregate yields); direction B runs Aggregate to completion; a metric first '
  'recorded while Aggregate sleeps makes it raise RuntimeError (dict changed size): nothing is reported, not judged',
  'TLC exhaustive only within the stated constants (2-3 metrics, 2-3 source tuples, <= 6 updates, capacity 2)',
]
RULE = {'C18': 'systematic {same, fresh} object sequences x 6 metric kinds x source tuples x 3 recording styles, '
               'seeded random update/aggregate sequences, dispatcher end-to-end runs and TLC-simulated behaviours; '
               'idle-window histories (clock steps below/at/above MAX_AGG_AGE x aggregation passes inside the window x '
               'who resumes: the long-lived bound holder, holders of equal sources made before/after the window, unbound '
               'and static forms), seeded random timed histories, socket-wrapper histories, histories with '
               '2300-6500 distinct sources on one counter/rate metric, boundary values (zero, negative, large, float-typed) '
               'on every recording path, and 2-3 Varz classes sharing attribute names (harness-defined in every '
               'construction order, and the classes of the library); '
               'non-trivial = at least one aggregate reported and some (metric, source tuple) recorded at least '
               'twice; distinct by canonical event list'}

KINDS = ['counter', 'rate', 'gauge', 'timer', 'avgrate', 'aggtimer']
SELS = ['default', 'tuple', 'service', 'endpoint', 'method']
SEL_FIELDS = {'default': (1, 3), 'tuple': (0, 1, 2, 3), 'service': (1,), 'endpoint': (1, 2), 'method': (0, 1)}
SCALE = 1000
# source tuples (method, service, endpoint, client); 0 = None
# (pairs that differ in exactly one field are included so that a too-coarse equality is visible)
TUPLE_POOL = [[1, 1, 1, 0], [1, 1, 2, 0], [0, 2, 0, 1], [2, 1, 0, 0], [0, 1, 0, 0], [1, 2, 1, 1], [0, 1, 1, 2],
              [0, 0, 0, 0], [0, 2, 0, 2], [2, 1, 1, 0], [1, 2, 1, 0], [1, 1, 1, 1]]


def models(prop, tier):
  gen = dict(
    series=dict(module='Varz', cfg='Varz_noeq_series.cfg', expect_violation='NoSeriesViolation', workers=2,
                what='counterexample generator: Source without __eq__ (identity keys) breaks C18.oneSeries'),
    gauge=dict(module='Varz', cfg='Varz_noeq_gauge.cfg', expect_violation='NoGaugeViolation', workers=2,
               what='counterexample generator: identity keys make the aggregator sum a gauge over duplicates (C18.gauge)'),
    pct=dict(module='Varz', cfg='Varz_noeq_pct.cfg', expect_violation='NoPctViolation', workers=2,
             what='counterexample generator: identity keys downsample every duplicate reservoir to nothing (C18.percentileBounds)'),
    orphan=dict(module='Varz', cfg='Varz_orphan.cfg', expect_violation='NoSeriesViolation', workers=2,
                what='counterexample generator: Aggregate deletes reservoirs older than MAX_AGG_AGE while a bound holder '
                     'remembers its reservoir: the holder resumes into a reservoir VARZ_DATA no longer shows (C18.oneSeries)'),
    falsy=dict(module='Varz', cfg='Varz_falsy.cfg', expect_violation='NoViolation', workers=2,
               what='counterexample generator: the class-level adapter takes a falsy amount for "none given": a counter '
                    'bumped by 0 adds 1, a gauge set to 0 reports 1, a sample of 0 is kept as 1'),
    shared=dict(module='Varz', cfg='Varz_shared.cfg', expect_violation='NoSumViolation', workers=2,
                what='counterexample generator: bound metrics shared through one dictionary keyed (attribute name, '
                     'source) across Varz classes: the class built second records into the first one\'s series (C18.sum)'),
    sharedg=dict(module='Varz', cfg='Varz_sharedg.cfg', expect_violation='NoGaugeViolation', workers=2,
                 what='the same with gauges (C18.gauge)'),
  )
  ilq = dict(module='Varz', cfg='Varz_ilq.cfg', coverage=True, may_be_unused=['ClockTick'],
             what='counter+gauge+timer, 2 tuples, 3 updates landing between aggregator quanta')
  if tier == 'quick':
    return [
      dict(module='Varz', cfg='Varz_cg5.cfg', what='counter+gauge, 3 tuples, 5 updates, Source with __eq__'),
      dict(module='Varz', cfg='Varz_ct.cfg', what='rate+timer, 2 tuples, 5 updates, capacity 2, Source with __eq__'),
      ilq,
      dict(module='Varz', cfg='Varz_ageq.cfg', coverage=True, may_be_unused=['DoInc', 'DoSet', 'AggStepNext', 'AggStepAbort'],
           workers=8, what='timer, 2 tuples, 4 samples, clock steps of 1-2 units up to 3, MAX_AGG_AGE = 2 units: '
                           'reservoirs that go stale, are left out by Aggregate and resume'),
    ] + [gen[k] for k in ('series', 'orphan', 'falsy', 'shared')]
  return [
    dict(module='Varz', cfg='Varz_cg.cfg', what='counter+gauge, 3 tuples, 6 updates', timeout=2400),
    dict(module='Varz', cfg='Varz_ct3.cfg', what='rate+timer, 3 tuples, 5 updates, capacity 2', timeout=2400),
    dict(module='Varz', cfg='Varz_gt.cfg', what='gauge+avgrate, 2 tuples, 5 updates, capacity 2', timeout=2400),
    ilq,
    dict(module='Varz', cfg='Varz_il.cfg', what='3 metrics, 2 tuples, 4 updates between aggregator quanta', timeout=2400),
    dict(module='Varz', cfg='Varz_age.cfg', what='timer+counter, 2 tuples, 4 updates, clock up to 4 units, MAX_AGG_AGE = 2 units',
         timeout=2400),
    dict(module='Varz', cfg='Varz_expire.cfg', timeout=2400,
         what='variant: Aggregate deletes stale reservoirs, every recording looks its series up (C18 holds: the oracle '
              'does not require old samples to be kept)'),
    dict(module='Varz', cfg='Varz_zero.cfg', what='counter+gauge+timer with 0 among the increments, gauge values and samples'),
    dict(module='Varz', cfg='Varz_noeq_sum.cfg', what='identity keys: counter/rate sums are still right (C18.sum holds)'),
    dict(module='Varz', cfg='Varz_noeq_bound.cfg', expect_violation='Bounded', workers=2,
         what='counterexample generator: identity keys, series not bounded by distinct sources'),
  ] + [gen[k] for k in ('series', 'gauge', 'pct', 'orphan', 'falsy', 'shared', 'sharedg')]


# ------------------------------------------------------------------ the real code, observed
class _Rig(object):
  """Everything the drivers share: naming of metrics and sources, the observation of
  VARZ_DATA / Aggregate output as property-level events."""

  def __init__(self, loop, cap):
    from scales import varz
    self.loop = loop
    self.varz = varz
    self.VR = varz.VarzReceiver
    self.VR.VARZ_DATA.clear()
    if cap:
      self.VR._MAX_PERCENTILE_SIZE = cap
    self.rand = []
    rig = self

    class _Rand(object):
      def random(self_):
        return rig.rand.pop(0) if rig.rand else 0.5
    varz.random = _Rand()
    self.names = []        # metric id - 1 -> name
    self.kinds = []
    self.srcs = []         # src id - 1 -> int tuple
    self.fields = [{None: 0}, {None: 0}, {None: 0}, {None: 0}]   # real field value -> int
    self.objs = []         # keeps every Source alive (ids are never re-used)
    self._src_ix = {}      # tuple -> src id
    self._obj_ix = {}      # id(object) -> obj id (objects are kept alive, so id() is unique)
    self.ev = []
    self.raised = 0
    self.raised_rec = 0    # recording calls that raised
    loop.run_until_idle()  # greenlets started by the imports (timer queue worker) reach their first wait

  # --- naming
  def kind_of_type(self, vt):
    T = self.varz.VarzType
    return {T.Gauge: 'gauge', T.Rate: 'rate', T.AggregateTimer: 'aggtimer', T.Counter: 'counter',
            T.AverageTimer: 'timer', T.AverageRate: 'avgrate'}[vt]

  def type_of_kind(self, k):
    T = self.varz.VarzType
    return {'gauge': T.Gauge, 'rate': T.Rate, 'aggtimer': T.AggregateTimer, 'counter': T.Counter,
            'timer': T.AverageTimer, 'avgrate': T.AverageRate}[k]

  def metric_id(self, name):
    if name not in self.names:
      self.names.append(name)
      self.kinds.append(self.kind_of_type(self.VR.VARZ_METRICS[name]))
    return self.names.index(name) + 1

  def field_int(self, pos, val):
    d = self.fields[pos]
    if val not in d:
      d[val] = len(d)
    return d[val]

  def tuple_of(self, source):
    return [self.field_int(0, source.method), self.field_int(1, source.service),
            self.field_int(2, source.endpoint), self.field_int(3, source.client_id)]

  def src_id(self, t):
    k = tuple(t)
    if k not in self._src_ix:
      self.srcs.append(list(k))
      self._src_ix[k] = len(self.srcs)
    return self._src_ix[k]

  def obj_id(self, source):
    i = self._obj_ix.get(id(source))
    if i is not None and self.objs[i - 1] is source:
      return i, 0
    self.objs.append(source)
    self._obj_ix[id(source)] = len(self.objs)
    return len(self.objs), 1

  def make_source(self, t):
    """A Source for the int tuple t with canonical field strings."""
    vals = [None if t[0] == 0 else 'm%d' % t[0], None if t[1] == 0 else 'svc%d' % t[1],
            None if t[2] == 0 else 'h%d:80' % t[2], None if t[3] == 0 else 'c%d' % t[3]]
    for pos in range(4):
      self.fields[pos][vals[pos]] = t[pos]
    return self.varz.Source(*vals)

  # --- where a recording landed (observation only; the spec decides)
  def series_state(self, name, source):
    """The series VARZ_DATA shows for `source` under metric `name`, looked up with the recorded key
    itself and without inserting anything: None = no such series, else (offered count or None,
    retained samples, capacity); 'opaque' if it is not a readable reservoir."""
    d = self.VR.VARZ_DATA
    ser = d.get(name)
    if ser is None or source not in ser:
      return None
    r = ser[source]
    try:
      data = [x for x in r.data]
    except Exception:
      return 'opaque'
    cap = getattr(r.data, 'maxlen', None) or getattr(r, 'max_size', None) or self.VR._MAX_PERCENTILE_SIZE
    return (getattr(r, 'i', None), data, cap)

  def landed(self, pre, name, source):
    """(room, took) of a sample just recorded; pre = series_state before the call."""
    post = self.series_state(name, source)
    if pre == 'opaque' or post == 'opaque':
      return -1, -1
    room = 1 if (pre is None or len(pre[1]) < pre[2]) else 0
    if post is None:
      return room, 0
    return room, (1 if (pre is None or post[:2] != pre[:2]) else 0)

  def observe_metric_calls(self):
    """Log every recording where it is made: at the call of a metric object (VarzMetric.__call__), with the
    source and value the caller gave (no value / None = the documented default of 1), whatever the object does
    with them afterwards.  Returns the function that undoes the patch."""
    varz = self.varz
    orig_call = varz.VarzMetric.__call__
    rig = self
    self.in_metric_call = 0
    self.call_ctx = None     # (metric name prefix, method, service, endpoint) of the call being dispatched / answered

    def call(self_, *args):
      if rig.in_metric_call:
        return orig_call(self_, *args)
      src = getattr(self_, '_source', None)
      name = self_._metric
      if src is not None:
        val = args[0] if args else None
      else:
        src, val = args[0], (args[1] if len(args) > 1 else None)
      if val is None:
        val = 1
      ctx = rig.call_ctx
      if ctx is not None and name.startswith(ctx[0]):
        # the driver knows whose call this is: the recording is FOR that (method, service, endpoint),
        # whatever Source object the component passes along
        src = varz.Source(ctx[1], ctx[2], ctx[3])
      kind = rig.kind_of_type(type(self_).VARZ_TYPE)
      evname = 'Inc' if kind in ('counter', 'rate', 'aggtimer') else ('Set' if kind == 'gauge' else 'Sample')
      pre = rig.series_state(name, src)
      rig.in_metric_call += 1
      try:
        orig_call(self_, *args)
      finally:
        rig.in_metric_call -= 1
      rig.log_update(evname, name, src, val, pre=pre)
    varz.VarzMetric.__call__ = call

    def undo():
      varz.VarzMetric.__call__ = orig_call
    return undo

  def tick(self, dt):
    """Let dt seconds of virtual time pass: the real LowResolutionTime ticks once a second on the
    real timer queue (that is where _SampleSet.last_update and Aggregate take `now` from)."""
    t0 = self.loop.now()
    self.loop.run_for(dt)
    if abs(self.loop.now() - t0 - dt) > 1e-6:
      raise RuntimeError('virtual clock did not advance by %r' % dt)
    self.ev.append({'e': 'Tick', 'dt': int(dt)})

  def low_res_now(self):
    try:
      return float(self.varz.LOW_RESOLUTION_TIME_SOURCE.now)
    except Exception:
      return None

  # --- events
  def log_update(self, e, name, source, val, where=None, pre='unobserved'):
    oid, fresh = self.obj_id(source)
    rec = {'e': e, 'metric': self.metric_id(name), 'src': self.src_id(self.tuple_of(source)),
           'fresh': fresh, 'obj': oid}
    iv = int(round(val))
    if abs(val - iv) > 1e-6:
      raise RuntimeError('non-integer value %r recorded for %s' % (val, name))
    rec['amt' if e == 'Inc' else 'v'] = iv
    if e == 'Sample':
      rec['room'], rec['took'] = (-1, -1) if pre == 'unobserved' else self.landed(pre, name, source)
    (self.ev if where is None else where).append(rec)

  def compact(self, run=200):
    """Re-encode maximal runs of consecutive Inc events of one metric as IncRun events (same meaning:
    the increments of the run in order), so that histories with thousands of sources stay small."""
    out, cur = [], None
    for e in self.ev:
      if e['e'] == 'Inc':
        if cur is not None and cur['metric'] == e['metric'] and len(cur['srcs']) < run:
          cur['srcs'].append(e['src'])
          cur['amts'].append(e['amt'])
          continue
        cur = {'e': 'IncRun', 'metric': e['metric'], 'srcs': [e['src']], 'amts': [e['amt']]}
        out.append(cur)
      else:
        cur = None
        out.append(e)
    self.ev[:] = out

  def selector(self, sel):
    if sel == 'default':
      return None
    pos = SEL_FIELDS[sel]

    def ks(s):
      f = (s.method, s.service, s.endpoint, s.client_id)
      return tuple(f[p] for p in pos)
    return ks

  def key_ints(self, sel, key):
    pos = SEL_FIELDS[sel]
    if not isinstance(key, tuple) or len(key) != len(pos):
      raise RuntimeError('unexpected aggregate key %r for selector %s' % (key, sel))
    return [self.field_int(p, k) for p, k in zip(pos, key)]

  def key_of_source(self, sel, s):
    f = (s.method, s.service, s.endpoint, s.client_id)
    return tuple(f[p] for p in SEL_FIELDS[sel])

  def snapshot(self, name):
    """What the aggregator is about to read for one metric: number of series and, for
    reservoirs, the retained samples per Source object."""
    d = self.VR.VARZ_DATA
    if name not in d:
      return {'series': 0, 'kept': []}
    kept = []
    for s, r in d[name].items():
      try:
        kept.append((s, [int(x) for x in r.data]))
      except Exception:       # not a reservoir, or the reservoir layout changed: degrade (decided in the spec)
        pass
    return {'series': len(d[name]), 'kept': kept}

  def agg_events(self, sel, out, only=None, snaps=None):
    """Property-level events for one Aggregate result (dict metric -> key -> aggregate)."""
    evs = {}
    for name in self.names:
      if only is not None and name not in only:
        continue
      m = self.metric_id(name)
      kind = self.kinds[m - 1]
      lst = []
      snap = (snaps or {}).get(name) or self.snapshot(name)
      series = snap['series']
      per_key = out.get(name, {}) if out is not None else {}
      for key in sorted(per_key, key=lambda k: self.key_ints(sel, k)):
        a = per_key[key]
        rec = {'e': 'Agg', 'metric': m, 'sel': sel, 'key': self.key_ints(sel, key), 'series': series,
               'cnt': int(getattr(a, 'count', -1)), 'pcts': [], 'lo': -1, 'hi': -1, 'total': 0}
        if kind in ('timer', 'avgrate'):
          tot = list(a.total)       # [average, percentiles in VARZ_PERCENTILES order]
          ps = list(getattr(self.VR, 'VARZ_PERCENTILES', []))
          vals = tot[1:]
          if len(ps) == len(vals):  # report them by rising percentile
            vals = [v for _, v in sorted(zip(ps, vals), key=lambda pv: pv[0])]
          rec['pcts'] = [int(round(x * SCALE)) for x in vals]
          kept = []
          for s, data in snap['kept']:
            if self.key_of_source(sel, s) == key:
              kept.extend(data)
          if kept:
            rec['lo'], rec['hi'] = min(kept), max(kept)
        else:
          rec['total'] = int(round(float(a.total) * SCALE))
        lst.append(rec)
      lst.append({'e': 'AggDone', 'metric': m, 'sel': sel, 'nkeys': len(per_key)})
      evs[name] = lst
    return evs

  def aggregate(self, sel):
    """Run Aggregate to completion in its own greenlet; append the events."""
    import gevent
    box = []
    snaps = dict((name, self.snapshot(name)) for name in self.names)
    g = gevent.spawn(lambda: box.append(self.varz.VarzAggregator.Aggregate(
      self.VR.VARZ_DATA, self.VR.VARZ_METRICS, self.selector(sel))))
    self.loop.run_until_idle()
    if not box:
      # Aggregate raised: nothing is reported for any metric (the oracle decides whether that loses data)
      self.raised += 1
      for name in self.names:
        self.ev.append({'e': 'AggDone', 'metric': self.metric_id(name), 'sel': sel, 'nkeys': 0})
      return
    evs = self.agg_events(sel, box[0], snaps=snaps)
    for name in self.names:
      self.ev.extend(evs[name])

  def cfg(self):
    return {'kinds': list(self.kinds), 'srcs': [list(t) for t in self.srcs] or [[0, 0, 0, 0]], 'scale': SCALE}


# values in scripts: ints as they are; the boundary values by name (JSON cannot say 0.0 / -0.0 / False apart from 0)
BIG = 100000      # "very large": 14 of them still sum to < 2^31 / SCALE
SPECIAL = {'z0': 0, 'zf': 0.0, 'zn': -0.0, 'zb': False, 'f3': 3.0, 'neg': -2, 'negf': -4.0, 'big': BIG, 'bigf': float(BIG)}
BOUNDARY = ['z0', 'zf', 'zn', 'zb', 'f3', 'neg', 'negf', 'big', 'bigf']


def _val(x):
  return SPECIAL[x] if isinstance(x, str) else x


# ------------------------------------------------------------------ direction B: scripts
def _gen_api(rng, kinds=None, nsrc=None, n=None):
  kinds = kinds or [rng.choice(KINDS) for _ in range(rng.randint(2, 3))]
  nattr = len(kinds)
  if rng.random() < 0.3:          # two or three Varz classes with the same attribute names
    extra = rng.randint(1, 2)
    same = rng.random() < 0.7     # ... usually of the same kinds, sometimes another kind behind the same name
    for _ in range(extra):
      kinds = kinds + [k if same else rng.choice(KINDS) for k in kinds[:nattr]]
  nsrc = nsrc or rng.randint(3, 4)
  srcs = rng.sample(TUPLE_POOL, nsrc)
  cap = rng.choice([2, 3, 3, 1000])
  n = n or rng.randint(3, 14)
  ops = []
  hot = rng.randrange(nsrc)

  def value(normal):
    return rng.choice(BOUNDARY) if rng.random() < 0.2 else normal
  for _ in range(n):
    if rng.random() < 0.12:
      ops.append(['agg', rng.choice(SELS)])
      continue
    m = rng.randrange(len(kinds))
    s = hot if rng.random() < 0.5 else rng.randrange(nsrc)
    obj = rng.choice(['same', 'fresh', 'fresh', 'reuse'])
    style = rng.choice(['recv', 'cls', 'inst'])
    k = kinds[m]
    if k in ('counter', 'rate', 'aggtimer'):
      amt = rng.choice([1, 1, 2, 3, 5, -1])
      if k == 'aggtimer' and rng.random() < 0.3:
        ops.append(['measure', m, s, obj, style, rng.randint(0, 4)])
      elif amt == 1 and style != 'recv' and rng.random() < 0.5:
        ops.append(['inc1', m, s, obj, style])
      else:
        ops.append(['inc', m, s, obj, style, value(amt)])
    elif k == 'gauge':
      if style == 'cls' and rng.random() < 0.1:
        ops.append(['inc1', m, s, obj, style])
      else:
        ops.append(['set', m, s, obj, style, value(rng.randint(1, 9))])
    else:
      if k == 'timer' and rng.random() < 0.3:
        ops.append(['measure', m, s, obj, style, rng.randint(0, 4)])
      else:
        ops.append(['sample', m, s, obj, style, value(rng.randint(1, 9)), rng.choice([0.05, 0.5, 0.95])])
  for sel in rng.sample(SELS, 2) + ['tuple']:
    ops.append(['agg', sel])
  return {'mode': 'api', 'kinds': kinds, 'nattr': nattr, 'srcs': srcs, 'cap': cap, 'ops': ops}


def _boundary_systematic():
  """Zero (0, 0.0, -0.0, False) and the other boundary values (negative, large, float-typed integers) as
  increment / gauge value / sample on every recording path: the static receiver call, the class-level form
  with a source, the bound holder, and the forms that give no amount (default 1) or measure no time.
  One source gets the boundary value first and an ordinary value after, a second one the other way round,
  each from a fresh equal Source; aggregated after each half."""
  out = []
  for k in KINDS:
    e = 'inc' if k in ('counter', 'rate', 'aggtimer') else ('set' if k == 'gauge' else 'sample')

    def op(si, o, style, v):
      return [e, 0, si, o, style, v] + ([0.05] if e == 'sample' else [])
    for style in ('recv', 'cls', 'inst'):
      other = {'recv': 'inst', 'cls': 'inst', 'inst': 'cls'}[style]
      for v in BOUNDARY:
        ops = [op(0, 'fresh', style, v), op(1, 'same', other, 4), ['agg', 'tuple'],
               op(0, 'fresh', other, 6), op(1, 'fresh', style, v), ['agg', 'tuple'], ['agg', 'default']]
        out.append({'mode': 'api', 'kinds': [k], 'srcs': [TUPLE_POOL[0], TUPLE_POOL[2]], 'cap': 1000, 'ops': ops})
    # no amount given / nothing measured
    for style in ('cls', 'inst'):
      ops = []
      if style == 'cls' or e == 'inc':
        ops += [['inc1', 0, 0, 'fresh', style], op(0, 'same', 'inst', 3), ['inc1', 0, 0, 'fresh', style]]
      if k in ('timer', 'aggtimer'):
        ops += [['measure', 0, 1, 'fresh', style, 0], ['measure', 0, 1, 'same', style, 2], ['measure', 0, 1, 'fresh', style, 0]]
      if ops:
        ops += [['agg', 'tuple'], ['agg', 'default']]
        out.append({'mode': 'api', 'kinds': [k], 'srcs': [TUPLE_POOL[0], TUPLE_POOL[2]], 'cap': 1000, 'ops': ops})
  return out


def _family_systematic():
  """Two (three) Varz classes that share their attribute names and differ in _VARZ_BASE_NAME -- as the
  transport sinks, the http sink and the socket wrapper of the library do -- with holders built from equal
  and from different sources in every order, recording through bound holders and the class-level form.
  Every recording is judged under the full metric name of the class it was made through."""
  out = []
  A, B, C = 0, 1, 2                    # families; with one attribute per family the metric index is the family
  pats = [
    [(A, 0, 'same', 'inst'), (B, 0, 'same', 'inst'), (A, 0, 'same', 'inst'), (B, 0, 'same', 'inst')],
    [(B, 0, 'same', 'inst'), (A, 0, 'same', 'inst'), (B, 0, 'same', 'inst')],
    [(A, 0, 'same', 'inst'), (B, 0, 'fresh', 'inst'), (B, 0, 'fresh', 'inst'), (A, 0, 'fresh', 'inst')],
    [(A, 0, 'fresh', 'inst'), (B, 1, 'fresh', 'inst'), (B, 0, 'fresh', 'inst'), (A, 1, 'fresh', 'inst')],
    [(A, 0, 'same', 'cls'), (B, 0, 'same', 'inst'), (A, 0, 'same', 'inst'), (B, 0, 'fresh', 'cls')],
    [(B, 0, 'fresh', 'recv'), (B, 0, 'same', 'inst'), (A, 0, 'same', 'inst'), (A, 0, 'fresh', 'recv')],
    [(A, 0, 'same', 'inst'), (B, 0, 'same', 'inst'), (C, 0, 'same', 'inst'), (B, 0, 'reuse', 'inst'), (C, 0, 'fresh', 'inst')],
    [(C, 1, 'same', 'inst'), (A, 1, 'fresh', 'inst'), (B, 0, 'same', 'inst'), (A, 0, 'same', 'inst'), (C, 0, 'fresh', 'inst')],
  ]
  kindsets = [[k, k, k] for k in KINDS] + [['counter', 'gauge', 'rate'], ['gauge', 'counter', 'gauge'],
                                           ['timer', 'avgrate', 'timer'], ['rate', 'aggtimer', 'counter']]
  for ks in kindsets:
    for pi, pat in enumerate(pats):
      nf = 3 if any(p[0] == C for p in pat) else 2
      ops = []
      for j, (f, si, o, style) in enumerate(pat):
        k = ks[f]
        v = 2 + 3 * j + f
        if k in ('counter', 'rate', 'aggtimer'):
          ops.append(['inc', f, si, o, style, v])
        elif k == 'gauge':
          ops.append(['set', f, si, o, style, v])
        else:
          ops.append(['sample', f, si, o, style, v, 0.05])
        if j == 1:
          ops.append(['agg', 'default'])
      ops += [['agg', 'tuple'], ['agg', 'default']]
      out.append({'mode': 'api', 'kinds': ks[:nf], 'nattr': 1, 'srcs': [TUPLE_POOL[pi % 4], TUPLE_POOL[(pi + 1) % 4]],
                  'cap': 1000, 'ops': ops})
  return out


def _gen_lib(rng):
  """The Varz classes of the library itself (every VarzBase subclass found after importing the scales
  modules: transport sinks, http sink, socket wrapper, pools, balancers, dispatcher, ...).  The script
  names classes, attributes and values by numbers that the driver resolves against what it finds; most
  picks go to attribute names that several classes share."""
  nsrc = rng.randint(1, 2)
  ops = []
  pair = [rng.randrange(1000), rng.randrange(1000)]      # two classes that share attribute names
  attr = rng.randrange(1000)
  for _ in range(rng.randint(4, 10)):
    if rng.random() < 0.7:
      c, a = rng.choice(pair), attr if rng.random() < 0.7 else rng.randrange(1000)
      shared = 1
    else:
      c, a, shared = rng.randrange(1000), rng.randrange(1000), 0
    v = rng.choice(BOUNDARY) if rng.random() < 0.15 else rng.randint(1, 9)
    ops.append(['rec', shared, c, a, rng.randrange(nsrc), rng.choice(['same', 'same', 'fresh']),
                rng.choice(['inst', 'inst', 'cls']), v])
    if rng.random() < 0.15:
      ops.append(['agg', rng.choice(['default', 'tuple'])])
  ops += [['agg', 'tuple'], ['agg', 'default']]
  return {'mode': 'lib', 'cap': rng.choice([3, 1000]), 'srcs': rng.sample(TUPLE_POOL[:4], nsrc), 'ops': ops}


def _systematic():
  out = []
  pats = [['same', 'same'], ['same', 'fresh'], ['fresh', 'same'], ['fresh', 'fresh'], ['fresh', 'fresh', 'fresh']]
  for ki, k in enumerate(KINDS):
    for pi, pat in enumerate(pats):
      for si in range(4):
        for style in ('recv', 'cls', 'inst'):
          srcs = [TUPLE_POOL[si], TUPLE_POOL[(si + 1) % 4]]
          ops = []
          for j, o in enumerate(pat):
            v = 2 + j + pi
            if k in ('counter', 'rate', 'aggtimer'):
              ops.append(['inc', 0, 0, o, style, v])
            elif k == 'gauge':
              ops.append(['set', 0, 0, o, style, v])
            else:
              ops.append(['sample', 0, 0, o, style, v, 0.05])
          # a second, distinct source in the same metric so that grouping is exercised as well
          if k in ('counter', 'rate', 'aggtimer'):
            ops.append(['inc', 0, 1, 'same', style, 1])
          elif k == 'gauge':
            ops.append(['set', 0, 1, 'same', style, 1])
          else:
            ops.append(['sample', 0, 1, 'same', style, 1, 0.05])
          ops += [['agg', 'tuple'], ['agg', 'default']]
          out.append({'mode': 'api', 'kinds': [k], 'srcs': srcs, 'cap': 2, 'ops': ops})
  return out


def _interleaved():
  """Several holders of equal sources writing interleaved, with REPEATED values (A-B-A): a holder that
  caches what it wrote last must not swallow a write that another holder made necessary; same for
  counters (repeated equal increments) and samples."""
  out = []
  holders = ['same', 'reuse', 'fresh']
  styles = ['inst', 'cls', 'recv']
  for k in ('gauge', 'counter', 'rate', 'timer'):
    for h2 in holders:
      for s1 in styles:
        for s2 in styles:
          for (v1, v2) in ((5, 3), (2, 2), (7, 1)):
            def op(o, style, v):
              if k == 'gauge':
                return ['set', 0, 0, o, style, v]
              if k == 'timer':
                return ['sample', 0, 0, o, style, v, 0.05]
              return ['inc', 0, 0, o, style, v]
            ops = [op('same', s1, v1), op(h2, s2, v2), op('same', s1, v1), ['agg', 'tuple'],
                   op(h2, s2, v2), op(h2, s2, v2), op('same', s1, v1), ['agg', 'tuple'], ['agg', 'default']]
            out.append({'mode': 'api', 'kinds': [k], 'srcs': [TUPLE_POOL[0], TUPLE_POOL[1]], 'cap': 1000, 'ops': ops})
  return out


def _gen_e2e(rng):
  calls = []
  for _ in range(rng.randint(2, 12)):
    calls.append({'disp': rng.randrange(2), 'method': rng.randint(1, 2), 'endpoint': rng.randint(0, 2),
                  'delay': rng.randint(0, 3), 'ok': rng.random() < 0.7, 'gap': rng.randint(0, 2),
                  'ep_obj': rng.random() < 0.5})
  return {'mode': 'e2e', 'calls': calls, 'cap': rng.choice([2, 3, 1000]),
          'rand': [rng.choice([0.05, 0.5]) for _ in range(12)],
          'sels': rng.sample(SELS, 2) + ['tuple', 'default']}


# ---- time as a scenario dimension ---------------------------------------------------------------
# VarzAggregator.MAX_AGG_AGE is 300 s of the low-resolution clock; steps around it and well below / above it
TICKS = [1, 7, 59, 150, 299, 300, 301, 450, 900]


def _gen_timed(rng):
  """Like _gen_api, but the clock moves between recordings (seconds ... more than MAX_AGG_AGE), aggregation
  passes fall inside the idle windows, and long-lived bound holders ('same' + 'inst') go idle and resume
  next to fresh holders of equal sources and the unbound / static recording forms."""
  kinds = [rng.choice(['timer', 'avgrate', 'timer', 'counter', 'gauge', 'rate', 'aggtimer']) for _ in range(rng.randint(1, 3))]
  if not any(k in ('timer', 'avgrate') for k in kinds):
    kinds[0] = rng.choice(['timer', 'avgrate'])
  nsrc = rng.randint(2, 3)
  srcs = rng.sample(TUPLE_POOL, nsrc)
  cap = rng.choice([2, 3, 1000, 1000])
  ops = []

  def rec():
    m = rng.randrange(len(kinds))
    s = 0 if rng.random() < 0.6 else rng.randrange(nsrc)
    obj, style = rng.choice([('same', 'inst'), ('same', 'inst'), ('fresh', 'inst'), ('fresh', 'cls'), ('same', 'cls'),
                             ('fresh', 'recv'), ('same', 'recv'), ('reuse', 'inst')])
    k = kinds[m]
    if k in ('counter', 'rate', 'aggtimer'):
      return ['inc', m, s, obj, style, rng.choice([1, 2, 3, 5])]
    if k == 'gauge':
      return ['set', m, s, obj, style, rng.randint(1, 9)]
    if k == 'timer' and rng.random() < 0.2:
      return ['measure', m, s, obj, style, rng.randint(1, 4)]
    return ['sample', m, s, obj, style, rng.randint(1, 9), rng.choice([0.05, 0.5, 0.95])]

  for _ in range(rng.randint(2, 4)):       # phases: activity, then an idle window with or without passes in it
    for _ in range(rng.randint(1, 4)):
      ops.append(rec())
    if rng.random() < 0.4:
      ops.append(['agg', rng.choice(SELS)])
    for _ in range(rng.randint(1, 3)):
      ops.append(['tick', rng.choice(TICKS)])
      if rng.random() < 0.55:
        ops.append(['agg', rng.choice(SELS)])
  for _ in range(rng.randint(1, 4)):
    ops.append(rec())
  ops += [['agg', 'tuple'], ['agg', rng.choice(SELS)]]
  return {'mode': 'api', 'kinds': kinds, 'srcs': srcs, 'cap': cap, 'ops': ops}


def _idle_systematic(tier):
  """One source with a long-lived bound holder H that records, goes idle and resumes.  Enumerated: how
  long the idle window is (below / at / above MAX_AGG_AGE, in one or two steps), whether aggregation passes
  run inside it, and who records after it in which order (H itself, a fresh holder of an equal source made
  after the window, the unbound and the static form, with the same or a fresh Source object)."""
  out = []
  resumes = [
    [('same', 'inst'), ('same', 'inst')],
    [('same', 'inst'), ('fresh', 'inst'), ('same', 'inst')],
    [('fresh', 'inst'), ('same', 'inst')],
    [('fresh', 'cls'), ('same', 'inst'), ('fresh', 'recv')],
    [('same', 'recv'), ('same', 'inst')],
    [('fresh', 'inst'), ('fresh', 'recv')],
    [('same', 'cls'), ('fresh', 'cls')],
    [('reuse', 'inst'), ('same', 'inst'), ('reuse', 'inst')],     # a second holder made before the window resumes too
  ]
  idles = [[299], [300], [301], [150, 151], [301, 30], [1000], [3, 60]]
  n = 0
  for k in ('timer', 'avgrate', 'counter', 'gauge', 'rate'):
    pct = k in ('timer', 'avgrate')
    for idle in (idles if (k == 'timer' or (pct and tier != 'quick')) else ([[299], [301], [150, 151]] if pct else [[301], [1000]])):
      for aggin in ((0, 1, 2) if pct else (1,)):
        for res in resumes:
          for cap in ((2, 1000) if (pct and tier != 'quick') else (2 if n % 3 == 0 else 1000,)):
            n += 1

            def op(o, style, v, si=0):
              if k == 'gauge':
                return ['set', 0, si, o, style, v]
              if pct:
                return ['sample', 0, si, o, style, v, 0.05]
              return ['inc', 0, si, o, style, v]
            # H records; so does the holder of a second, distinct source (it stays idle for good)
            ops = [op('same', 'inst', 3), op('same', 'inst', 5), op('same', 'inst', 6, 1)]
            if res[0][0] == 'reuse':
              ops.append(op('fresh', 'inst', 4))     # the second holder of an equal source, before the window
            if aggin:
              ops.append(['agg', 'tuple'])
            for j, d in enumerate(idle):
              ops.append(['tick', d])
              if aggin == 1 or (aggin == 2 and j == len(idle) - 1):
                ops.append(['agg', 'default'])
            for j, (o, style) in enumerate(res):
              ops.append(op(o, style, 7 + j))
            ops += [['agg', 'tuple'], ['agg', 'default']]
            out.append({'mode': 'api', 'kinds': [k], 'srcs': [TUPLE_POOL[n % 4], TUPLE_POOL[(n + 1) % 4]], 'cap': cap, 'ops': ops})
  return out


def _gen_sock(rng):
  """A real long-lived holder: scales.varz.VarzSocketWrapper keeps a bound Varz object (open_latency timer, byte
  rates, connection counters) for its (service, host:port) source.  Connections open, carry traffic, go idle
  for minutes, are polled by the aggregator, close and re-open; a second wrapper for the same endpoint (a
  fresh holder of an equal source) appears before or after the idle window."""
  ops = [['new', 0, 1]]
  if rng.random() < 0.5:
    ops.append(['new', 1, rng.choice([1, 1, 2])])
  n = 1 if len(ops) == 1 else 2
  for _ in range(rng.randint(2, 4)):
    for _ in range(rng.randint(1, 4)):
      w = rng.randrange(n)
      r = rng.random()
      if r < 0.4:
        ops.append(['open', w, rng.randint(1, 4)])
      elif r < 0.55:
        ops.append(['close', w])
      elif r < 0.8:
        ops.append([rng.choice(['read', 'write']), w, rng.randint(0, 9)])
      elif n < 3:
        ops.append(['new', n, rng.choice([1, 1, 2])])
        n += 1
    for _ in range(rng.randint(1, 2)):
      ops.append(['tick', rng.choice([30, 150, 299, 301, 600])])
      if rng.random() < 0.6:
        ops.append(['agg', rng.choice(['default', 'tuple', 'endpoint'])])
  for w in range(n):
    ops.append(['open', w, rng.randint(1, 3)])
  ops += [['agg', 'tuple'], ['agg', 'default']]
  return {'mode': 'sock', 'cap': rng.choice([2, 3, 1000]), 'ops': ops}


# ---- scale as a scenario dimension -----------------------------------------------------------------
def _scale_cases(tier, rng):
  """Thousands of distinct sources on one counter / rate metric (one service's endpoints, recorded through
  fresh equal Source objects as the dispatcher does), bystander services on the same metric, service-level
  aggregates at checkpoints.  Judged by C18.sum exactly (every increment is in the trace)."""
  def case(kind, n, style, marks, selfkey=True, touch=True):
    # selfkey: one bystander records through the Source that has only (service, client id);
    # touch: the bystanders keep being recorded now and then while the big service grows
    return {'mode': 'scale', 'kind': kind, 'n': n, 'style': style, 'marks': marks, 'selfkey': selfkey, 'touch': touch,
            'seed': rng.randrange(1 << 20)}
  out = [
    case('counter', 2500, 'cls', [999, 1001, 1999, 2003, 2500]),
    case('rate', 2300, 'recv', [1500, 2100, 2300], selfkey=False, touch=False),
  ]
  if tier != 'quick':
    out += [
      case('counter', 4200, 'inst', [1000, 2000, 2001, 2002, 3000, 3001, 4200], selfkey=False),
      case('counter', 3100, 'recv', [10, 500, 999, 1000, 1001, 1500, 1999, 2000, 2001, 2002, 2500, 3100], touch=False),
      case('rate', 2600, 'cls', [2600]),
      case('aggtimer', 2200, 'cls', [1100, 2200], selfkey=False, touch=False),
      case('counter', 1200, 'cls', [600, 1200]),
      case('counter', 6500, 'cls', [3000, 6500], selfkey=False, touch=False),
      case('counter', 2100, 'inst', [2100], selfkey=False, touch=False),
      case('rate', 3300, 'cls', [1100, 2200, 3300], selfkey=False, touch=False),
    ]
  return out


def _gen_churn(rng, lives):
  """A few hundred client lifetimes in one process: clients of 2-3 differently named services behind EQUAL
  endpoints (a sidecar, one server set under two names, or no endpoint at all) are created, make 1-8 calls
  over a handful of methods, are closed and dropped (del + gc.collect()) in alternation."""
  nsvc = rng.randint(2, 3)
  eps = rng.choice([[1], [1, 2], [0], [0, 1]])
  churn = []
  for i in range(lives):
    svc = 1 + (i % nsvc if rng.random() < 0.8 else rng.randrange(nsvc))
    calls = []
    for _ in range(rng.randint(1, 8)):
      calls.append({'method': rng.randint(1, 6), 'endpoint': rng.choice(eps), 'delay': rng.choice([None, None, 0, 1]),
                    'ok': rng.random() < 0.75, 'ep_obj': rng.random() < 0.3})
    churn.append({'svc': svc, 'calls': calls, 'gc': rng.random() < 0.9})
  return {'mode': 'e2e', 'churn': churn, 'cap': 1000, 'rand': [], 'sels': ['tuple', 'default', 'service']}


def _gen_conc(rng, n=None, via=None):
  """Aggregation passes in their own greenlet while recorder greenlets make balanced moves (+k on one source, -k on
  another, no yield in between) among the 101-300 series of one counter / rate metric -- a connection moving
  between the endpoints of a service.  The recorded sum of the service never changes; an aggregate taken
  during the moves must be a sum that existed at some instant of its pass."""
  n = n or rng.choice([101, 120, 150, 199, 200, 201, 250, 300])
  recs = []
  for _ in range(rng.randint(1, 3)):
    moves = []
    for _ in range(rng.randint(4, 10)):
      i = rng.randrange(n)
      j = (i + rng.randrange(1, n)) % n
      if rng.random() < 0.7:          # most moves cross the middle / a hundreds boundary of the series order
        i, j = rng.randrange(0, min(100, n // 2)), rng.randrange(max(100, n // 2), n)
        if rng.random() < 0.5:
          i, j = j, i
      moves.append([i, j, rng.choice([1, 1, 2, 5]), 1 if rng.random() < 0.5 else 0])
    recs.append(moves)
  return {'mode': 'conc', 'n': n, 'kind': rng.choice(['counter', 'counter', 'rate']),
          'via': via or rng.choice(['recv', 'inst', 'cls', 'sock']), 'recorders': recs,
          'passes': [rng.choice(['default', 'service', 'default', 'endpoint']) for _ in range(rng.randint(2, 4))],
          'poller_first': rng.random() < 0.5, 'extra_metrics': rng.randint(0, 2)}


def cases(prop, tier, seed):
  rng = random.Random(1000003 * int(seed) + 18)
  out = _systematic() + _interleaved() + _boundary_systematic() + _family_systematic()
  n_api, n_e2e, n_timed, n_sock, n_lib = (270, 110, 120, 60, 30) if tier == 'quick' else (8000, 1500, 4000, 1500, 1200)
  n_conc, n_churn, lives = (8, 3, 100) if tier == 'quick' else (80, 20, 300)
  for _ in range(n_api):
    out.append(_gen_api(rng))
  for _ in range(n_e2e):
    out.append(_gen_e2e(rng))
  rng2 = random.Random(1000003 * int(seed) + 1818)
  out += _idle_systematic(tier)
  for _ in range(n_timed):
    out.append(_gen_timed(rng2))
  for _ in range(n_sock):
    out.append(_gen_sock(rng2))
  for _ in range(n_lib):
    out.append(_gen_lib(rng2))
  out += _scale_cases(tier, rng2)
  rng3 = random.Random(1000003 * int(seed) + 181818)
  vias = ['recv', 'sock', 'inst', 'cls']
  for i in range(n_conc):
    out.append(_gen_conc(rng3, via=vias[i % 4]))
  for _ in range(n_churn):
    out.append(_gen_churn(rng3, lives))
  return out


# ------------------------------------------------------------------ direction B: drivers
def _run_api(script):
  loop = common.boot()
  from scales import varz
  rig = _Rig(loop, script['cap'])
  VR = rig.VR
  kinds = script['kinds']
  # several Varz classes ("families"): metric i is attribute m<i % nattr> of family i // nattr, so the families
  # share their attribute names and differ in _VARZ_BASE_NAME (and possibly in the kind behind a name)
  nattr = script.get('nattr') or len(kinds)
  nfam = len(kinds) // nattr
  base = ['verif.t' if f == 0 else 'verif.t%d' % f for f in range(nfam)]
  names = ['%s.m%d' % (base[i // nattr], i % nattr) for i in range(len(kinds))]
  cls_of = {'counter': varz.Counter, 'rate': varz.Rate, 'gauge': varz.Gauge, 'timer': varz.AverageTimer,
            'avgrate': varz.AverageRate, 'aggtimer': varz.AggregateTimer}
  fams = []
  for f in range(nfam):
    fams.append(varz.VarzMeta('V%d' % f, (varz.VarzBase,), {
      '_VARZ_BASE_NAME': base[f],
      '_VARZ': dict(('m%d' % a, cls_of[kinds[f * nattr + a]]) for a in range(nattr))}))
  for nm in names:
    rig.metric_id(nm)
  canon = {}
  made = {}
  inst = {}
  rnd = random.Random(len(script['ops']))

  def pick(si, mode):
    t = script['srcs'][si]
    if mode == 'same':
      if si not in canon:
        canon[si] = rig.make_source(t)
      return canon[si]
    if mode == 'reuse' and made.get(si):
      return rnd.choice(made[si])
    s = rig.make_source(t)
    made.setdefault(si, []).append(s)
    return s

  for op in script['ops']:
    k = op[0]
    if k == 'agg':
      rig.aggregate(op[1])
      continue
    if k == 'tick':
      rig.tick(op[1])
      continue
    m, si, omode, style = op[1], op[2], op[3], op[4]
    name = names[m]               # the metric the recording is for: <base name of the class>.<attribute>
    attr = 'm%d' % (m % nattr)
    V = fams[m // nattr]
    src = pick(si, omode)
    kind = kinds[m]
    evname = 'Inc' if kind in ('counter', 'rate', 'aggtimer') else ('Set' if kind == 'gauge' else 'Sample')

    def metric_inst():
      key = (m // nattr, id(src))   # one holder per (Varz class, Source object), made at its first use
      if key not in inst:
        inst[key] = V(src)
      return getattr(inst[key], attr)

    if k == 'measure':
      d = op[5]
      t0 = loop.now()
      pre = rig.series_state(name, src)
      try:
        cm = metric_inst().Measure() if style == 'inst' else getattr(V, attr).Measure(src)
        with cm:
          loop.run_for(d)
      except Exception:           # a recording that raises is a recording that was lost (the oracle decides)
        rig.raised_rec += 1
        if loop.now() - t0 < d:
          loop.run_for(d - (loop.now() - t0))
      if loop.now() - t0 != d:
        raise RuntimeError('virtual clock did not advance by %r' % d)
      rig.log_update(evname, name, src, d, pre=pre)
      continue
    if k == 'inc1':               # no amount given: the documented default of 1
      pre = rig.series_state(name, src)
      try:
        if style == 'inst':
          metric_inst()()
        else:
          getattr(V, attr)(src)
      except Exception:           # a recording that raises is a recording that was lost (the oracle decides)
        rig.raised_rec += 1
      rig.log_update(evname, name, src, 1, pre=pre)
      continue
    val = _val(op[5])
    if k == 'sample':
      rig.rand.append(op[6])
    pre = rig.series_state(name, src)
    try:
      if style == 'recv':
        if k == 'inc':
          VR.IncrementVarz(src, name, val)
        elif k == 'set':
          VR.SetVarz(src, name, val)
        else:
          VR.RecordPercentileSample(src, name, val)
      elif style == 'cls':
        getattr(V, attr)(src, val)
      else:
        metric_inst()(val)
    except Exception:
      rig.raised_rec += 1
    rig.log_update(evname, name, src, val, pre=pre)
    del rig.rand[:]
  return {'cfg': rig.cfg(), 'ev': rig.ev, 'meta': {'errors': [str(e[1:3]) for e in loop.errors][:3],
                                                    'aggregate_raised': rig.raised, 'recordings_raised': rig.raised_rec}}


def _run_e2e(script):
  loop = common.boot()
  import gevent
  from scales import varz
  rig = _Rig(loop, script['cap'])
  VR = rig.VR
  rig.rand = list(script['rand'])
  # recordings are observed where the dispatcher makes them, at the call of its (class-level) metric objects;
  # the VarzReceiver boundary (bound by the dispatcher's metrics at class creation) catches anything recorded
  # without a metric object
  rig.observe_metric_calls()
  orig_inc, orig_set = VR.IncrementVarz, VR.SetVarz
  orig_rec = VR.RecordPercentileSample.__func__

  def inc(source, metric, amount=1):
    orig_inc(source, metric, amount)
    if not rig.in_metric_call:
      rig.log_update('Inc', metric, source, amount)

  def set_(source, metric, value):
    orig_set(source, metric, value)
    if not rig.in_metric_call:
      rig.log_update('Set', metric, source, value)

  def rec(cls, source, metric, value):
    pre = rig.series_state(metric, source)
    orig_rec(cls, source, metric, value)
    if not rig.in_metric_call:
      rig.log_update('Sample', metric, source, value, pre=pre)
  VR.IncrementVarz = staticmethod(inc)
  VR.SetVarz = staticmethod(set_)
  VR.RecordPercentileSample = classmethod(rec)
  from scales.constants import ChannelState, MessageProperties, SinkProperties
  from scales.asynchronous import AsyncResult
  from scales.dispatch import MessageDispatcher
  from scales.message import MethodReturnMessage
  from scales.sink import ClientMessageSink

  class Ep(object):
    def __init__(self, s):
      self.s = s

    def __str__(self):
      return self.s

  plan = []

  PFX = 'scales.MessageDispatcher.'

  class Sink(ClientMessageSink):
    state = ChannelState.Open

    def __init__(self, name):
      super(Sink, self).__init__()
      self.name = name

    def Open(self):
      return AsyncResult.Complete()

    def Close(self):
      pass

    def AsyncProcessRequest(self, sink_stack, msg, stream, headers):
      c = plan.pop(0)
      ep = None
      if c['endpoint']:
        ep = 'h%d:80' % c['endpoint']
        msg.properties[MessageProperties.Endpoint] = Ep(ep) if c['ep_obj'] else ep
      name = self.name

      def reply():
        if c['delay'] is not None:
          gevent.sleep(c['delay'])
        # what the dispatcher records while it handles this response is for this call
        rig.call_ctx = (PFX, 'm%d' % c['method'], name, ep)
        try:
          if c['ok']:
            sink_stack.AsyncProcessResponseMessage(MethodReturnMessage(return_value=1))
          else:
            sink_stack.AsyncProcessResponseMessage(MethodReturnMessage(error=Exception('x')))
        finally:
          rig.call_ctx = None
      if c['delay'] is None:
        reply()                 # answered within the request, as a terminal echo transport does
      else:
        gevent.spawn(reply)

    def AsyncProcessResponse(self, sink_stack, context, stream, msg):
      raise NotImplementedError()

  class Provider(object):
    def __init__(self, name):
      self.name = name

    def CreateSink(self, properties):
      return Sink(self.name)

  def dispatch(d, name, c):
    plan.append(c)
    rig.call_ctx = (PFX, 'm%d' % c['method'], name, None)
    try:
      return d.DispatchMethodCall('m%d' % c['method'], (), {})
    finally:
      rig.call_ctx = None

  if 'churn' in script:
    # many short-lived clients of differently named services behind equal endpoints: created, used, closed, dropped
    import gc
    if hasattr(gc, 'freeze'):
      gc.freeze()      # the forked child inherits the runner's heap: keep it out of every gc.collect() below
    pending = 0
    for life in script['churn']:
      name = 'svc%d' % life['svc']
      d = MessageDispatcher(object, Provider(name), None, {SinkProperties.Label: name})
      d.Open()
      ars = [dispatch(d, name, c) for c in life['calls']]
      loop.run_until_idle()
      if any(c['delay'] for c in life['calls']):
        loop.run_for(max(c['delay'] or 0 for c in life['calls']))
        loop.run_until_idle()
      pending += sum(1 for a in ars if not a.ready())
      d.Close()
      del d, ars
      if life.get('gc', True):
        gc.collect()
    if pending:
      raise RuntimeError('%d dispatched calls did not complete' % pending)
    rig.compact()
  else:
    disps = []
    for i in range(2):
      d = MessageDispatcher(object, Provider('svc%d' % (i + 1)), None, {SinkProperties.Label: 'svc%d' % (i + 1)})
      d.Open()
      disps.append(d)
    ars = []
    for c in script['calls']:
      ars.append(dispatch(disps[c['disp']], 'svc%d' % (c['disp'] + 1), c))
      loop.run_until_idle()
      if c['gap']:
        loop.run_for(c['gap'])
    loop.run_for(5)
    loop.run_until_idle()
    if not all(a.ready() for a in ars):
      raise RuntimeError('a dispatched call did not complete')
  for sel in script['sels']:
    rig.aggregate(sel)
  return {'cfg': rig.cfg(), 'ev': rig.ev, 'meta': {'errors': [str(e[1:3]) for e in loop.errors][:3],
                                                    'aggregate_raised': rig.raised}}


def _run_scale(script):
  """Thousands of distinct sources on one metric.  Endpoint i of the big service (service 1) gets 1 + i % 3
  increments of 1 + (i * 7 + seed) % 5 each, every one through a freshly built equal Source (or, style
  'inst', through a holder per endpoint); every 97th endpoint is recorded once more much later; the
  bystander services 2 and 3 (one of them recorded through the Source that has only service and client id)
  share the metric.  Aggregates by the two service-level selectors at the marks and at the end."""
  loop = common.boot()
  from scales import varz
  rig = _Rig(loop, 0)
  VR = rig.VR
  kind = script['kind']
  cls_of = {'counter': varz.Counter, 'rate': varz.Rate, 'aggtimer': varz.AggregateTimer}

  class V(varz.VarzBase):
    _VARZ_BASE_NAME = 'verif.s'
    _VARZ = {'big': cls_of[kind], 'side': varz.Counter}
  big, side = 'verif.s.big', 'verif.s.side'
  rig.metric_id(big)
  rig.metric_id(side)
  rnd = random.Random(script['seed'])
  style = script['style']
  seed = script['seed']

  def record(t, amt, name=big, attr='big'):
    src = rig.make_source(t)
    if style == 'recv':
      VR.IncrementVarz(src, name, amt)
    elif style == 'cls':
      getattr(V, attr)(src, amt)
    else:
      getattr(V(src), attr)(amt)
    rig.log_update('Inc', name, src, amt)

  def aggs():
    rig.aggregate('default')
    if rnd.random() < 0.5:
      rig.aggregate('service')

  # bystanders first: they are the oldest series of the metric
  for _ in range(7):
    record([1, 2, 1, 0], 1)
  if script['selfkey']:
    record([0, 3, 0, 1], 4)        # a source that is nothing but (service, client id)
  record([2, 3, 5, 1], 2)
  record([1, 2, 1, 0], 1, side, 'side')
  marks = set(script['marks'])
  later = []
  for i in range(1, script['n'] + 1):
    amt = 1 + (i * 7 + seed) % 5
    for _ in range(1 + i % 3):
      record([1 + i % 2, 1, i, 0], amt)
    if i % 97 == 0:
      later.append(i)
    if len(later) > 3 and i % 97 == 50:
      j = later.pop(0)
      record([1 + j % 2, 1, j, 0], 1)
    if i % 500 == 0 and script['touch']:
      record([1, 2, 1, 0], 1)      # the bystanders stay in use
      record([0, 3, 0, 1] if script['selfkey'] else [2, 3, 5, 1], 1)
    if i in marks:
      aggs()
  rig.aggregate('default')
  rig.aggregate('service')
  rig.compact()
  return {'cfg': rig.cfg(), 'ev': rig.ev, 'meta': {'errors': [str(e[1:3]) for e in loop.errors][:3],
                                                    'aggregate_raised': rig.raised}}


def _run_sock(script):
  """scales.varz.VarzSocketWrapper over a stand-in socket.  Recordings are observed where the wrapper makes
  them: at the call of a metric object (VarzMetric.__call__), whatever path they take from there."""
  loop = common.boot()
  import gevent
  from scales import varz
  rig = _Rig(loop, script['cap'])
  undo = rig.observe_metric_calls()

  class Handle(object):
    def sendall(self, buff):
      pass

    def setsockopt(self, *a):
      pass

  class Sock(object):
    def __init__(self, port):
      self.host, self.port = 'h', port
      self.handle = None
      self.delay = 0

    def isOpen(self):
      return self.handle is not None

    def open(self):
      gevent.sleep(self.delay)
      self.handle = Handle()

    def close(self):
      self.handle = None

    def read(self, sz):
      return b'x' * sz

  wrappers = {}

  for op in script['ops']:
    k = op[0]
    if k == 'agg':
      rig.aggregate(op[1])
    elif k == 'tick':
      rig.tick(op[1])
    elif k == 'new':
      wrappers[op[1]] = (varz.VarzSocketWrapper(Sock(80 + op[2]), 'svc1'), None)
    else:
      w = wrappers[op[1]][0]
      if k == 'open':
        if w.isOpen():
          w.close()               # re-connect
        w._socket.delay = op[2]
        g = gevent.spawn(w.open)
        loop.run_for(op[2])
        loop.run_until_idle()
        if not g.ready() or not g.successful():
          raise RuntimeError('open did not finish: %r' % (g.exception,))
        rig.ev.append({'e': 'Tick', 'dt': int(op[2])})
      elif k == 'close':
        w.close()
      elif k == 'read':
        w.read(op[2])
      elif k == 'write':
        if w.isOpen():
          w.write(b'y' * op[2])
  undo()
  return {'cfg': rig.cfg(), 'ev': rig.ev, 'meta': {'errors': [str(e[1:3]) for e in loop.errors][:3],
                                                    'aggregate_raised': rig.raised}}


def _lib_classes(varz):
  """Every VarzBase subclass of the library, by full base name."""
  import importlib
  for mod in ('scales.dispatch', 'scales.sink', 'scales.resurrector', 'scales.pool.watermark', 'scales.loadbalancer.heap',
              'scales.loadbalancer.aperture', 'scales.thrift.sink', 'scales.mux.sink', 'scales.thriftmux.sink',
              'scales.http.sink', 'scales.redis.sink', 'scales.kafka.sink'):
    try:
      importlib.import_module(mod)
    except Exception:       # an optional dependency is missing: that family is not exercised
      pass
  found, todo = {}, [varz.VarzBase]
  while todo:
    c = todo.pop()
    for sub in c.__subclasses__():
      todo.append(sub)
      if getattr(sub, '_VARZ_BASE_NAME', None) and getattr(sub, '_VARZ', None):
        found[sub._VARZ_BASE_NAME] = sub
  return [found[k] for k in sorted(found)]


def _run_lib(script):
  loop = common.boot()
  from scales import varz
  rig = _Rig(loop, script['cap'])
  classes = _lib_classes(varz)
  if len(classes) < 2:
    raise RuntimeError('found %d Varz classes in the library' % len(classes))
  owners = {}
  for c in classes:
    for a in c._VARZ:
      owners.setdefault(a, []).append(c)
  shared = sorted(a for a, cs in owners.items() if len(cs) > 1)
  canon, inst = {}, {}

  def pick(si, mode):
    if mode == 'same':
      if si not in canon:
        canon[si] = rig.make_source(script['srcs'][si])
      return canon[si]
    return rig.make_source(script['srcs'][si])

  for op in script['ops']:
    if op[0] == 'agg':
      rig.aggregate(op[1])
      continue
    _, sh, ci, ai, si, omode, style, v = op
    if sh and shared:
      attr = shared[ai % len(shared)]
      cs = owners[attr]
      cls = cs[ci % len(cs)]
    else:
      cls = classes[ci % len(classes)]
      attrs = sorted(cls._VARZ)
      attr = attrs[ai % len(attrs)]
    name = '%s.%s' % (cls._VARZ_BASE_NAME, attr)      # the metric this recording is for
    kind = rig.kind_of_type(cls._VARZ[attr].VARZ_TYPE)
    evname = 'Inc' if kind in ('counter', 'rate', 'aggtimer') else ('Set' if kind == 'gauge' else 'Sample')
    src = pick(si, omode)
    val = _val(v)
    rig.metric_id(name)
    pre = rig.series_state(name, src)
    try:
      if style == 'cls':
        getattr(cls, attr)(src, val)
      else:
        key = (cls._VARZ_BASE_NAME, id(src))
        if key not in inst:
          inst[key] = cls(src)
        getattr(inst[key], attr)(val)
    except Exception:
      rig.raised_rec += 1
    rig.log_update(evname, name, src, val, pre=pre)
  return {'cfg': rig.cfg(), 'ev': rig.ev, 'meta': {'errors': [str(e[1:3]) for e in loop.errors][:3],
                                                    'aggregate_raised': rig.raised, 'recordings_raised': rig.raised_rec,
                                                    'lib_classes': len(classes),
                                                    'shared_attribute_names': len(shared)}}


def _run_conc(script):
  loop = common.boot()
  import gevent
  from scales import varz
  rig = _Rig(loop, 0)
  VR = rig.VR
  n, via = script['n'], script['via']
  cls_of = {'counter': varz.Counter, 'rate': varz.Rate}

  class V(varz.VarzBase):
    _VARZ_BASE_NAME = 'verif.c'
    _VARZ = {'conn': cls_of[script['kind']], 'x0': varz.Counter, 'x1': varz.Gauge}
  name = 'verif.c.conn'
  tup = lambda i: [0, 1 if i < n else 2, i + 1, 0]
  srcs = [rig.make_source(tup(i)) for i in range(n + 3)]      # n endpoints of service 1, 3 of a bystander service

  class Handle(object):
    def sendall(self, buff):
      pass

    def setsockopt(self, *a):
      pass

  class Sock(object):           # opens and closes without yielding
    def __init__(self, port):
      self.host, self.port, self.handle = 'h', port, None

    def isOpen(self):
      return self.handle is not None

    def open(self):
      self.handle = Handle()

    def close(self):
      self.handle = None

  pools = [[] for _ in range(n + 3)]
  holders = {}

  def bump(i, k):
    """Record k on source i of the metric (for 'sock': open / close k connections to endpoint i)."""
    if via == 'sock':
      for _ in range(abs(k)):
        if k > 0:
          w = varz.VarzSocketWrapper(Sock(i + 1), 'svc%d' % (1 if i < n else 2))
          w.open()
          pools[i].append(w)
        elif pools[i]:
          pools[i].pop().close()
      return
    if via == 'recv':
      VR.IncrementVarz(srcs[i], name, k)
    elif via == 'cls':
      V.conn(srcs[i], k)
    else:
      if i not in holders:
        holders[i] = V(srcs[i])
      holders[i].conn(k)
    rig.log_update('Inc', name, srcs[i], k)

  if via == 'sock':
    rig.observe_metric_calls()
  else:
    rig.metric_id(name)
  # fill: enough on every source that no move runs dry
  for i in range(n + 3):
    bump(i, 12 if via != 'sock' else 2)
  for x in range(script['extra_metrics']):
    if x == 0:
      V.x0(srcs[0], 3)
      if via != 'sock':         # ('sock': the metric-call observer has logged it)
        rig.log_update('Inc', 'verif.c.x0', srcs[0], 3)
    else:
      V.x1(srcs[1], 4)
      if via != 'sock':
        rig.log_update('Set', 'verif.c.x1', srcs[1], 4)
  rig.compact()

  def recorder(moves):
    for i, j, k, plus_first in moves:
      if via == 'sock':
        k = min(k, len(pools[i]))
      if plus_first:
        bump(j, k)
        bump(i, -k)
      else:
        bump(i, -k)
        bump(j, k)
      gevent.sleep(0)

  def poller():
    for sel in script['passes']:
      rig.ev.append({'e': 'PassBegin'})
      try:
        out = varz.VarzAggregator.Aggregate(VR.VARZ_DATA, VR.VARZ_METRICS, rig.selector(sel))
      except Exception:
        out = None
        rig.raised += 1
      if out is None:
        for nm in rig.names:
          rig.ev.append({'e': 'AggDone', 'metric': rig.metric_id(nm), 'sel': sel, 'nkeys': 0})
      else:
        evs = rig.agg_events(sel, out)
        for nm in list(rig.names):
          rig.ev.extend(evs.get(nm, []))
      rig.ev.append({'e': 'PassEnd'})
      gevent.sleep(0)

  gs = []
  if script['poller_first']:
    gs.append(gevent.spawn(poller))
  for moves in script['recorders']:
    gs.append(gevent.spawn(recorder, moves))
  if not script['poller_first']:
    gs.append(gevent.spawn(poller))
  loop.run_until_idle()
  if not all(g.ready() and g.successful() for g in gs):
    raise RuntimeError('a greenlet did not finish: %r' % [g.exception for g in gs])
  rig.aggregate('default')
  return {'cfg': rig.cfg(), 'ev': rig.ev, 'meta': {'errors': [str(e[1:3]) for e in loop.errors][:3],
                                                    'aggregate_raised': rig.raised}}


def run_case(script):
  mode = script.get('mode')
  if 'behaviour' in script:
    o = _replay_one(script)
    return {'cfg': o['cfg'], 'ev': o['ev']}
  if mode == 'e2e':
    return _run_e2e(script)
  if mode == 'scale':
    return _run_scale(script)
  if mode == 'sock':
    return _run_sock(script)
  if mode == 'lib':
    return _run_lib(script)
  if mode == 'conc':
    return _run_conc(script)
  return _run_api(script)


def trace_for_tlc(t):
  return {'cfg': t['cfg'], 'ev': t['ev']}


def _dup_objects(ev, upto, metric):
  seen = {}
  for e in ev[:upto]:
    if e['e'] in ('Inc', 'Set', 'Sample') and e['metric'] == metric:
      seen.setdefault(e['src'], set()).add(e.get('obj'))
  return any(len(v) > 1 for v in seen.values())


def nontrivial(prop, t):
  ev = t['ev']
  if not any(e['e'] == 'Agg' for e in ev):
    return None
  cnt = {}
  for e in ev:
    if e['e'] in ('Inc', 'Set', 'Sample'):
      cnt[(e['metric'], e['src'])] = cnt.get((e['metric'], e['src']), 0) + 1
    elif e['e'] == 'IncRun':
      for s_ in e['srcs']:
        cnt[(e['metric'], s_)] = cnt.get((e['metric'], s_), 0) + 1
  if not cnt or max(cnt.values()) < 2:
    return None
  return common.canon([t['cfg'], ev])


def witness(prop, t, consumed, clause):
  ev = t['ev']
  e = ev[consumed] if consumed < len(ev) else {}
  m = e.get('metric')
  kind = t['cfg']['kinds'][m - 1] if m and m <= len(t['cfg']['kinds']) else None
  return {'kind': kind, 'equal_sources_from_distinct_objects': _dup_objects(ev, consumed, m)}


# ------------------------------------------------------------------ direction A
def _probe_source_eq(_):
  common.boot()
  from scales.varz import Source
  a, b = Source('m', 's', 'e', None), Source('m', 's', 'e', None)
  return {'eq': bool(a == b and len({a: 1, b: 2}) == 1)}


def _replay_one(script):
  """Step the real VarzReceiver / Aggregate through one TLC behaviour of Varz."""
  beh = script['behaviour']
  loop = common.boot()
  import gevent
  from scales import varz
  st0 = beh[0][1]
  kinds = st0['akinds']
  rig = _Rig(loop, script.get('cap', 2))
  VR = rig.VR
  names = ['verif.a.m%d' % i for i in range(len(kinds))]
  for nm, k in zip(names, kinds):
    VR.RegisterMetric(nm, rig.type_of_kind(k))
    rig.metric_id(nm)
  canon = {}
  ev = rig.ev
  drift = None
  steps = 0
  aggst = None     # running Aggregate: dict(sel, box, order, calls, snap_at, g, k)

  def source(t, fresh):
    t = tuple(t)
    if fresh:
      return rig.make_source(t)
    if t not in canon:
      canon[t] = rig.make_source(t)
    return canon[t]

  def finish_agg(died):
    """Place the entries of every metric where the aggregator *read* that metric's sources:
    the key selector is called once per source while they are read, and the wrapper notes the
    trace position and the state of the series at each call.  This does not depend on where
    Aggregate yields."""
    a = aggst
    out = a['box'][0] if a['box'] else None
    if out is None:
      return None
    marks, snaps, idx, ok = {}, {}, 0, True
    for nm in a['order']:
      if idx >= len(a['calls']):
        ok = False
        break
      pos = a['calls'][idx]
      marks[nm] = pos
      snaps[nm] = a['snap_at'][pos][nm]
      idx += snaps[nm]['series']
    if not ok or idx != len(a['calls']):
      a['unplaced'] = True            # cannot attribute the reads: judge nothing of this aggregate
      return out
    evs = rig.agg_events(a['sel'], out, only=a['order'], snaps=snaps)
    for nm, mark in sorted(marks.items(), key=lambda kv: -kv[1]):
      ev[mark:mark] = evs.get(nm, [])
    return out

  def watched_selector(sel, a):
    inner = rig.selector(sel) or getattr(varz, 'DefaultKeySelector', None) or (lambda s: (s.service, s.client_id))

    def ks(s):
      pos = len(ev)
      if pos not in a['snap_at']:
        a['snap_at'][pos] = dict((nm, rig.snapshot(nm)) for nm in a['order'])
      a['calls'].append(pos)
      return inner(s)
    return ks

  unit = script.get('unit')         # seconds per clock unit of the model (age behaviours), else None
  base = rig.low_res_now()

  def project():
    d = VR.VARZ_DATA
    mk = [names.index(n) + 1 for n in d.keys() if n in names]
    vd = []
    for nm, k in zip(names, kinds):
      ents = []
      for s, v in (d[nm].items() if nm in d else []):
        t = rig.tuple_of(s)
        if k in ('timer', 'avgrate'):
          lu = 0
          if unit and base is not None and hasattr(v, 'last_update'):
            q = (float(v.last_update) - base) / unit
            lu = int(round(q)) if abs(q - round(q)) < 1e-6 else q
          ents.append((tuple(t), 0, tuple(int(x) for x in v.data), int(v.i), lu))
        else:
          ents.append((tuple(t), int(v), (), 0, 0))
      vd.append(sorted(ents))
    return {'mkeys': mk, 'vdata': vd}

  def spec_project(st):
    vd = []
    for ents in st['vdata']:
      vd.append(sorted((tuple(e['k']['t']), e['v']['n'], tuple(e['v']['data']), e['v']['i'],
                        e['v'].get('lu', 0) if unit else 0) for e in ents))
    return {'mkeys': list(st['mkeys']), 'vdata': vd}

  def out_project(sel, out):
    res = []
    for nm in out.keys():          # insertion order = the order the aggregator processed the metrics
      if nm not in names:
        continue
      m = names.index(nm) + 1
      ents = []
      for key, a in out[nm].items():
        if kinds[m - 1] in ('timer', 'avgrate'):
          ents.append((tuple(rig.key_ints(sel, key)), 0, int(a.count), tuple(int(round(x * SCALE)) for x in list(a.total)[1:])))
        else:
          ents.append((tuple(rig.key_ints(sel, key)), int(round(float(a.total) * SCALE)), int(a.count), ()))
      res.append((m, sorted(ents)))
    return res

  def spec_out(ret):
    res = []
    for o in ret['out']:
      res.append((o['m'], sorted((tuple(r['key']), r['total'], r['cnt'], tuple(r['pcts'])) for r in o['res'])))
    return res

  def close(a, b):   # percentiles may differ by one unit of rounding
    if len(a) != len(b):
      return False
    for (m1, e1), (m2, e2) in zip(a, b):
      if m1 != m2 or len(e1) != len(e2):
        return False
      for x, y in zip(e1, e2):
        if x[:3] != y[:3] or len(x[3]) != len(y[3]) or any(abs(p - q) > 1 for p, q in zip(x[3], y[3])):
          return False
    return True

  for (act, st) in beh[1:]:
    name, params = act
    steps += 1
    outcmp = None
    if name in ('DoInc', 'DoSet', 'DoSample'):
      m, t, fresh, val = params[0], params[1], params[2], params[3]
      src = source(t, fresh)
      nm = names[m - 1]
      if name == 'DoInc':
        VR.IncrementVarz(src, nm, val)
        rig.log_update('Inc', nm, src, val)
      elif name == 'DoSet':
        VR.SetVarz(src, nm, val)
        rig.log_update('Set', nm, src, val)
      else:
        rig.rand.append(0.05 if params[4] else 0.5)
        pre = rig.series_state(nm, src)
        VR.RecordPercentileSample(src, nm, val)
        del rig.rand[:]
        rig.log_update('Sample', nm, src, val, pre=pre)
    elif name == 'ClockTick':
      if not unit:
        drift = drift or {'step': steps, 'action': [name, params], 'why': 'clock step in a behaviour without a time unit'}
        break
      rig.tick(unit * params[0])
    elif name == 'AggBegin':
      sel = params[0]
      box = []
      order = [n for n in VR.VARZ_DATA.keys() if n in names]
      aggst = {'sel': sel, 'box': box, 'order': order, 'calls': [], 'snap_at': {}, 'k': 0}
      aggst['g'] = gevent.spawn(lambda box=box, ks=watched_selector(sel, aggst): box.append(
        varz.VarzAggregator.Aggregate(VR.VARZ_DATA, VR.VARZ_METRICS, ks)))
      loop.step_callback()          # from the start to the first sleep(0)
      if not order:
        out = finish_agg(False)
        for nm in names:            # an empty aggregate reports no key for any metric
          ev.append({'e': 'AggDone', 'metric': names.index(nm) + 1, 'sel': sel, 'nkeys': 0})
        outcmp = (sel, out)
        aggst = None
    elif name in ('AggStepNext', 'AggStepDone', 'AggStepAbort'):
      a = aggst
      if a is None:
        drift = drift or {'step': steps, 'action': [name, params], 'why': 'no aggregate running'}
        break
      a['k'] += 1
      loop.step_callback()          # from one sleep(0) to the next (or to the end)
      if a['g'].dead:
        out = finish_agg(not a['box'])
        if name == 'AggStepDone':
          outcmp = (a['sel'], out)
        elif drift is None and (name == 'AggStepNext' or out is not None):
          drift = {'step': steps, 'action': [name, params], 'why': 'aggregate ended', 'returned': out is not None}
        aggst = None
      elif name != 'AggStepNext' and drift is None:
        drift = {'step': steps, 'action': [name, params], 'why': 'aggregate still running'}
    if drift is None:
      try:
        real = project()
      except Exception:
        real = None                 # projection attribute missing: degrade
      if real is not None:
        spec = spec_project(st)
        if spec != real:
          drift = {'step': steps, 'action': [name, params], 'spec': spec, 'real': real}
      if drift is None and outcmp is not None and outcmp[1] is not None:
        try:
          ro = out_project(outcmp[0], outcmp[1])
        except Exception:
          ro = None
        if ro is not None and not close(spec_out(st['ret']), ro):
          drift = {'step': steps, 'action': [name, params], 'spec_ret': spec_out(st['ret']), 'real_ret': ro}
  if aggst is not None:             # let a running aggregate finish; its entries are placed where computed
    a = aggst
    while not a['g'].dead and a['k'] < len(a['order']) + 2:
      a['k'] += 1
      loop.step_callback()
    finish_agg(not a['box'])
  # final complete aggregates, judged by the oracle
  for sel in ('tuple', 'default'):
    rig.aggregate(sel)
  return {'cfg': rig.cfg(), 'ev': ev, 'steps': steps, 'drift': drift,
          'aborted': sum(1 for e in loop.errors if 'RuntimeError' in str(e))}


def replay_behaviours(prop, tier, seed):
  probe = common.run_forked(_probe_source_eq, [0])[0]
  if 'err' in probe:
    raise RuntimeError('probe failed: ' + probe['err'])
  eq = probe['ok']['eq']
  cfg = 'Varz_sim_eq.cfg' if eq else 'Varz_sim_noeq.cfg'
  num = 150 if tier == 'quick' else 2000
  r, behs = tlc.simulate_behaviours('Varz', cfg, num=num, depth=22, seed=int(seed) + 1, timeout=900)
  if not behs:
    raise RuntimeError('no behaviours from TLC simulate:\n' + r.stdout[-2000:])
  keep = ('vdata', 'mkeys', 'ret', 'akinds')
  scripts = [{'behaviour': [[list(a), dict((k, s[k]) for k in keep if k in s)] for a, s in b], 'cap': 2}
             for b in behs]
  aged = 0
  if eq:
    # behaviours with the clock: one model unit = MAX_AGG_AGE / MaxAge = 150 s of the real low-resolution clock
    r2, behs2 = tlc.simulate_behaviours('Varz', 'Varz_sim_age.cfg', num=(50 if tier == 'quick' else 1200), depth=24,
                                        seed=int(seed) + 7, timeout=900)
    if not behs2:
      raise RuntimeError('no behaviours from TLC simulate (age):\n' + r2.stdout[-2000:])
    aged = len(behs2)
    behs = behs + behs2
    scripts += [{'behaviour': [[list(a), dict((k, s[k]) for k in keep if k in s)] for a, s in b], 'cap': 2, 'unit': 150}
                for b in behs2]
  res = common.run_forked(_replay_one, scripts)
  errs = [x['err'] for x in res if 'err' in x]
  if errs:
    raise RuntimeError('replay failed: ' + errs[0])
  traces, drift, steps, aborted = [], [], 0, 0
  for s, x in zip(scripts, res):
    o = x['ok']
    steps += o['steps']
    aborted += 1 if o['aborted'] else 0
    if o['drift']:
      drift.append(o['drift'])
    traces.append({'cfg': o['cfg'], 'ev': o['ev'], 'script': s})
  return {'summary': {'behaviours_replayed': len(behs), 'with_clock_steps': aged, 'steps_compared': steps, 'drift': len(drift),
                      'model_variant': 'SourceEq=%s (probed from the real Source class)' % ('TRUE' if eq else 'FALSE'),
                      'aggregates_aborted_by_dict_resize': aborted},
          'traces': traces, 'drift': drift}


def extra_coverage(prop, tier, traces):
  kinds = {}
  for t in traces:
    for k in t['cfg']['kinds']:
      kinds[k] = kinds.get(k, 0) + 1
  e2e = sum(1 for t in traces if (t.get('script') or {}).get('mode') == 'e2e')
  raised = sum((t.get('meta') or {}).get('aggregate_raised', 0) for t in traces)
  rec_raised = sum((t.get('meta') or {}).get('recordings_raised', 0) for t in traces)
  fam = sum(1 for t in traces if (t.get('script') or {}).get('nattr') and
            len(t['script']['kinds']) > t['script']['nattr'])
  lib = [t for t in traces if (t.get('script') or {}).get('mode') == 'lib']
  zero = sum(1 for t in traces for e in t['ev'] if e.get('amt', e.get('v', 1)) == 0 and e['e'] in ('Inc', 'Set', 'Sample'))
  idle = resumed = stale = 0
  big = []
  for t in traces:
    ev = t['ev']
    acc, seen_agg, window = 0, False, False
    for e in ev:
      if e['e'] == 'Tick':
        acc += e['dt']
      elif e['e'] in ('Agg', 'AggDone'):
        if acc >= 300:
          seen_agg = True
        if e['e'] == 'Agg' and e['cnt'] == 0 and e['pcts']:
          stale += 1
      elif e['e'] == 'Sample':
        if acc >= 300:
          window = True
          if seen_agg and not e['fresh']:
            resumed += 1
        acc, seen_agg = 0, False
    idle += 1 if window else 0
    if len(t['cfg']['srcs']) >= 1000:
      big.append(len(t['cfg']['srcs']))
  return {'metric_kinds_exercised': kinds, 'dispatcher_end_to_end_runs': e2e,
          'aggregate_calls_that_raised': raised, 'recording_calls_that_raised': rec_raised,
          'traces_with_several_Varz_classes_sharing_attribute_names': fam + len(lib),
          'library_Varz_classes_found': max([(t.get('meta') or {}).get('lib_classes', 0) for t in lib] or [0]),
          'recordings_of_a_zero_value': zero,
          'traces_with_a_sample_after_an_idle_window_of_MAX_AGG_AGE_or_more': idle,
          'samples_by_a_reused_object_after_such_a_window_with_an_aggregation_pass_inside': resumed,
          'aggregate_entries_folded_from_no_series_(all_reservoirs_stale)': stale,
          'distinct_sources_in_the_large_histories': sorted(big)}
