"""Shared plumbing: process bootstrap, forked case execution, verdict policy,
known findings, replay files, evidence."""
import hashlib
import json
import os
import select
import sys
import time
import traceback

VERIF = os.path.dirname(os.path.dirname(os.path.abspath(__file__)))
REPO = os.environ.get('VERIF_REPO', '/repo')
EVIDENCE_DIR = os.environ.get('VERIF_EVIDENCE_DIR') or os.path.join(VERIF, 'evidence')
REPLAY_DIR = os.environ.get('VERIF_REPLAY_DIR') or os.path.join(VERIF, 'replays')
KNOWN_FINDINGS = os.path.join(VERIF, 'known_findings.json')
HOOK_GUARD = 'SCALES_VERIF'

_booted = None


def boot():
  """Make /repo importable (current working tree), install the virtual loop.
  Returns the loop.  Idempotent."""
  global _booted
  if _booted is not None:
    return _booted
  sys.dont_write_bytecode = True
  os.environ['PYTHONDONTWRITEBYTECODE'] = '1'
  os.environ[HOOK_GUARD] = '1'
  for p in (VERIF, REPO):
    if p in sys.path:
      sys.path.remove(p)
  sys.path.insert(0, VERIF)
  sys.path.insert(0, REPO)
  import logging
  logging.disable(logging.CRITICAL)
  from harness.simgevent import vloop
  loop = vloop.install()
  _booted = loop
  return loop


# ------------------------------------------------------------------ forked execution
def _child(fn, arg, wfd):
  try:
    try:
      res = {'ok': fn(arg)}
    except BaseException:  # noqa
      res = {'err': traceback.format_exc()}
    data = json.dumps(res, separators=(',', ':')).encode('utf8')
    off = 0
    while off < len(data):
      off += os.write(wfd, data[off:off + 65536])
  finally:
    os._exit(0)


def run_forked(fn, args, workers=None, timeout_s=120):
  """Run fn(arg) for every arg, each in its own forked child (perfect isolation of
  gevent / scales global state), `workers` children at a time.  fn returns a JSON-able
  value.  Returns a list of {'ok': value} | {'err': text} in order."""
  workers = workers or min(16, os.cpu_count() or 4)
  results = [None] * len(args)
  pending = {}   # rfd -> (index, pid, buf, t0)
  nxt = 0
  n = len(args)
  sys.stdout.flush()
  sys.stderr.flush()
  while nxt < n or pending:
    while nxt < n and len(pending) < workers:
      rfd, wfd = os.pipe()
      pid = os.fork()
      if pid == 0:
        os.close(rfd)
        for fd in list(pending):
          try:
            os.close(fd)
          except OSError:
            pass
        _child(fn, args[nxt], wfd)
      os.close(wfd)
      pending[rfd] = [nxt, pid, [], time.time()]
      nxt += 1
    rl, _, _ = select.select(list(pending), [], [], 1.0)
    now = time.time()
    for fd in rl:
      chunk = os.read(fd, 1 << 20)
      ent = pending[fd]
      if chunk:
        ent[2].append(chunk)
        continue
      os.close(fd)
      del pending[fd]
      os.waitpid(ent[1], 0)
      raw = b''.join(ent[2])
      try:
        results[ent[0]] = json.loads(raw.decode('utf8'))
      except Exception:
        results[ent[0]] = {'err': 'child died without result (%d bytes)' % len(raw)}
    for fd, ent in list(pending.items()):
      if now - ent[3] > timeout_s:
        try:
          os.kill(ent[1], 9)
        except OSError:
          pass
        os.close(fd)
        os.waitpid(ent[1], 0)
        del pending[fd]
        results[ent[0]] = {'err': 'case timed out after %ss (real time)' % timeout_s}
  return results


# ------------------------------------------------------------------ known findings
def load_known_findings():
  if not os.path.exists(KNOWN_FINDINGS):
    return []
  with open(KNOWN_FINDINGS) as f:
    return json.load(f).get('findings', [])


def match_known(findings, prop, clause, witness):
  """A violation is a known finding only if property, clause and *all* witness
  features of a `known` entry match.  `fixed` entries never match."""
  for k in findings:
    if k.get('status') != 'known':
      continue
    if k.get('property') != prop or k.get('clause') != clause:
      continue
    w = k.get('witness', {})
    if all(witness.get(a) == b for a, b in w.items()):
      return k
  return None


# ------------------------------------------------------------------ replay + evidence
def write_replay(prop, payload):
  d = os.path.join(REPLAY_DIR, prop)
  os.makedirs(d, exist_ok=True)
  txt = json.dumps(payload, indent=1, sort_keys=True, default=str)
  h = hashlib.sha1(txt.encode('utf8')).hexdigest()[:12]
  p = os.path.join(d, h + '.json')
  with open(p, 'w') as f:
    f.write(txt)
  return p


def write_evidence(prop, tier, seed, level, coverage, assumptions, wall_s, violations):
  os.makedirs(EVIDENCE_DIR, exist_ok=True)
  ev = {
    'property_id': prop, 'tier': tier, 'seed': int(seed), 'level': level,
    'coverage': coverage, 'assumptions': assumptions, 'wall_s': round(wall_s, 2),
    'violations': int(violations),
  }
  p = os.path.join(EVIDENCE_DIR, prop + '.json')
  tmp = p + '.tmp'
  with open(tmp, 'w') as f:
    json.dump(ev, f, indent=1, sort_keys=True, default=str)
  os.replace(tmp, p)
  return p


def canon(x):
  return json.dumps(x, sort_keys=True, separators=(',', ':'), default=str)


def age_tag_pools(k):
  """Fast-forward the tag counter of every live mux TagPool to k (the state of a long-lived connection on which
  the tags up to k are still reserved), without executing that history.  Returns the number of pools aged;
  0 if the pool class or its counter is not what this helper knows (the scenario then simply runs un-aged)."""
  import gc
  try:
    from scales.mux.sink import TagPool
  except Exception:
    return 0
  n = 0
  for o in gc.get_objects():
    if type(o) is TagPool and isinstance(getattr(o, '_next', None), int) and isinstance(getattr(o, '_set', None), set):
      if o._next < k:
        o._next = k
        n += 1
  return n


class LivelockCut(BaseException):
  """Raised by cpu_watchdog inside whatever greenlet is spinning (not an Exception: the code under test's
  `except Exception` handlers do not swallow it)."""


def cpu_watchdog(seconds=20, max_cuts=3):
  """Cut a livelock of the code under test: after `seconds` of CPU time of this (forked) case a LivelockCut is
  raised in the running greenlet; the driver then carries on and the history recorded is judged as it stands.
  Returns a list that collects one entry per cut."""
  import signal
  cuts = []

  def handler(signum, frame):
    cuts.append(frame.f_code.co_filename + ':' + str(frame.f_lineno))
    if len(cuts) < max_cuts:
      signal.setitimer(signal.ITIMER_VIRTUAL, seconds)
    raise LivelockCut('CPU-time watchdog: %s' % cuts[-1])
  signal.signal(signal.SIGVTALRM, handler)
  signal.setitimer(signal.ITIMER_VIRTUAL, seconds)
  return cuts
