"""Generates /verif/MANIFEST.json from the table below (run: python -m harness.manifest)."""
import json
import os

VERIF = os.path.dirname(os.path.dirname(os.path.abspath(__file__)))
BASELINE_CMD = ('cd /repo && env -u SCALES_VERIF /venv/bin/python -m pytest -ra -q -p no:cacheprovider '
                '--timeout=900 --continue-on-collection-errors')

CHECKS = {
  'C10': dict(
    engine='timer', category='model_checking', design_ref='DESIGN.md 5/C10',
    technique='TLC exhaustive check of code-shaped TimerQueue.tla against TimerAbs clauses; TLC-simulated behaviours '
              'single-stepped on the real TimerQueue (projection compare); real-code traces (random, bulk, pattern, low-resolution clock, '
              'same-iteration coincidences) validated by TLC against TimerAbsTrace',
    text='TLC enumerates every interleaving of Schedule/Cancel calls, worker quanta, Event notifier vs timer expiry and clock '
         'advances for 2-3 timers on a half-tick grid (exhaustive in bounds); the model is bound to the code by replaying TLC '
         'behaviours on the real TimerQueue under a virtual-time gevent loop with state comparison after every quantum, and '
         'seeded random histories of the real queue are validated clause-by-clause by TLC against the property-level spec.',
    note='Trusted: virtual loop faithful to gevent FIFO/timer semantics; TLC bounds (ids<=3, clock<=5 half-ticks); '
         'time source = scheduler clock; 10 ms resolution exercised with deadlines that are not exact decimal multiples.'),
}

_STACK_TECH = ('TLC exhaustive check of code-shaped CallStack.tla (per-call sink stack, timeout sink, open chaining, pool '
               'queue, serial/mux transports) + real Thrift/ThriftMux clients built by the public builders run over a simulated '
               'network under a virtual-time gevent loop (optionally with libev\'s event discipline); recorded traces validated by TLC against CallAbsTrace')
_STACK_NOTE = ('Trusted: SimNet as TCP stand-in, peers with their own codecs, virtual loop faithful to gevent; TLC bounds '
               '(3 calls, 3-4 ticks, pool of 1, queue of 1); requests attributed to calls by a unique argument; tag counters near field boundaries are '
               'reached by fast-forwarding the pool\'s counter (common.age_tag_pools), not by executing 2^16..2^24 calls.')
CHECKS['C01'] = dict(engine='stack', category='model_checking', design_ref='DESIGN.md 5/C01', technique=_STACK_TECH, note=_STACK_NOTE,
  text='TLC enumerates every order of issue (before/after open), reply, late reply, I/O fault, timer expiry and pool hand-over '
       'for 3 calls on the code-shaped model and checks exactly-once / not-early / on-time / completes; the same clauses are '
       'evaluated by TLC on every step of thousands of recorded executions of the real client stacks (seeded scenarios placing '
       'the deadline at each hop).')
CHECKS['C02'] = dict(engine='stack', category='model_checking', design_ref='DESIGN.md 5/C02', technique=_STACK_TECH, note=_STACK_NOTE,
  text='Every request decoded at a simulated server must equal (method, unique argument) of an issued call and every value '
       'delivered to a caller must be the echo of its own argument; TLC validates this on every recorded execution of the real '
       'serial and multiplexed stacks with delayed, reordered, dropped and late replies, timeouts and connection faults.')
CHECKS['C12'] = dict(engine='stack', category='model_checking', design_ref='DESIGN.md 5/C12', technique=_STACK_TECH, note=_STACK_NOTE,
  text='On the single global event order (caller completions and bytes at the peers) TLC checks that no request is decoded at a '
       'server after its caller got TimeoutError and that a discard naming the tag reaches the peer for requests already written '
       'to a still-open multiplexed connection; the code-shaped model places the deadline at every hop exhaustively.')

def _mc(engine, ref, technique, text, note, category='model_checking'):
  return dict(engine=engine, category=category, design_ref=ref, technique=technique, text=text, note=note)

CHECKS['C08'] = _mc('transport', 'DESIGN.md 5/C08',
  'TLC fault enumeration on code-shaped SerialTransport.tla / MuxTransport.tla (fault at every I/O step x in-flight set); real transports '
  'driven over a simulated socket with a fault at every I/O operation index x kind; traces validated by TLC against TransportAbsTrace',
  'TLC enumerates (operation x fault kind x in-flight requests) on the code-shaped transport models and checks fail-exactly-once, reports-Closed, '
  'fault-signal and open-means-usable; the same clauses are evaluated by TLC on recorded runs of the real serial and ThriftMux transports with a '
  'fault injected at every I/O operation index (exception, EOF, refusal, silence) with 0-3 requests in flight, plus seeded histories.',
  'Trusted: SimNet fault model; requests whose reply the peer had already sent may complete either way; owner Close is not a failure; '
  'probes are skipped while an environment fault is unobserved or a connect is pending.')
CHECKS['C11'] = _mc('transport', 'DESIGN.md 5/C11',
  'TLC exhaustive check of MuxTransport.tla (TagPool, tag map, send queue, timeouts, adversarial peer frames, max_tag scaled down); real ThriftMux '
  'transport against an adversarial simulated peer (duplicates, unknown / reserved / single-bit-off tags, aged tag counters); wire-level traces '
  'validated by TLC against TransportAbsTrace',
  'Tag range / uniqueness / recycling are judged from frames decoded at the simulated peer only; TLC explores every interleaving of requests, '
  'replies in any order, duplicates, unknown and reserved tags, timeouts before/after transmission on the model (tag space scaled to 5-6) and '
  'validates thousands of recorded real-code histories incl. long request/reply runs for boundedness.',
  'Trusted: peer codec; a stray frame naming a tag that the client allocates AND writes before processing the frame is indistinguishable from an '
  'answer (allowance `stray` in TransportAbs, taint in the model) - a frame naming the tag of a request still in the send queue is not excused '
  '(Tagged event); bound has slack for requests dropped before send.')
CHECKS['C09'] = _mc('resurrect', 'DESIGN.md 5/C09',
  'TLC check of code-shaped Resurrector.tla (retry loop, deferred fault signal, Close at any point); real ResurrectorSink over real pool/transports '
  'and full clients over simulated endpoints (one, or 2-4 behind the real aperture / heap balancer) with scripted reachability over minutes of '
  'virtual time; traces validated by TLC against ResurrectAbsTrace; every transition of the bounded Resurrector / Observable graphs replayed on the real objects',
  'Fail-fast while the connection is known down, back-off gaps (>= initial, non-decreasing, growing below the cap, <= max), recovery within '
  'max_wait_interval + slack once reachable under steady traffic, and no attempt after close are evaluated by TLC on every recorded run; the '
  'model explores every placement of reachability flips, fault notifications and Close relative to the retry timer.',
  'Trusted: unreachable = refused connects (at once / late) / unanswered pings + reset of established connections, or blackhole (established '
  'connections silent, new ones refused); multi-endpoint traces are projected on one endpoint under bursts of n+1 concurrent calls; down is ground truth (client observed a failed '
  'attempt) made firm at the next quiescent point; slack 9.5 s covers a ThriftMux attempt whose ping was lost.')
CHECKS['C13'] = _mc('muxwire', 'DESIGN.md 5/C13',
  'TLA+ reference encoder + independent decoder (MuxWire.tla); TLC checks decode(encode)=id on a bounded domain and validates recorded (input, bytes) '
  'pairs from the real serializer / header writer / header reader; stream mode: MuxStreamAbs frames the byte stream a live connection delivered '
  'under partial writes and matches every frame to a supplied message; MuxSendLoop.tla model-checks the single-writer discipline',
  'Input-universal property of pure functions: TLC decides each recorded frame against the reference codec (every tag class, non-ASCII contexts, '
  'deadlines, payloads) and checks the codec laws exhaustively over a bounded domain; the real ThriftMux transport stack is run with send-buffer '
  'back-pressure, pings, deadlines, bodies up to 66 kB and a bare-socket variant, and TLC judges the delivered stream; not exhaustive over inputs.',
  'Trusted: MuxWire.tla written from the mux protocol description; generators cover tag byte boundaries and 1-4 byte code points.', 'exploration')
CHECKS['C15'] = _mc('kafkawire', 'DESIGN.md 5/C15',
  'TLA+ reference Kafka v0 codec incl. CRC32 on 16-bit limbs (KafkaWire.tla); TLC checks round trips on a bounded domain and validates recorded '
  'request bytes / decoded responses / correlation-id routing from the real code; late-reply mode (KafkaCorrAbs: a reply reaches the request '
  'instance it answers; KafkaCorr.tla) and stream mode (KafkaStreamAbs frames what the broker received under partial writes)',
  'Each recorded produce request is accepted iff sizes, CRC32, header fields equal the reference encoding; responses encoded by an independent broker '
  'encoder must decode to what the spec decoder yields; replies must reach the request with the same correlation id.',
  'Trusted: KafkaWire.tla written from the protocol guide; not exhaustive over inputs.', 'exploration')
CHECKS['C14'] = _mc('thriftwire', 'DESIGN.md 5/C14',
  'TLC enumerates all chunkings of reply streams on ReadAll.tla, each replayed into the real transport (projection compare); TBinaryWire.tla reference '
  'codec + reply classification validated by TLC on recorded calls against the Thrift library Processor',
  'Chunk-independence is model-checked (every chunking of streams up to 8/12 bytes) and replayed on the real readAll paths; codec agreement is a '
  'three-way trace validation (scales bytes = spec encoding, library Processor decodes the same call, library reply bytes classify as the spec says).',
  'Trusted: hand-written gen_py-style test interfaces; Thrift library as stated oracle; codec part is sampled, not exhaustive.')
CHECKS['C20'] = _mc('proxy', 'DESIGN.md 5/C20',
  'TLA+ reference functions (UriProxy.tla: user methods, proxy names, forwarding record, tcp/zk URI parsing) checked for self-consistency by TLC and '
  'used by TLC to validate recorded (interface, call, URI) -> (dispatch record, endpoints) pairs from the real code; end-to-end mode over the real '
  'MessageDispatcher (ProxyCalls clauses; ProxyDispatch.tla models the pre-open path)',
  'Generated interface classes (underscore decorations, inheritance, aliases, varied signatures) are called through real proxies over a recording '
  'dispatcher and URIs are parsed by the real parser; TLC compares every record with the reference functions.',
  'Trusted: conservative reading of "public method" (no leading underscore, not ending in __); inputs sampled.', 'exploration')
CHECKS['C07'] = _mc('pool', 'DESIGN.md 5/C07',
  'TLC exhaustive check of code-shaped WatermarkPool.tla (size, cache, waiters, spawned _ProcessQueue tasks, timeouts while queued/lent, dead '
  'connections); TLC behaviours replayed on the real pool (projection compare); real-code histories validated by TLC against PoolAbsTrace',
  'TLC explores all arrival/completion/timeout/death orders for (min,max,queue) in {0,1}x{1,2}x{0,1,2} with 4 requests incl. two releases racing '
  'for one waiter; the real WatermarkPoolSink is driven by TLC behaviours and by seeded + systematically enumerated histories, each ending in a '
  'probe burst for leaked capacity, judged clause by clause by TLC.',
  'Trusted: mock connection provider below the pool; closed pools are only held to closeFailsWaiters.')
CHECKS['C18'] = _mc('varz', 'DESIGN.md 5/C18',
  'TLC check of code-shaped Varz.tla (metric map keyed by Source with Python key semantics, reservoir, aggregation split at its yields); behaviours '
  'replayed on the real VarzReceiver/VarzAggregator; recorded update sequences validated by TLC against VarzAbsTrace',
  'Sum / last-gauge / one-series-per-equal-source / percentile bounds are decided by TLC on every recorded sequence of updates from fresh-but-equal '
  'Source objects through the three recording APIs and an end-to-end dispatcher run.',
  'Trusted: integer-valued samples; retained samples read from the reservoir attribute (falls back to all samples).')
CHECKS['C19'] = _mc('zk', 'DESIGN.md 5/C19',
  'TLC exhaustive check of code-shaped ZkServerSet.tla (znode tree, one-shot watches, DataWatch/ChildrenWatch recipes, worker queue); every transition of '
  'a bounded state graph replayed on the real ServerSet over a fake ZooKeeper with the real kazoo recipes; histories validated by TLC against ZkAbsTrace',
  'TLC explores all histories of child create/delete, path delete/re-create and request-serving orders (2-3 members) and the real ServerSet is '
  'stepped through every transition of the bounded graph; consumer-visible joins/leaves are judged by TLC (agree, alternate, survivesErrors).',
  'Trusted: FakeZK implements documented one-shot watch semantics; known finding C19-stale-children-watch (path re-created before the deletion was processed).')

CHECKS['C06'] = _mc('aperture', 'DESIGN.md 5/C06',
  'TLC check of code-shaped Aperture.tla (idle/pending sets, expand/contract/jitter, control law with abstract EMA) incl. the temporal property '
  '<>[](InBand \\/ Pinned) under fairness; model bound to the code by ApertureTrace (projection after every driver operation); gauges published by '
  'the real ApertureBalancerSink under long virtual-time traffic histories validated by TLC against ApertureAbsTrace',
  'Partition, floor, ceiling, grow/shrink step rules and settling are decided by TLC on the published gauges (active, idle, load_average) of the '
  'real balancer for configurations min_size 1-3, max_size 1-5, 1-6 members, three load bands, with failures, joins/leaves and jitter rounds; '
  'the EMA abstraction of the model is validated per sample (between-ness).',
  'Trusted: mock channels and server set below/above the balancer; settles only claimed for max_load > 2*min_load; C06.smoothed (between-ness of '
  'the published average) ties the published load to the true outstanding count.')

_BAL_TECH = ('TLC exhaustive check of code-shaped HeapBalancer.tla (heap array algorithms, downq, Idle/Penalty, removal/drain, random '
             're-insertion) and LbBase.tla (open sequence, init gate); TLC counterexamples/behaviours replayed on the real Heap and Aperture '
             'balancers (projection compare); real-code histories validated by TLC against BalancerAbsTrace')
_BAL_NOTE = ('Trusted: mock channel sinks and server-set provider; Idle/Busy count as not open (as __Get does); close clauses judged at '
             'quiescent points; duplicate nodes for one endpoint are not flagged.')
CHECKS['C03'] = _mc('balancer', 'DESIGN.md 5/C03', _BAL_TECH,
  'TLC enumerates all dispatch/complete/channel-flip/join/leave histories for 6-7 members incl. every random re-insertion position and checks '
  'least-loaded-open dispatch and heap order; the unrepaired variant is kept as a counterexample generator (6 members, 7 dispatches) that is '
  'replayed on the real class; seeded histories of both balancers are judged by TLC against reference outstanding counts.', _BAL_NOTE)
CHECKS['C04'] = _mc('balancer', 'DESIGN.md 5/C04', _BAL_TECH,
  'Load conservation per node object (incl. removed, draining ones) for every completion kind, no traffic after leave, close at once when idle or '
  'down and exactly on drain otherwise are checked by TLC on the model and on every event of recorded real-code histories.', _BAL_NOTE)
CHECKS['C05'] = _mc('balancer', 'DESIGN.md 5/C05', _BAL_TECH,
  'All join/leave histories over 3-4 endpoint names (duplicates, unknown leaves, re-joins) interleaved with the open sequence are explored on '
  'LbBase.tla; on the real balancers membership is compared with the reference set at every quiescent point and by a saturating probe, with '
  'notifications landing while the initial list is loading.', _BAL_NOTE)

CHECKS['C16'] = _mc('share', 'DESIGN.md 5/C16',
  'TLC exhaustive check of code-shaped SingletonPool.tla (ref count, _Get branches with the yield at Open().wait(), failures at any point) and '
  'RefCounted.tla (ref-counted shared sink + sharing-key cache); TLC behaviours replayed on the real classes (projection compare); '
  'real-code histories validated by TLC against ShareAbsTrace',
  'All Open/Close/request/failure histories for 2-3 holders (words up to length 4-7, exhaustively enumerated, plus random longer ones with calls '
  'landing mid-cascade) are executed on the real SingletonPoolSink / RefCountedSink / SharedSinkProvider over counting mock connections and judged '
  'by TLC: single connection, shared, replaced after failure, first-open, last-close, surplus closes, same key same sink.',
  'Trusted: mock connections below the pool (Idle until their open completes); C16.lastClose also expects the close by the next quiescent point.')
CHECKS['C17'] = _mc('async_', 'DESIGN.md 5/C17',
  'TLC exhaustive check of code-shaped AsyncImpl.tla (rawlink callback queue, closures of WhenAll/WhenAny/Unwrap/ContinueWith/Map); TLC behaviours '
  'replayed on the real AsyncResult; exhaustive enumeration of inputs x outcomes x completion orders x pre-completed subsets on the real code, '
  'validated by TLC against AsyncAbsTrace',
  'Exhaustive within n <= 4 (quick) / 5-6 (thorough) inputs: every outcome assignment, completion order, pre-completed subset and batching of '
  'completions between quiescent points is executed on the real combinators and the observation (ready, successful, exception, value) after each '
  'step is judged by TLC; the model is checked for n <= 6.',
  'Trusted: gevent AsyncResult semantics as observed on the virtual loop; a result with .exception set counts as failed.')

PENDING = {}

ALL = ['C%02d' % i for i in range(1, 21)]


def build():
  checks = []
  na = []
  for pid in ALL:
    c = CHECKS.get(pid)
    if c is None:
      na.append({'property_id': pid, 'reason': PENDING.get(pid, 'engine not built yet in this round; planned per DESIGN.md section 5')})
      continue
    checks.append({
      'property_id': pid,
      'quick_cmd': 'bin/check %s --tier quick' % pid,
      'thorough_cmd': 'bin/check %s --tier thorough' % pid,
      'evidence_file': 'evidence/%s.json' % pid,
      'replay_cmd_template': 'bin/check %s --replay {path}' % pid,
      'engine': c['engine'],
      'level_claimed': {'category': c['category'], 'text': c['text'], 'design_ref': c['design_ref']},
      'level_note': c['note'],
      'technique': c['technique'],
    })
  engines = {}
  for pid, c in CHECKS.items():
    e = engines.setdefault(c['engine'], {'name': c['engine'], 'path': 'harness/engines/%s.py' % c['engine'],
                                          'serves_properties': [], 'kind_free_text': 'TLA+ specs under specs/ + real-code driver'})
    e['serves_properties'].append(pid)
  m = {
    'version': 1,
    'setup_cmd': 'bin/check --selftest',
    'hooks': {
      'guard': 'SCALES_VERIF',
      'enable': 'no source hooks are needed: checks import /repo directly under a virtual-time gevent loop and wrap methods at run time; SCALES_VERIF=1 is exported by the harness for completeness',
      'baseline_off_cmd': BASELINE_CMD,
      'source_commits': [],
      'add_only': True,
    },
    'engines': sorted(engines.values(), key=lambda e: e['name']),
    'checks': checks,
    'not_applicable': na,
    'notes': 'Model-based verification with explicit TLA+ specs (specs/), TLC as the deciding tool, bound to the code by '
             'behaviour replay (spec->code) and trace validation (code->spec). See DESIGN.md.',
  }
  return m


if __name__ == '__main__':
  m = build()
  with open(os.path.join(VERIF, 'MANIFEST.json'), 'w') as f:
    json.dump(m, f, indent=1)
  try:
    import jsonschema
    jsonschema.validate(m, json.load(open('/root/.vp/MANIFEST.schema.json')))
    print('MANIFEST.json valid: %d checks, %d not_applicable' % (len(m['checks']), len(m['not_applicable'])))
  except ImportError:
    print('MANIFEST.json written (jsonschema not available)')
