"""Generates /verif/MANIFEST.json from the table below (run: python -m harness.manifest)."""
import json
import os

VERIF = os.path.dirname(os.path.dirname(os.path.abspath(__file__)))
BASELINE_CMD = ('cd /repo && env -u SCALES_VERIF /venv/bin/python -m pytest -ra -q -p no:cacheprovider '
                '--timeout=900 --continue-on-collection-errors')

CHECKS = {
  'C10': dict(
    engine='timer', category='model_checking', design_ref='DESIGN.md 5/C10',
    technique='TLC exhaustive check of code-shaped TimerQueue.tla against TimerAbs clauses; TLC-simulated behaviours '
              'single-stepped on the real TimerQueue (projection compare); real-code traces validated by TLC against TimerAbsTrace',
    text='TLC enumerates every interleaving of Schedule/Cancel calls, worker quanta, Event notifier vs timer expiry and clock '
         'advances for 2-3 timers on a half-tick grid (exhaustive in bounds); the model is bound to the code by replaying TLC '
         'behaviours on the real TimerQueue under a virtual-time gevent loop with state comparison after every quantum, and '
         'seeded random histories of the real queue are validated clause-by-clause by TLC against the property-level spec.',
    note='Trusted: virtual loop faithful to gevent FIFO/timer semantics; TLC bounds (ids<=3, clock<=5 half-ticks); '
         'time source = scheduler clock; 10 ms resolution exercised with deadlines that are not exact decimal multiples.'),
}

_STACK_TECH = ('TLC exhaustive check of code-shaped CallStack.tla (per-call sink stack, timeout sink, open chaining, pool '
               'queue, serial/mux transports) + real Thrift/ThriftMux clients built by the public builders run over a simulated '
               'network under a virtual-time gevent loop; recorded traces validated by TLC against CallAbsTrace')
_STACK_NOTE = ('Trusted: SimNet as TCP stand-in, peers with their own codecs, virtual loop faithful to gevent; TLC bounds '
               '(3 calls, 3-4 ticks, pool of 1, queue of 1); requests attributed to calls by a unique argument.')
CHECKS['C01'] = dict(engine='stack', category='model_checking', design_ref='DESIGN.md 5/C01', technique=_STACK_TECH, note=_STACK_NOTE,
  text='TLC enumerates every order of issue (before/after open), reply, late reply, I/O fault, timer expiry and pool hand-over '
       'for 3 calls on the code-shaped model and checks exactly-once / not-early / on-time / completes; the same clauses are '
       'evaluated by TLC on every step of thousands of recorded executions of the real client stacks (seeded scenarios placing '
       'the deadline at each hop).')
CHECKS['C02'] = dict(engine='stack', category='model_checking', design_ref='DESIGN.md 5/C02', technique=_STACK_TECH, note=_STACK_NOTE,
  text='Every request decoded at a simulated server must equal (method, unique argument) of an issued call and every value '
       'delivered to a caller must be the echo of its own argument; TLC validates this on every recorded execution of the real '
       'serial and multiplexed stacks with delayed, reordered, dropped and late replies, timeouts and connection faults.')
CHECKS['C12'] = dict(engine='stack', category='model_checking', design_ref='DESIGN.md 5/C12', technique=_STACK_TECH, note=_STACK_NOTE,
  text='On the single global event order (caller completions and bytes at the peers) TLC checks that no request is decoded at a '
       'server after its caller got TimeoutError and that a discard naming the tag reaches the peer for requests already written '
       'to a still-open multiplexed connection; the code-shaped model places the deadline at every hop exhaustively.')

PENDING = {}

ALL = ['C%02d' % i for i in range(1, 21)]


def build():
  checks = []
  na = []
  for pid in ALL:
    c = CHECKS.get(pid)
    if c is None:
      na.append({'property_id': pid, 'reason': PENDING.get(pid, 'engine not built yet in this round; planned per DESIGN.md section 5')})
      continue
    checks.append({
      'property_id': pid,
      'quick_cmd': 'bin/check %s --tier quick' % pid,
      'thorough_cmd': 'bin/check %s --tier thorough' % pid,
      'evidence_file': 'evidence/%s.json' % pid,
      'replay_cmd_template': 'bin/check %s --replay {path}' % pid,
      'engine': c['engine'],
      'level_claimed': {'category': c['category'], 'text': c['text'], 'design_ref': c['design_ref']},
      'level_note': c['note'],
      'technique': c['technique'],
    })
  engines = {}
  for pid, c in CHECKS.items():
    e = engines.setdefault(c['engine'], {'name': c['engine'], 'path': 'harness/engines/%s.py' % c['engine'],
                                          'serves_properties': [], 'kind_free_text': 'TLA+ specs under specs/ + real-code driver'})
    e['serves_properties'].append(pid)
  m = {
    'version': 1,
    'setup_cmd': 'bin/check --selftest',
    'hooks': {
      'guard': 'SCALES_VERIF',
      'enable': 'no source hooks are needed: checks import /repo directly under a virtual-time gevent loop and wrap methods at run time; SCALES_VERIF=1 is exported by the harness for completeness',
      'baseline_off_cmd': BASELINE_CMD,
      'source_commits': [],
      'add_only': True,
    },
    'engines': sorted(engines.values(), key=lambda e: e['name']),
    'checks': checks,
    'not_applicable': na,
    'notes': 'Model-based verification with explicit TLA+ specs (specs/), TLC as the deciding tool, bound to the code by '
             'behaviour replay (spec->code) and trace validation (code->spec). See DESIGN.md.',
  }
  return m


if __name__ == '__main__':
  m = build()
  with open(os.path.join(VERIF, 'MANIFEST.json'), 'w') as f:
    json.dump(m, f, indent=1)
  try:
    import jsonschema
    jsonschema.validate(m, json.load(open('/root/.vp/MANIFEST.schema.json')))
    print('MANIFEST.json valid: %d checks, %d not_applicable' % (len(m['checks']), len(m['not_applicable'])))
  except ImportError:
    print('MANIFEST.json written (jsonschema not available)')
